#!/bin/bash
# offline setup: nothing to build (the engine is pure Python run by /venv/bin/python); verify the tools exist
set -e
cd "$(dirname "$0")"
/venv/bin/python -c "import Cython, numpy; from Cython.Compiler.Main import Context"
/venv/bin/python -c "import sys; sys.path.insert(0,'.'); from bsvc import solver; z=solver.z3mod(); print('z3', z.get_version_string())"
test -x /usr/bin/z3 && test -x /usr/bin/cvc5
mkdir -p out evidence
echo setup-ok
