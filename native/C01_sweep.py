"""Native runtime contract for C01: every propensity type x reactant multiset of order 0..4 x four modes, through a bare
propensity object and through the plain and safe interfaces, against the closed forms of the statement."""
import itertools, json, math, random, sys, warnings
import numpy as np
warnings.simplefilter('ignore')
from bioscrape.types import Model
from bioscrape.simulator import ModelCSimInterface, SafeModelCSimInterface

SPEC = json.loads(sys.argv[1]) if len(sys.argv) > 1 else {}


def ff(x, m):
    r = 1.0
    for j in range(m):
        r *= max(x - j, 0.0)
    return r


def oracle(kind, reactants, x, p, V, mode):
    """x: dict species->value, p: dict"""
    if kind == 'massaction':
        r = len(reactants)
        val = p['k']
        for s in set(reactants):
            m = reactants.count(s)
            val *= (x[s] ** m) if mode in ('det', 'vol') else ff(x[s], m)
        if mode in ('vol', 'stovol'):
            val = val / V ** (r - 1)
        return val
    c = x['S'] / V if mode in ('vol', 'stovol') else x['S']
    h = (c / p['K']) ** p['n']
    val = p['k'] * h / (1 + h) if 'positive' in kind else p['k'] / (1 + h)
    if kind.startswith('proportional'):
        val *= x['D']
    return val


def evaluate(M, mode, state, V):
    prop = M.get_propensities()[0]
    params = M.get_parameter_values() if hasattr(M, 'get_parameter_values') else None
    params = np.array(M.get_params_values()) if params is None else np.array(params)
    out = {}
    if mode == 'det':
        out['object'] = prop.py_get_propensity(state, params)
    elif mode == 'vol':
        out['object'] = prop.py_get_volume_propensity(state, params, V)
    elif mode == 'sto':
        out['object'] = prop.py_get_stochastic_propensity(state, params)
    else:
        out['object'] = prop.py_get_stochastic_volume_propensity(state, params, V)
    for nm, cls in (('plain', ModelCSimInterface), ('safe', SafeModelCSimInterface)):
        itf = cls(M)
        out[nm] = itf.py_compute_propensities(state.copy(), 0.0, mode, V)[0]
    return out


def cases(rng, rounds):
    # every ordered pattern (restricted growth strings): repeats adjacent and non-adjacent
    pats = [[]]
    cur = [[]]
    for _ in range(4):
        nxt = []
        for p in cur:
            m = max(p) + 1 if p else 0
            for v in range(min(m, 2) + 1):
                nxt.append(p + [v])
        pats.extend(nxt)
        cur = nxt
    for p in pats:
        yield 'massaction', ['ABC'[i] for i in p]
    for kind in ('hillpositive', 'hillnegative', 'proportionalhillpositive', 'proportionalhillnegative'):
        yield kind, None


def main():
    rng = random.Random(SPEC.get('seed', 0))
    n = 0
    for rep in range(SPEC.get('rounds', 6)):
        for kind, reactants in cases(rng, 0):
            integer = rng.random() < 0.5
            val = (lambda: float(rng.randint(0, 6))) if integer else (lambda: rng.uniform(0.0, 6.0))
            V = rng.uniform(0.2, 5.0)
            if kind == 'massaction':
                k = rng.uniform(0.1, 5.0)
                # keep every reaction's full complement present so that the safe interface evaluates the closed form; in a third of the
                # cases the state is left below the complement (also fractional): there the closed form is 0 and the safe route is skipped
                below = rng.random() < 0.34
                x = {s: (rng.uniform(0.0, max(1.0, reactants.count(s))) if below else max(val(), float(reactants.count(s)))) for s in ['A', 'B', 'C']}
                M = Model(species=['A', 'B', 'C', 'P'], reactions=[(reactants, ['P'], 'massaction', {'k': k})],
                          initial_condition_dict=dict(x, P=0))
                p = {'k': k}
            else:
                below = False
                p = {'k': rng.uniform(0.1, 5), 'K': rng.uniform(0.2, 5), 'n': rng.choice([1, 2, 3, rng.uniform(0.5, 3.5)])}
                x = {'S': val(), 'D': val()}
                d = dict(k=p['k'], K=p['K'], n=p['n'], s1='S')
                if kind.startswith('proportional'):
                    d['d'] = 'D'
                M = Model(species=['S', 'D', 'P'], reactions=[([], ['P'], kind, d)], initial_condition_dict=dict(x, P=0))
            names = M.get_species_list() if hasattr(M, 'get_species_list') else None
            idx = M.get_species2index()
            state = np.zeros(len(idx))
            for s, i in idx.items():
                state[i] = x.get(s, 0.0)
            for mode in ('det', 'vol', 'sto', 'stovol'):
                want = oracle(kind, reactants, x, p, V, mode)
                got = evaluate(M, mode, state, V)
                n += 1
                for via, g in got.items():
                    if below and via == 'safe':
                        continue
                    if not (abs(g - want) <= 1e-9 * max(1.0, abs(want))):
                        return dict(reproduced=True, call='%s %s mode=%s via=%s state=%s params=%s V=%r' % (kind, reactants, mode, via, x, p, V),
                                    observed=float(g), expected=float(want))
    return dict(reproduced=False, evaluations=n)


print(json.dumps(main()))
