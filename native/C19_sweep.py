"""Native runtime contract for C19: splitters conserve molecules / volume per partition mode; simulated lineages are consistent
(every row positive volume, daughters start at the mother's last time from a partition of the mother's last state, links are
mutual), also when every reaction has become impossible.

SPEC: seed, rounds, part ('splitters' | 'single' | 'lineage' | None = all)."""
import json, random, sys, warnings
import numpy as np
warnings.simplefilter('ignore')
from bioscrape.types import Model
from bioscrape.simulator import VolumeCellState, PerfectBinomialVolumeSplitter, GeneralVolumeSplitter
from bioscrape.lineage import (LineageModel, LineageVolumeSplitter, LineageVolumeCellState, LineageCSimInterface, LineageSSASimulator,
                               py_SimulateCellLineage, py_SimulateSingleCell)
from bioscrape.random import py_seed_random

SPEC = json.loads(sys.argv[1]) if len(sys.argv) > 1 else {}
SP = ['A', 'B', 'C', 'D']


def splitters(rng):
    for it in range(SPEC.get('rounds', 60)):
        x = np.array([float(rng.randint(0, 40)) for _ in SP])
        V = rng.uniform(0.5, 3)
        py_seed_random(rng.randint(1, 10 ** 6))
        # perfect-binomial
        ps = VolumeCellState(); ps.py_set_state(x.copy()); ps.py_set_volume(V); ps.py_set_time(1.5)
        d, e = PerfectBinomialVolumeSplitter().py_partition(ps)
        if not np.array_equal(d.py_get_state() + e.py_get_state(), x) or abs(d.py_get_volume() + e.py_get_volume() - V) > 1e-12 or d.py_get_time() != 1.5:
            return dict(reproduced=True, call='PerfectBinomialVolumeSplitter.py_partition(state=%r, volume=%r)' % (x.tolist(), V),
                        observed=[d.py_get_state().tolist(), e.py_get_state().tolist(), d.py_get_volume(), e.py_get_volume()], expected='daughters sum to the mother')
        # general
        M = Model(species=SP, reactions=[(['A'], ['B'], 'massaction', {'k': 1.0})], initial_condition_dict={s: 1 for s in SP})
        modes = {s: rng.choice(['perfect', 'duplicate', 'binomial']) for s in SP}
        g = GeneralVolumeSplitter()
        if rng.random() < 0.5:      # the same splitter object configured before with other options: only the last configuration counts
            prev = {s: rng.choice(['perfect', 'duplicate', 'binomial']) for s in SP}
            g.py_set_partitioning({'perfect': [s for s in SP if prev[s] == 'perfect'], 'duplicate': [s for s in SP if prev[s] == 'duplicate']}, M)
        opt = {'perfect': [s for s in SP if modes[s] == 'perfect'], 'duplicate': [s for s in SP if modes[s] == 'duplicate']}
        for key in ('perfect', 'duplicate'):
            if not opt[key] and rng.random() < 0.7:
                del opt[key]          # a mode nobody uses is simply not mentioned
        g.py_set_partitioning(opt, M)
        noise = rng.choice([0.0, 0.1, 0.3])
        g.py_set_partition_noise(noise)
        ps = VolumeCellState(); ps.py_set_state(x.copy()); ps.py_set_volume(V); ps.py_set_time(0.5)
        d, e = g.py_partition(ps)
        bad = check_partition('GeneralVolumeSplitter(modes=%r, noise=%r)' % (modes, noise), M, modes, x, V, d, e, False)
        if bad:
            return bad
        # binomial species follow the DAUGHTER'S OWN volume fraction (visible with partition noise and large counts: 6-sigma band)
        if it % 6 == 0:
            gb = GeneralVolumeSplitter()
            gb.py_set_partitioning({}, M)
            gb.py_set_partition_noise(0.4)
            big = np.array([40000.0] * len(SP))
            pb = VolumeCellState(); pb.py_set_state(big.copy()); pb.py_set_volume(V); pb.py_set_time(0.5)
            db, eb = gb.py_partition(pb)
            frac = db.py_get_volume() / V
            share = db.py_get_state() / big
            tol = 6 * (frac * (1 - frac) / 40000.0) ** 0.5
            if (abs(share - frac) > tol).any():
                return dict(reproduced=True, call='GeneralVolumeSplitter(all binomial, noise=0.4).py_partition(state=40000 per species, volume=%r)' % V,
                            what='share of the molecules received by daughter 1 vs its share of the volume', observed=share.tolist(), expected='%r +- %r' % (frac, tol))
        # lineage splitter
        LM = LineageModel(species=SP, reactions=[(['A'], ['B'], 'massaction', {'k': 1.0})], initial_condition_dict={s: 1 for s in SP})
        opts = dict(modes)
        opts['default'] = rng.choice(['binomial', 'perfect', 'duplicate'])
        if rng.random() < 0.4:          # no 'volume' key: the volume follows the default mode
            vmode = opts['default']
        else:
            vmode = rng.choice(['binomial', 'perfect', 'duplicate'])
            opts['volume'] = vmode
        drop = rng.choice(SP)
        modes2 = dict(modes)
        del opts[drop]
        modes2[drop] = opts['default']
        try:
            ls = LineageVolumeSplitter(LM, options=opts, partition_noise=noise)
        except Exception as e:
            return dict(reproduced=True, call='LineageVolumeSplitter(M, options=%r)' % opts, what='constructor raised', observed=repr(e), expected='a splitter')
        pl = LineageVolumeCellState(v0=V, t0=0.25, state=x.copy())
        d, e = ls.py_partition(pl)
        bad = check_partition('LineageVolumeSplitter(options=%r, noise=%r)' % (opts, noise), LM, modes2, x, V, d, e, vmode == 'duplicate', vmode)
        if bad:
            return bad
    return None


def check_partition(what, M, modes, x, V, d, e, vdup, vmode='binomial'):
    ds, es = d.py_get_state(), e.py_get_state()
    call = '%s.py_partition(state=%r, volume=%r)' % (what, x.tolist(), V)
    if vdup:
        if d.py_get_volume() != V or e.py_get_volume() != V:
            return dict(reproduced=True, call=call, what='duplicated volume', observed=[d.py_get_volume(), e.py_get_volume()], expected=V)
    elif abs(d.py_get_volume() + e.py_get_volume() - V) > 1e-12 or d.py_get_volume() <= 0 or e.py_get_volume() <= 0:
        return dict(reproduced=True, call=call, what='daughter volumes', observed=[d.py_get_volume(), e.py_get_volume()], expected='positive, summing to %r' % V)
    for s in SP:
        i = M.get_species_index(s)
        if modes[s] == 'duplicate':
            ok = ds[i] == x[i] and es[i] == x[i]
        else:
            ok = ds[i] + es[i] == x[i] and ds[i] >= 0 and es[i] >= 0
            if modes[s] == 'perfect' and not vdup:
                p = d.py_get_volume() / V
                ok = ok and abs(ds[i] - p * x[i]) < 1 + 1e-9
        if not ok:
            return dict(reproduced=True, call=call, what='species %s (%s)' % (s, modes[s]), observed=[ds[i], es[i]], expected='mother had %r' % x[i])
    return None


def lineage_model(rng, exhaust):
    k = rng.uniform(0.5, 3)
    M = LineageModel(species=['A', 'B'], reactions=[(['A'], ['B'], 'massaction', {'k': k})] + ([] if exhaust else [([], ['A'], 'massaction', {'k': rng.uniform(1, 5)})]),
                     initial_condition_dict={'A': rng.randint(1, 4), 'B': 0})
    return M, k


def single(rng):
    """a cell whose only reaction runs out: every reported row must be a simulated one (positive volume, molecules conserved)"""
    for it in range(SPEC.get('rounds', 30)):
        M, k = lineage_model(rng, True)
        n0 = M.get_species_dictionary()['A']
        if it % 5 == 4:      # a cell that dies at its first instant: its single reported row must be its real state
            M.create_death_rule('species', {'specie': 'A', 'threshold': 0, 'comp': '>'})
            res = py_SimulateSingleCell(np.arange(0, 2, 0.1), Model=M, return_dataframes=False)
            vol, data = np.array(res.py_get_volume()), np.array(res.py_get_result())
            if len(vol) < 1 or (vol <= 0).any() or data[0].sum() != n0:
                return dict(reproduced=True, call='py_SimulateSingleCell(np.arange(0, 2, 0.1), A -> B, A0 = %r, death rule A > 0)' % n0, what='the only reported row',
                            observed=[vol.tolist(), data.tolist()], expected='volume 1, state [%r, 0]' % n0)
            continue
        g = rng.choice([0.0, 0.3])
        if g:
            M.create_volume_rule('ode', {'equation': 'volume * %r' % g})
        py_seed_random(rng.randint(1, 10 ** 6))
        tp = np.arange(0, rng.choice([3.0, 6.0]), rng.choice([0.1, 0.25]))
        res = py_SimulateSingleCell(tp, Model=M, return_dataframes=False)
        vol, data, tt = np.array(res.py_get_volume()), np.array(res.py_get_result()), np.array(res.py_get_timepoints())
        call = 'py_SimulateSingleCell(np.arange(0, %r, %r), LineageModel(A -> B at rate %r, A0 = %r%s))' % (tp[-1] + tp[1], tp[1], k, n0, ', volume rule dV/dt = %r V' % g if g else '')
        if len(vol) != len(tt) or len(data) != len(tt) or len(tt) != len(tp):
            return dict(reproduced=True, call=call, what='number of reported rows (no division or death rule)', observed=[len(tt), len(vol), len(data)], expected=len(tp))
        if (vol <= 0).any():
            j = int(np.argmax(vol <= 0))
            return dict(reproduced=True, call=call, what='volume of reported row %d (t=%r)' % (j, float(tt[j])), observed=float(vol[j]), expected='> 0')
        if (data.sum(axis=1) != n0).any():
            j = int(np.argmax(data.sum(axis=1) != n0))
            return dict(reproduced=True, call=call, what='A + B in reported row %d (t=%r)' % (j, float(tt[j])), observed=data[j].tolist(), expected='sum %r' % n0)
    return None


def lineage(rng):
    for it in range(SPEC.get('rounds', 12)):
        exhaust = rng.random() < 0.5
        M, k = lineage_model(rng, exhaust)
        M.create_volume_rule('ode', {'equation': 'volume * 0.7'})
        mode = rng.choice(['binomial', 'perfect'])
        vs = LineageVolumeSplitter(M, options={'default': mode, 'volume': rng.choice(['binomial', 'perfect'])}, partition_noise=rng.choice([0.0, 0.2]))
        M.create_division_rule('volume', {'threshold': 2.0}, vs)
        with_death = it % 2 == 1
        if with_death:       # cells (also daughters) die at a constant rate while others keep dividing
            M.create_death_event('death', {}, 'massaction', {'k': 0.35, 'species': ''})
        M.py_initialize()
        py_seed_random(rng.randint(1, 10 ** 6))
        step = 0.5 if it % 3 == 2 else 0.05          # a coarse grid makes divisions inside the last interval likely
        tp = np.arange(0, 6.0 if with_death else 4.0, step)
        lin = py_SimulateCellLineage(tp, Model=M)
        call = 'py_SimulateCellLineage(np.arange(0, %r, step), LineageModel(A -> B%s, dV/dt = 0.7 V, divide at V >= 2 with %s partition%s))' % (tp[-1] + step, '' if exhaust else ', 0 -> A', mode, ', death event at rate 0.35' if with_death else '')
        n = lin.py_size()
        for i in range(n):
            s = lin.py_get_schnitz(i)
            vol, data, tt = np.array(s.py_get_volume()), np.array(s.py_get_data()), np.array(s.py_get_time())
            if len(vol) == 0 or (vol <= 0).any():
                return dict(reproduced=True, call=call, what='cell %d has a reported row with non-positive volume' % i, observed=vol.tolist()[:8], expected='> 0')
            ds = s.py_get_daughters()
            if ds is not None and ds[0] is not None:
                d1, d2 = ds
                if d1.py_get_parent() is not s or d2.py_get_parent() is not s:
                    return dict(reproduced=True, call=call, what='daughter.parent is not the mother (cell %d)' % i, observed=None, expected='mutual links')
                t1, t2 = np.array(d1.py_get_time()), np.array(d2.py_get_time())
                if t1[0] != tt[-1] or t2[0] != tt[-1]:
                    return dict(reproduced=True, call=call, what='daughters of cell %d start at' % i, observed=[float(t1[0]), float(t2[0])], expected=float(tt[-1]))
                x1, x2 = np.array(d1.py_get_data())[0], np.array(d2.py_get_data())[0]
                v1, v2 = np.array(d1.py_get_volume())[0], np.array(d2.py_get_volume())[0]
                if (x1 + x2).sum() != data[-1].sum():
                    return dict(reproduced=True, call=call, what='first rows of the daughters of cell %d vs last row of the mother' % i, observed=[x1.tolist(), x2.tolist()], expected=data[-1].tolist())
                if abs(v1 + v2 - vol[-1]) > 0.2 * vol[-1]:
                    return dict(reproduced=True, call=call, what='daughter volumes of cell %d' % i, observed=[float(v1), float(v2)], expected=float(vol[-1]))
            p = s.py_get_parent()
            if p is not None:
                pd = p.py_get_daughters()
                if pd is None or (pd[0] is not s and pd[1] is not s):
                    return dict(reproduced=True, call=call, what='cell %d is not among its parent\'s daughters' % i, observed=None, expected='mutual links')
    return None


def dispatch(rng):
    """division rule and division event with different splitters: each division must use the splitter of what divided the cell"""
    for it in range(SPEC.get('rounds', 6)):
        for by_event in (True, False):
            M = LineageModel(species=['X', 'Y'], reactions=[([], ['Y'], 'massaction', {'k': 5.0})], initial_condition_dict={'X': 100, 'Y': 10})
            M.set_species({'X': 100, 'Y': 10})
            dup = LineageVolumeSplitter(M, options={'default': 'duplicate', 'volume': 'duplicate'})
            cons = LineageVolumeSplitter(M, options={'default': 'binomial', 'X': 'perfect', 'volume': 'perfect'}, partition_noise=0.0)
            M.create_volume_rule('ode', {'equation': 'volume * 0.5'})
            if by_event:      # the rule never fires; the event divides and must conserve
                M.create_division_rule('volume', {'threshold': 1.0e6}, dup)
                M.create_division_event('division', {}, 'massaction', {'k': 1.0, 'species': ''}, cons)
            else:             # the event never fires; the rule divides and must conserve
                M.create_division_rule('volume', {'threshold': 2.0}, cons)
                M.create_division_event('division', {}, 'massaction', {'k': 0.0, 'species': ''}, dup)
            M.py_initialize()
            py_seed_random(rng.randint(1, 10 ** 6))
            lin = py_SimulateCellLineage(np.arange(0, 3.0, 0.01), Model=M)
            call = 'py_SimulateCellLineage(..., division %s with a conserving splitter, division %s with a duplicating splitter that never fires)' % (
                ('event', 'rule') if by_event else ('rule', 'event'))
            ndiv = 0
            for i in range(lin.py_size()):
                s = lin.py_get_schnitz(i)
                ds = s.py_get_daughters()
                if ds is None or ds[0] is None:
                    continue
                ndiv += 1
                md, mv = np.array(s.py_get_data()), np.array(s.py_get_volume())
                a, b = np.array(ds[0].py_get_data())[0], np.array(ds[1].py_get_data())[0]
                va, vb = np.array(ds[0].py_get_volume())[0], np.array(ds[1].py_get_volume())[0]
                if a[M.get_species_index('X')] + b[M.get_species_index('X')] != md[-1][M.get_species_index('X')] or abs(va + vb - mv[-1]) > 1e-9:
                    return dict(reproduced=True, call=call, what='daughters of cell %d are not a conserving partition of the mother (wrong splitter used)' % i,
                                observed=[a.tolist(), b.tolist(), float(va), float(vb)], expected=[md[-1].tolist(), float(mv[-1])])
            if ndiv == 0:
                return dict(reproduced=False, note='no division happened', mode='dispatch')
    return None


def main():
    rng = random.Random(SPEC.get('seed', 0))
    part = SPEC.get('part')
    for name, fn in (('splitters', splitters), ('single', single), ('lineage', lineage), ('dispatch', dispatch)):
        if part in (None, name):
            bad = fn(rng)
            if bad:
                bad['part'] = name
                return bad
    return dict(reproduced=False, mode=part or 'all')


if __name__ == '__main__':
    print(json.dumps(main(), default=str))
