"""Native bounded stand-in for C04: deterministic trajectories of random linear (first-order) networks, with delayed parts, against the
matrix-exponential solution of dx/dt = (U + D) k x on uniform and non-uniform grids; row 0 is the initial condition."""
import json, random, sys, warnings
import numpy as np
from scipy.linalg import expm
warnings.simplefilter('ignore')
from bioscrape.types import Model
from bioscrape.simulator import py_simulate_model, ModelCSimInterface, SafeModelCSimInterface

SPEC = json.loads(sys.argv[1]) if len(sys.argv) > 1 else {}


def main():
    rng = random.Random(SPEC.get('seed', 0))
    n = 0
    for it in range(SPEC.get('rounds', 40)):
        names = ['A', 'B', 'C'][:rng.randint(2, 3)]
        rxs, A = [], np.zeros((len(names), len(names)))
        for r in range(rng.randint(1, 4)):
            s = rng.choice(names)
            pr = [rng.choice(names) for _ in range(rng.randint(0, 2))]
            k = rng.uniform(0.1, 1.5)
            if rng.random() < 0.5:
                dre = [s] if rng.random() < 0.2 else []
                dpr = [rng.choice(names) for _ in range(rng.randint(0, 2))]
                rxs.append(([s], pr, 'massaction', {'k': k}, 'fixed', dre, dpr, {'delay': rng.uniform(0.1, 3)}))
            else:
                dre, dpr = [], []
                rxs.append(([s], pr, 'massaction', {'k': k}))
            j = names.index(s)
            for t in names:
                i = names.index(t)
                A[i, j] += k * (pr.count(t) + dpr.count(t) - (1 if t == s else 0) - dre.count(t))
        if np.max(np.real(np.linalg.eigvals(A))) > 0.8:
            continue
        x0 = np.array([rng.uniform(0, 5) for _ in names])
        # an unused pair of species listed FIRST and staying at exactly zero (an inducer that is never added), and the safe interface: the rate
        # equations of the other species do not depend on them
        inert = rng.random() < 0.5
        safe = rng.random() < 0.5
        ic = dict(zip(names, x0))
        if inert:
            ic.update(I_=0.0, W_=0.0)
        M = Model(species=(['I_', 'W_'] if inert else []) + names, reactions=rxs + ([(['I_'], ['W_'], 'massaction', {'k': 1.0})] if inert else []), initial_condition_dict=ic)
        T = np.linspace(0, 5, 26) if rng.random() < 0.5 else np.array([0.0] + sorted(rng.uniform(0, 5) for _ in range(8)))
        reuse = it % 3 == 2
        if reuse:      # one interface object reused for several deterministic simulations (prepared again each time)
            itf = (SafeModelCSimInterface if rng.random() < 0.5 else ModelCSimInterface)(M)
            for _ in range(rng.randint(1, 3)):
                py_simulate_model(T, Interface=itf, stochastic=False, return_dataframe=False)
            res = py_simulate_model(T, Interface=itf, stochastic=False, return_dataframe=False).py_get_result()
        else:
            res = py_simulate_model(T, Model=M, stochastic=False, safe=safe, return_dataframe=False).py_get_result()
        idx = M.get_species2index()
        n += 1
        for m, t in enumerate(T):
            want = expm(A * t) @ x0
            got = np.array([res[m, idx[s]] for s in names])
            if not np.allclose(got, want, rtol=1e-5, atol=1e-6):
                return dict(reproduced=True, call='deterministic simulation%s%s%s of %r from %r at t=%r' % (' (interface reused)' if reuse else '', ' (safe=True)' if safe and not reuse else '', ' (two unused species at zero listed first)' if inert else '', rxs, x0.tolist(), float(t)), observed=got.tolist(), expected=want.tolist())
    # a run that needs the LAST rung of the integrator's step budget (more than 50000 and fewer than 500000 steps in one output interval:
    # a small hmax over a wide gap): well-posed, so the solution - not an all-NaN give-up - is due
    import math
    k = rng.uniform(0.005, 0.02)
    M = Model(species=['A', 'B'], reactions=[(['A'], ['B'], 'massaction', {'k': k})], initial_condition_dict={'A': 10.0, 'B': 0.0})
    T = np.array([0.0, rng.uniform(300, 420)])
    res = py_simulate_model(T, Model=M, stochastic=False, return_dataframe=False, hmax=0.005).py_get_result()
    idx = M.get_species2index()
    n += 1
    want = 10.0 * math.exp(-k * T[1])
    if not abs(res[1, idx['A']] - want) <= 1e-4:
        return dict(reproduced=True, call='deterministic simulation of A -> B (k=%r) on %r with hmax=0.005 (about %d integrator steps in one interval)' % (k, T.tolist(), int(T[1] / 0.005)),
                    observed=res[1].tolist(), expected='A(%r) = %r' % (T[1], want))
    return dict(reproduced=False, evaluations=n)


print(json.dumps(main()))
