"""Native runtime contract for C07: the full option lattice of py_simulate_model on models with/without delays and rules."""
import itertools, json, sys, warnings
import numpy as np
warnings.simplefilter('ignore')
from bioscrape.types import Model, Volume, StochasticTimeThresholdVolume
from bioscrape.simulator import py_simulate_model, ModelCSimInterface, SafeModelCSimInterface
from bioscrape.random import py_seed_random

SPEC = json.loads(sys.argv[1]) if len(sys.argv) > 1 else {}


def models():
    yield 'plain', dict(species=['Z', 'X', 'Y'], reactions=[(['X'], ['Y'], 'massaction', {'k': 1.0}), (['Y'], [], 'massaction', {'k': 0.3})],
                        initial_condition_dict={'X': 10, 'Y': 0, 'Z': 2})
    yield 'delay+rule', dict(species=['Z', 'X', 'Y', 'W'],
                             reactions=[(['X'], ['Y'], 'massaction', {'k': 1.0}),
                                        (['Y'], [], 'massaction', {'k': 0.5}, 'fixed', [], ['X'], {'delay': 0.7})],
                             rules=[('additive', {'equation': 'Z = X + Y'}), ('assignment', {'equation': 'p = 2*X + volume'}),
                                    ('assignment', {'equation': 'W = X*volume'})],       # a species that shows the volume the rules see
                             parameters=[('p', 0.0)], initial_condition_dict={'X': 10, 'Y': 0, 'Z': 0, 'W': 0})


def main():
    n = 0
    T = np.linspace(0, 3, 16)
    for name, kw in models():
        for stochastic, delay, safe, frame, via_itf in itertools.product([False, True], [False, True], [False, True], [False, True], [False, True]):
            for vol in (False, True, 2.5, 'object', 'dividing'):
                M = Model(**kw)
                order = sorted(M.get_species2index(), key=lambda s: M.get_species2index()[s])
                v = vol
                if vol == 'object':
                    v = Volume()
                    v.py_set_volume(2.5)
                if vol == 'dividing':        # a volume model whose cell divides inside the grid: the result is cut at the division
                    v = StochasticTimeThresholdVolume(2.0, 2.0, 0.0)
                    v.py_initialize(M.get_species_array().astype(float), np.zeros(8), 0.0, 1.2)
                args = dict(stochastic=stochastic, delay=delay, safe=safe, volume=v, return_dataframe=frame)
                if via_itf:
                    args['Interface'] = (SafeModelCSimInterface if safe else ModelCSimInterface)(M)
                else:
                    args['Model'] = M
                py_seed_random(5 + SPEC.get('seed', 0))
                call = 'py_simulate_model(%s model, %r, via_interface=%s)' % (name, {k: (x if k != 'volume' else vol) for k, x in args.items() if k not in ('Model', 'Interface')}, via_itf)
                try:
                    res = py_simulate_model(T, **args)
                except ValueError as e:      # an explicit option error is a ValueError that names the option; a TypeError from inside is a failure
                    if 'option' in str(e).lower() or 'volume' in str(e).lower() or 'delay' in str(e).lower():
                        continue
                    return dict(reproduced=True, call=call, observed='%s: %s' % (type(e).__name__, e), expected='a result or an explicit option error')
                except Exception as e:
                    return dict(reproduced=True, call=call, observed='%s: %s' % (type(e).__name__, e), expected='a result or an explicit option error')
                n += 1
                uses_vol = vol is not False and (stochastic or delay)
                if frame:
                    cols = list(res.columns)
                    want = (order if not via_itf else list(range(len(order)))) + ['time'] + (['volume'] if uses_vol else [])
                    if cols != want:
                        return dict(reproduced=True, call=call, observed=cols, expected=want)
                    t = np.asarray(res['time'], dtype=float)
                    rows = res[cols[:len(order)]].to_numpy()
                else:
                    t = res.py_get_timepoints()
                    rows = res.py_get_result()
                    if t is None:
                        return dict(reproduced=True, call=call, observed='time axis None', expected=T.tolist())
                if uses_vol:
                    vcol = np.asarray(res['volume'], dtype=float) if frame else np.asarray(res.py_get_volume(), dtype=float)
                    if len(vcol) != len(rows) or not (vcol > 0).all():
                        return dict(reproduced=True, call=call, observed=dict(rows=len(rows), volume_column=vcol.tolist()[-4:]), expected='one positive volume per reported row (a result cut at division has no rows after it)')
                if len(t) != len(rows) or (len(t) != len(T) and not uses_vol) or not np.allclose(t, T[:len(t)]):
                    return dict(reproduced=True, call=call, observed=[len(t), len(rows)], expected='%d rows, time axis == timepoints' % len(T))
                # first row = initial condition with the assignment rules applied
                x0 = dict(kw['initial_condition_dict'])
                if 'rules' in kw:
                    x0['Z'] = x0['X'] + x0['Y']
                    volval = {False: 1.0, True: 1.0, 2.5: 2.5, 'object': 2.5, 'dividing': 1.2}[vol] if (stochastic or delay) else 1.0
                    x0['W'] = x0['X'] * volval
                want0 = [x0[s] for s in order]
                if not np.allclose(rows[0], want0):
                    return dict(reproduced=True, call=call, observed=rows[0].tolist(), expected=want0)
    # one Model (and one pre-built Interface on it) reused for a sequence of calls that runs through the option combinations: every call
    # starts from the initial condition the model was built with, whichever simulator served the calls before it
    for name, kw in models():
        for via_itf in (False, True):
            M = Model(**kw)
            order = sorted(M.get_species2index(), key=lambda s: M.get_species2index()[s])
            itfs = {False: ModelCSimInterface(M), True: SafeModelCSimInterface(M)} if via_itf else None
            x0 = dict(kw['initial_condition_dict'])
            if 'rules' in kw:
                x0['Z'] = x0['X'] + x0['Y']
                x0['W'] = x0['X'] * 1.0
            want0 = [x0[s] for s in order]
            history = []
            combos = list(itertools.product([True, False], [True, False], [False, True], [False, 1.0]))
            for stochastic, delay, safe, vol in combos + combos[:4]:
                args = dict(stochastic=stochastic, delay=delay, safe=safe, volume=vol, return_dataframe=False)
                if via_itf:
                    args['Interface'] = itfs[safe]
                else:
                    args['Model'] = M
                py_seed_random(11 + SPEC.get('seed', 0) + len(history))
                try:
                    rows = py_simulate_model(T, **args).py_get_result()
                except Exception:
                    continue
                n += 1
                here = dict(stochastic=stochastic, delay=delay, safe=safe, volume=vol)
                if not np.allclose(rows[0], want0):
                    return dict(reproduced=True, call='py_simulate_model(%s model, %r) on a %s that served %d earlier calls, the last one %r' % (name, here, 'pre-built interface' if via_itf else 'Model', len(history), history[-1] if history else None),
                                observed=rows[0].tolist(), expected=want0)
                history.append(here)
    return dict(reproduced=False, evaluations=n)


print(json.dumps(main()))
