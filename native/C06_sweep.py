"""Native runtime contract for C06: safe mode never fires a reaction without its full complement of reactants (all propensity
types), trajectories are lattice paths, mass-action counts stay non-negative, dead states persist.  A crash (signal) of this
process is itself a reproduced violation (the safe interface reads past its sentinel table)."""
import json, random, sys, warnings
import numpy as np
warnings.simplefilter('ignore')
from bioscrape.types import Model
from bioscrape.simulator import py_simulate_model, ModelCSimInterface, SafeModelCSimInterface
from bioscrape.random import py_seed_random

SPEC = json.loads(sys.argv[1]) if len(sys.argv) > 1 else {}


def lattice_ok(rows, N):
    """each difference between consecutive rows is a non-negative integer combination of the columns of N (small search)"""
    import itertools
    R = N.shape[1]
    for a, b in zip(rows[:-1], rows[1:]):
        d = b - a
        if not np.any(d):
            continue
        # non-negative least squares by bounded enumeration would be exponential; use lstsq + rounding + verification
        sol, *_ = np.linalg.lstsq(N, d, rcond=None)
        c = np.round(sol)
        if np.allclose(N @ c, d) and (c >= -1e-9).all():
            continue
        # exact decision: integer feasibility of N c = d, c >= 0 (the earlier bounded enumeration 0..6 per reaction raised a false alarm on a
        # step of +15 in one species between two rows)
        from scipy.optimize import milp, LinearConstraint, Bounds
        r = milp(np.zeros(R), constraints=LinearConstraint(N, d, d), integrality=np.ones(R), bounds=Bounds(0, np.inf))
        if not (r.success and np.allclose(N @ np.round(r.x), d)):
            return False, (a.tolist(), b.tolist())
    return True, None


def main():
    rng = random.Random(SPEC.get('seed', 0))
    n = 0
    T = np.linspace(0, 4, 21)
    # 1. reactions that consume every species of the model, safe mode (sentinel table)
    for sp, rx in ((['A'], [(['A'], [], 'massaction', {'k': 1.0})]),
                   (['A', 'B'], [(['A', 'B'], [], 'massaction', {'k': 0.5})]),
                   (['A', 'B'], [(['A'], ['B'], 'massaction', {'k': 1.0}), (['A', 'B', 'B'], [], 'massaction', {'k': 0.1})])):
        M = Model(species=sp, reactions=rx, initial_condition_dict={s: 6 for s in sp})
        py_seed_random(7)
        res = py_simulate_model(T, Model=M, stochastic=True, safe=True, return_dataframe=False).py_get_result()
        n += 1
        if (res < 0).any():
            return dict(reproduced=True, call='safe SSA of %r' % (rx,), observed=res.min(), expected='>= 0')
    # 2. random networks: lattice membership, non-negativity (mass action), safe mode with Hill-rate consumers
    for it in range(SPEC.get('rounds', 60)):
        names = ['A', 'B', 'C'][:rng.randint(2, 3)]
        rxs = []
        for r in range(rng.randint(1, 3)):
            re_ = [rng.choice(names) for _ in range(rng.randint(0, 3))]
            pr = [rng.choice(names) for _ in range(rng.randint(0, 2))]
            if rng.random() < 0.3 and re_:
                rxs.append((re_, pr, 'hillnegative', {'k': rng.uniform(0.5, 3), 'K': 2.0, 'n': 2, 's1': rng.choice(names)}))
                safe = True
            else:
                rxs.append((re_, pr, 'massaction', {'k': rng.uniform(0.05, 1.0)}))
        safe = any(r[2] != 'massaction' for r in rxs) or rng.random() < 0.5
        x0 = {s: rng.randint(0, 8) for s in names}
        M = Model(species=names, reactions=rxs, initial_condition_dict=x0)
        py_seed_random(rng.randint(1, 10 ** 6))
        res = py_simulate_model(T, Model=M, stochastic=True, safe=safe, return_dataframe=False).py_get_result()
        n += 1
        if (res < -1e-9).any():
            return dict(reproduced=True, call='SSA(safe=%s) of %r from %r' % (safe, rxs, x0), observed=float(res.min()), expected='>= 0')
        if res.max() > 500:
            continue
        N = M.py_get_update_array() + M.py_get_delay_update_array()
        ok, w = lattice_ok(res, N)
        if not ok:
            return dict(reproduced=True, call='SSA(safe=%s) of %r from %r' % (safe, rxs, x0), observed=w, expected='difference in the reaction lattice')
    # 3. safe mode in the delay simulators: a reaction whose delayed part hands back a species its immediate part consumed
    #    (a gene / enzyme that is busy during the delay), with a rate that does not vanish when that species runs out
    for it in range(SPEC.get('rounds_delay', 12)):
        shape = rng.choice(['busy-gene', 'dimer'])
        if shape == 'busy-gene':
            rx = [(['G'], [], 'general', {'rate': 'kf'}, 'fixed', [], ['G', 'P'], {'delay': rng.uniform(0.3, 1.5)})]
            x0 = {'G': rng.randint(1, 2), 'P': 0}
        else:
            rx = [(['A', 'A'], [], 'hillnegative', {'k': 'kf', 'K': 5.0, 'n': 1, 's1': 'Q'}, 'fixed', [], ['A', 'Q'], {'delay': rng.uniform(0.3, 1.5)})]
            x0 = {'A': rng.choice([1, 3, 5]), 'Q': 0}
        M = Model(species=sorted(x0), reactions=rx, parameters=[('kf', rng.uniform(2, 8))], initial_condition_dict=x0)
        for mode in (dict(delay=True), dict(delay=True, volume=1.0)):
            py_seed_random(rng.randint(1, 10 ** 6))
            res = py_simulate_model(T, Model=M, stochastic=True, safe=True, return_dataframe=False, **mode).py_get_result()
            n += 1
            if (res < 0).any():
                return dict(reproduced=True, call='safe delay simulation %r of %r from %r' % (mode, rx, x0), observed=float(res.min()), expected='>= 0')
    # 4. safe mode in the volume simulators with several reactions: the reaction whose rate does not vanish is NOT the first one
    for it in range(SPEC.get('rounds_volume', 8)):
        rx = [(['A'], ['B'], 'massaction', {'k': rng.uniform(0.5, 2)}),
              (['B'], ['A'], 'massaction', {'k': rng.uniform(0.5, 2)}),
              (['C'], [], 'general', {'rate': 'kf'})]
        x0 = {'A': rng.randint(2, 6), 'B': 0, 'C': rng.randint(1, 3)}
        M = Model(species=sorted(x0), reactions=rx, parameters=[('kf', rng.uniform(2, 6))], initial_condition_dict=x0)
        for mode in (dict(volume=1.0), dict(volume=2.0), dict(delay=True, volume=1.0)):
            py_seed_random(rng.randint(1, 10 ** 6))
            res = py_simulate_model(T, Model=M, stochastic=True, safe=True, return_dataframe=False, **mode).py_get_result()
            n += 1
            if (res < 0).any():
                return dict(reproduced=True, call='safe volume simulation %r of %r from %r' % (mode, rx, x0), observed=float(res.min()), expected='>= 0')
    # 5. mass action with a repeated reactant (orders up to 4) in EVERY stochastic simulator, plain (not safe) interface: counts stay
    #    non-negative because the stochastic rate is the falling factorial, also when it is divided by a power of the volume
    for it in range(SPEC.get('rounds_modes', 16)):
        m = rng.randint(2, 3)
        rx = [(['A'] * m + (['B'] if (m == 2 or rng.random() < 0.5) else []), ['C'], 'massaction', {'k': rng.uniform(1, 6)}),
              (['C'], ['B'], 'massaction', {'k': rng.uniform(0.2, 1)})]
        x0 = {'A': rng.choice([3, 5, 7, 4, 8]), 'B': rng.randint(2, 5), 'C': 0}      # mostly not a multiple of the multiplicity: a remainder is left over
        M = Model(species=sorted(x0), reactions=rx, initial_condition_dict=x0)
        for mode in (dict(), dict(delay=True), dict(volume=1.0), dict(volume=0.5), dict(delay=True, volume=1.0)):
            py_seed_random(rng.randint(1, 10 ** 6))
            res = py_simulate_model(T, Model=M, stochastic=True, return_dataframe=False, **mode).py_get_result()
            n += 1
            if (res < 0).any():
                return dict(reproduced=True, call='stochastic simulation %r of %r from %r' % (mode, rx, x0), observed=float(res.min()), expected='>= 0')
    # 6. an ensemble over seeds on ONE Model with a delayed reaction, in the simulators without delay support (immediate + delayed part applied
    #    at the firing): every run is a path of the same reaction lattice (the model's stoichiometry is the same in every run) and A + B is conserved
    for it in range(SPEC.get('rounds_ensemble', 4)):
        A0 = rng.randint(8, 20)
        M = Model(species=['A', 'B'], reactions=[(['A'], [], 'massaction', {'k': rng.uniform(0.3, 1.5)}, 'fixed', [], ['B'], {'delay': 1.0})], initial_condition_dict={'A': A0, 'B': 0})
        U0, D0 = M.py_get_update_array().copy(), M.py_get_delay_update_array().copy()
        for run in range(4):
            for mode in (dict(), dict(safe=True), dict(volume=1.0)):
                py_seed_random(rng.randint(1, 10 ** 6))
                res = py_simulate_model(T, Model=M, stochastic=True, return_dataframe=False, **mode).py_get_result()
                n += 1
                if not np.array_equal(res.sum(axis=1), np.full(len(T), float(A0))) or not (np.array_equal(M.py_get_update_array(), U0) and np.array_equal(M.py_get_delay_update_array(), D0)):
                    return dict(reproduced=True, call='run %d of an ensemble on one Model (A -> delayed B, no delay support requested, %r)' % (run, mode),
                                observed=dict(row_sums=sorted(set(res.sum(axis=1).tolist())), stoichiometry=[M.py_get_update_array().tolist(), M.py_get_delay_update_array().tolist()]),
                                expected=dict(row_sums=[float(A0)], stoichiometry=[U0.tolist(), D0.tolist()]))
    # 7. many firings of one delayed reaction falling into the same queue slot (fast reaction, coarse grid), in the delay and the delay+volume
    #    simulator: once A is exhausted and the queue has drained, every firing has been delivered (B == A0): the final state is on the lattice
    for it in range(SPEC.get('rounds_burst', 4)):
        A0 = rng.randint(40, 120)
        M = Model(species=['A', 'B'], reactions=[(['A'], [], 'massaction', {'k': rng.uniform(15, 30)}, 'fixed', [], ['B'], {'delay': 0.5})], initial_condition_dict={'A': A0, 'B': 0})
        for mode in (dict(delay=True), dict(delay=True, volume=1.0), dict(delay=True, safe=True), dict(delay=True, volume=1.0, safe=True)):
            py_seed_random(rng.randint(1, 10 ** 6))
            res = py_simulate_model(T, Model=M, stochastic=True, return_dataframe=False, **mode).py_get_result()
            n += 1
            idx = M.get_species2index()
            if res[-1, idx['A']] == 0 and res[-1, idx['B']] != A0:
                return dict(reproduced=True, call='A -> (after 0.5) B at a high rate from A=%d, %r' % (A0, mode), observed=dict(final_A=float(res[-1, idx['A']]), final_B=float(res[-1, idx['B']])),
                            expected='B == %d at the end (every firing delivered exactly once)' % A0)
    return dict(reproduced=False, evaluations=n)


print(json.dumps(main()))
