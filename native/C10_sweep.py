"""Native runtime contract for C10: accounting identity of the delay simulator (reported state + still-queued deliveries accounts
for every firing), delivery not before the delay (to grid resolution), zero delays behave like the plain simulator on the
net stoichiometry."""
import json, random, sys, warnings
import numpy as np
warnings.simplefilter('ignore')
from bioscrape.types import Model
from bioscrape.simulator import ModelCSimInterface, DelaySSASimulator, ArrayDelayQueue, SSASimulator
from bioscrape.random import py_seed_random

SPEC = json.loads(sys.argv[1]) if len(sys.argv) > 1 else {}


def drain(q, nr, ncols):
    tot = np.zeros(nr)
    c = q.py_copy()
    for k in range(ncols):
        buf = np.zeros(nr)
        c.py_get_next_reactions(buf)
        tot += buf
        c.py_advance_time()
    return tot


def main():
    rng = random.Random(SPEC.get('seed', 0))
    n = 0
    for it in range(SPEC.get('rounds', 80)):
        kind = rng.choice(['fixed', 'gaussian', 'gamma'])
        dpar = {'fixed': {'delay': rng.choice([0.01, 0.3, 1.0, 2.5, 7.0, 30.0])},
                'gaussian': {'mean': rng.choice([0.5, 2.0]), 'std': rng.choice([0.1, 1.0])},
                'gamma': {'k': rng.choice([1.0, 2.0, 3.5]), 'theta': rng.choice([0.2, 1.0])}}[kind]
        A0 = rng.randint(5, 40)
        # A -> (immediately) C ; after the delay: + B (and -C with some probability: delayed reactant)
        dre = ['C'] if rng.random() < 0.3 else []
        M = Model(species=['A', 'B', 'C'], reactions=[(['A'], ['C'], 'massaction', {'k': rng.choice([0.3, 1.0])}, kind, dre, ['B'], dpar)],
                  initial_condition_dict={'A': A0, 'B': 0, 'C': 0})
        dt = rng.choice([0.05, 0.1, 0.25])
        T = np.arange(0, rng.choice([3.0, 6.0]), dt)
        seed = rng.randint(1, 10 ** 6)
        py_seed_random(seed)
        itf = ModelCSimInterface(M)
        itf.py_set_dt(dt)
        q = ArrayDelayQueue.setup_queue(1, len(T), dt)
        res = DelaySSASimulator().py_delay_simulate(itf, q, T)
        X = res.py_get_result()
        s2i = M.get_species2index()
        a, b, c = X[:, s2i['A']], X[:, s2i['B']], X[:, s2i['C']]
        fired = A0 - a[-1]
        # rows are recorded before the event at the last grid time; compare with the final queue only through inequalities
        queued = drain(res.py_get_delay_queue(), 1, len(T))[0]
        n += 1
        if b[-1] + queued > fired + 1e-9 or b[-1] + queued < fired - 1 - 1e-9:
            return dict(reproduced=True, call='delay_simulate %s %r seed=%d dt=%r' % (kind, dpar, seed, dt), observed=dict(B=float(b[-1]), queued=float(queued)), expected=dict(fired=float(fired)))
        if (np.diff(b) < -1e-9).any() or (b < -1e-9).any():
            return dict(reproduced=True, call='delay_simulate %s %r seed=%d' % (kind, dpar, seed), observed='B decreases or is negative', expected='monotone delivery')
        if kind == 'fixed':
            d = dpar['delay']
            for m in range(len(T)):
                # everything delivered by T[m] must have fired no later than T[m] - d + dt (nearest-slot rounding)
                # firings up to the first grid time after the bound are visible in that row
                j = min(int(np.searchsorted(T, max(T[m] - d + dt, 0.0), side='right')), len(T) - 1)
                fired_by = A0 - a[j] if T[m] - d + dt >= 0 else 0
                if b[m] > fired_by + 1e-9:
                    return dict(reproduced=True, call='delay_simulate fixed delay %r seed=%d dt=%r row %d' % (d, seed, dt, m),
                                observed=float(b[m]), expected='<= %r (firings old enough)' % float(fired_by))
                # ... and not later than the delay either: what had fired by a row at least d + 2*dt earlier is delivered in this row
                # (a delayed reactant only lowers C, B counts deliveries)
                js = np.nonzero(T <= T[m] - d - 2 * dt)[0]
                if len(js) and b[m] < (A0 - a[js[-1]]) - 1e-9:
                    return dict(reproduced=True, call='delay_simulate fixed delay %r seed=%d dt=%r row %d' % (d, seed, dt, m),
                                observed=float(b[m]), expected='>= %r (firings older than the delay plus two slots)' % float(A0 - a[js[-1]]))
    # a reporting grid that starts after the interface's initial time: the run still starts at the initial time and deliveries still
    # happen at firing time + delay, so with every firing and every delivery over long before the first reported time the first row shows them all
    for it in range(SPEC.get('offset_rounds', 6)):
        kind = rng.choice(['fixed', 'gaussian', 'gamma'])
        dpar = {'fixed': {'delay': 0.5}, 'gaussian': {'mean': 0.5, 'std': 0.1}, 'gamma': {'k': 4.0, 'theta': 0.1}}[kind]
        A0 = rng.randint(5, 40)
        M = Model(species=['A', 'B'], reactions=[(['A'], [], 'massaction', {'k': 4.0}, kind, [], ['B'], dpar)], initial_condition_dict={'A': A0, 'B': 0})
        dt = rng.choice([0.125, 0.25])
        t0 = rng.choice([10.0, 16.0])
        T = np.arange(t0, t0 + 3, dt)
        seed = rng.randint(1, 10 ** 6)
        py_seed_random(seed)
        itf = ModelCSimInterface(M)
        itf.py_set_dt(dt)
        q = ArrayDelayQueue.setup_queue(1, len(T), dt)
        X = DelaySSASimulator().py_delay_simulate(itf, q, T).py_get_result()
        s2i = M.get_species2index()
        n += 1
        if X[0, s2i['A']] == 0 and X[0, s2i['B']] != A0:      # (A exhausted by t0 with probability 1 - 40*exp(-40))
            return dict(reproduced=True, call='delay_simulate %s %r seed=%d on np.arange(%r, %r, %r) with the interface starting at time 0' % (kind, dpar, seed, t0, t0 + 3, dt),
                        observed=dict(first_rows_of_B=X[:4, s2i['B']].tolist()), expected='B == %d from the first row on (every firing and delivery happened long before %r)' % (A0, t0))
    # every delay is drawn from ITS OWN reaction's distribution: consecutive Gaussian draws with different (mean, std), alone and next to gamma
    # draws - a draw from N(mean, std) with a tiny std lies next to its mean whatever was drawn before it
    from bioscrape.random import py_normal_rv, py_gamma_rv
    for it in range(SPEC.get('sampler_rounds', 200)):
        py_seed_random(rng.randint(1, 10 ** 6)) if it % 20 == 0 else None
        if rng.random() < 0.5:
            py_normal_rv(rng.uniform(-5, 5), rng.uniform(0.5, 3))
        else:
            py_gamma_rv(rng.choice([1.0, 2.5, 4.0]), rng.uniform(0.2, 2))
        mean = rng.choice([40.0, 100.0, -7.0])
        x = py_normal_rv(mean, 1e-3)
        n += 1
        if abs(x - mean) > 1e-2:
            return dict(reproduced=True, call='py_normal_rv(%r, 0.001) after an earlier normal / gamma draw with other parameters' % mean, observed=float(x), expected='within 0.01 of %r' % mean)
    return dict(reproduced=False, evaluations=n)


print(json.dumps(main()))
