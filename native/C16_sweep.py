"""Native runtime contract for the priors: compares PIDInterface.<family>_prior / check_prior with scipy.stats log-densities
inside the support and requires a non-finite value outside it (open boundary points are not judged)."""
import json, math, random, sys, warnings
import numpy as np
warnings.simplefilter('ignore')
from scipy import stats
from bioscrape.pid_interfaces import PIDInterface

SPEC = json.loads(sys.argv[1]) if len(sys.argv) > 1 else {}


def oracle(fam, ps, v):
    """(status, value): 'in' with log-density, 'out', or 'boundary' (not judged)"""
    if fam == 'uniform':
        a, b = ps
        return ('in', math.log(1 / (b - a))) if a <= v <= b else ('out', None)
    if fam == 'gaussian':
        return 'in', stats.norm(ps[0], ps[1]).logpdf(v)
    if fam == 'exponential':
        return ('in', stats.expon(scale=1 / ps[0]).logpdf(v)) if v >= 0 else ('out', None)
    if fam == 'gamma':
        if v > 0:
            return 'in', stats.gamma(ps[0], scale=1 / ps[1]).logpdf(v)
        return ('boundary', None) if v == 0 else ('out', None)
    if fam == 'beta':
        if 0 < v < 1:
            return 'in', stats.beta(ps[0], ps[1]).logpdf(v)
        return ('boundary', None) if v in (0, 1) else ('out', None)
    if fam == 'log-uniform':
        a, b = ps
        return ('in', stats.loguniform(a, b).logpdf(v)) if a <= v <= b else ('out', None)
    if fam == 'log-gaussian':
        if v > 0:
            return 'in', stats.lognorm(s=ps[1], scale=math.exp(ps[0])).logpdf(v)
        return 'out', None
    raise KeyError(fam)


def one(fam, ps, v, positive, via_check):
    o = object.__new__(PIDInterface)
    prior = {'p': [fam] + list(ps) + (['positive'] if positive else [])}
    try:
        class _M:
            def get_parameter_dictionary(self):
                return {}
        PIDInterface.__init__(o, ['p'], _M(), prior)
    except Exception:
        o.prior = prior
    v = np.float64(v)
    if via_check:
        got = o.check_prior({'p': v})
    else:
        got = getattr(o, fam.replace('-', '_') + '_prior')('p', v)
    st, want = oracle(fam, ps, float(v))
    if positive and v < 0 and via_check:
        st = 'out'
    if st == 'boundary':
        return None
    if st == 'in':
        ok = np.isfinite(got) and abs(got - want) <= 1e-7 * max(1.0, abs(want))
    else:
        ok = not np.isfinite(got)
    if not ok:
        return dict(reproduced=True, call='%s(%s, v=%r, positive=%s, via_check_prior=%s)' % (fam, ps, float(v), positive, via_check),
                    observed=float(got), expected=want if st == 'in' else 'non-finite (rejected)')
    return None


def gen(rng, fam):
    u = lambda lo, hi: rng.uniform(lo, hi)
    if fam in ('uniform',):
        a = u(-3, 3); return [a, a + u(0.1, 4)]
    if fam == 'log-uniform':
        a = u(0.05, 3); return [a, a + u(0.1, 4)]
    if fam in ('gaussian', 'log-gaussian'):
        return [u(-2, 2), u(0.2, 3)]
    if fam == 'exponential':
        return [u(0.1, 4)]
    if fam == 'beta' and rng.random() < 0.3:
        # sharply peaked beta priors (large shape parameters): the density is still an ordinary double
        return [rng.choice([60.0, 90.0, 120.0]), rng.choice([60.0, 90.0, 120.0, 3.0])]
    return [rng.choice([0.5, 1.0, 2.0, 3.0, u(0.2, 5)]), rng.choice([0.5, 1.0, 2.0, 3.0, u(0.2, 5)])]


def main():
    fams = ['uniform', 'gaussian', 'exponential', 'gamma', 'beta', 'log-uniform', 'log-gaussian']
    if SPEC.get('family'):
        r = one(SPEC['family'], SPEC['params'], SPEC['v'], SPEC.get('positive', False), SPEC.get('via_check', False))
        if r:
            return r
        fams = [SPEC['family']]
    rng = random.Random(SPEC.get('seed', 0))
    n = 0
    for it in range(SPEC.get('rounds', 400)):
        fam = rng.choice(fams)
        ps = gen(rng, fam)
        for v in [rng.uniform(-3, 6), -1.0, -0.25, 0.5, 1.5, 0.05, rng.uniform(0, 1)]:
            for positive in (False, True):
                for via in (False, True):
                    n += 1
                    r = one(fam, ps, v, positive, via)
                    if r:
                        return r
    # vectors: two or three parameters of one family on ONE interface (prior parameters partly shared), evaluated twice
    for it in range(SPEC.get('rounds', 400) // 4):
        fam = rng.choice(fams)
        base = gen(rng, fam)
        entries, vals, want, ok_all = {}, {}, 0.0, True
        for j in range(rng.choice([2, 3])):
            ps = list(base)
            if len(ps) > 1 and rng.random() < 0.7:
                ps[1] = gen(rng, fam)[1]
                if fam in ('uniform', 'log-uniform'):
                    ps[1] = ps[0] + abs(ps[1]) + 0.1
            elif rng.random() < 0.5:
                ps = gen(rng, fam)
            v = rng.uniform(0.05, 0.95) if fam == 'beta' else rng.uniform(ps[0], ps[1]) if fam in ('uniform', 'log-uniform') else rng.uniform(0.1, 4)
            st, w = oracle(fam, ps, v)
            if st != 'in':
                ok_all = False
            else:
                want += w
            entries['p%d' % j] = [fam] + ps
            vals['p%d' % j] = np.float64(v)
        if not ok_all:
            continue
        o = object.__new__(PIDInterface)
        try:
            class _M:
                def get_parameter_dictionary(self):
                    return {}
            PIDInterface.__init__(o, list(entries), _M(), entries)
        except Exception:
            o.prior = entries
        for rep in range(2):
            got = o.check_prior(vals)
            n += 1
            if not (np.isfinite(got) and abs(got - want) <= 1e-7 * max(1.0, abs(want))):
                return dict(reproduced=True, call='check_prior(%r) with prior %r (evaluation %d)' % ({k: float(x) for k, x in vals.items()}, entries, rep + 1),
                            observed=float(got), expected=want)
    # the 'positive' flag belongs to its own parameter: a flagged parameter followed by an unflagged gaussian one whose value is negative
    for it in range(40):
        a, b = rng.uniform(1.5, 4), rng.uniform(0.5, 3)
        mu, sg = rng.uniform(-2, 1), rng.uniform(0.5, 2)
        v1, v2 = rng.uniform(0.2, 3), -rng.uniform(0.1, 2)
        entries = {'k': ['gamma', a, b, 'positive'], 'm': ['gaussian', mu, sg]}
        st1, w1 = oracle('gamma', [a, b], v1)
        st2, w2 = oracle('gaussian', [mu, sg], v2)
        o = object.__new__(PIDInterface)
        o.prior = entries
        got = o.check_prior({'k': np.float64(v1), 'm': np.float64(v2)})
        n += 1
        if st1 == 'in' and st2 == 'in' and not (np.isfinite(got) and abs(got - (w1 + w2)) <= 1e-7 * max(1.0, abs(w1 + w2))):
            return dict(reproduced=True, call='check_prior(k=%r, m=%r) with prior %r' % (v1, v2, entries), observed=float(got), expected=w1 + w2)
    # the posterior the sampler sees (get_likelihood_function of both inference interfaces, with a recording likelihood object): minus infinity
    # wherever the prior rejects - whichever way the prior signals the rejection - and log-density + log-likelihood inside the support
    from bioscrape.pid_interfaces import DeterministicInference, StochasticInference

    class _LL:
        def set_init_params(self, d):
            pass

        def py_log_likelihood(self):
            return -3.25
    for it in range(SPEC.get('rounds', 400) // 2):
        fam = rng.choice(fams)
        ps = gen(rng, fam)
        for v in [rng.uniform(-3, 6), -1.0, -0.25, 0.5, 1.5]:
            for positive in (False, True):
                for cls, field in ((DeterministicInference, 'LL_det'), (StochasticInference, 'LL_stoch')):
                    st, want = oracle(fam, ps, float(v))
                    if positive and v < 0:
                        st = 'out'
                    if st == 'boundary':
                        continue
                    o = object.__new__(cls)
                    o.prior = {'p': [fam] + list(ps) + (['positive'] if positive else [])}
                    o.params_to_estimate, o.default_parameters, o.log_space_parameters, o.debug, o.M = ['p'], {'p': 1.0}, False, False, None
                    setattr(o, field, _LL())
                    got = o.get_likelihood_function(np.array([v]))
                    n += 1
                    ok = (got == -np.inf) if st == 'out' else (np.isfinite(got) and abs(got - (want - 3.25)) <= 1e-7 * max(1.0, abs(want)))
                    if not ok:
                        return dict(reproduced=True, call='%s.get_likelihood_function([%r]) with prior %r and log-likelihood -3.25' % (cls.__name__, float(v), o.prior),
                                    observed=float(got), expected='-inf (rejected by the prior)' if st == 'out' else want - 3.25)
    return dict(reproduced=False, evaluations=n)


print(json.dumps(main()))
