"""Native runtime contract for C14: the model is written with the real libsbml, the written text is read back by libsbml,
and every kinetic law AST is evaluated with an own evaluator over the document's species and global parameters and compared
with the model's own propensity (deterministic / stochastic probe) at random states.

SPEC: seed, rounds, variant (optional 'massaction:A*A*B:stochastic' / 'hillpositive:regulator-inside:deterministic' ... : test
exactly this shape), hill (bool: include Hill types in the random sweep; default False - their kinetic laws are a recorded
KNOWN FINDING)."""
import json, math, random, sys, warnings
import numpy as np
warnings.simplefilter('ignore')
import libsbml
from bioscrape.types import Model

SPEC = json.loads(sys.argv[1]) if len(sys.argv) > 1 else {}
SPECIES = ['A', 'B', 'C', 'D', 'P']
HILL = ('hillpositive', 'hillnegative', 'proportionalhillpositive', 'proportionalhillnegative')


class Undefined(Exception):
    pass


def ev(node, env):
    t = node.getType()
    ch = [node.getChild(i) for i in range(node.getNumChildren())]
    if t == libsbml.AST_NAME:
        nm = node.getName()
        if nm not in env:
            raise Undefined(nm)
        return env[nm]
    if t == libsbml.AST_INTEGER:
        return float(node.getInteger())
    if t in (libsbml.AST_REAL, libsbml.AST_REAL_E, libsbml.AST_RATIONAL):
        return float(node.getReal())
    if t == libsbml.AST_PLUS:
        return sum(ev(c, env) for c in ch)
    if t == libsbml.AST_MINUS:
        return -ev(ch[0], env) if len(ch) == 1 else ev(ch[0], env) - ev(ch[1], env)
    if t == libsbml.AST_TIMES:
        r = 1.0
        for c in ch:
            r *= ev(c, env)
        return r
    if t == libsbml.AST_DIVIDE:
        return ev(ch[0], env) / ev(ch[1], env)
    if t in (libsbml.AST_POWER, libsbml.AST_FUNCTION_POWER):
        return ev(ch[0], env) ** ev(ch[1], env)
    if t == libsbml.AST_FUNCTION_EXP:
        return math.exp(ev(ch[0], env))
    if t == libsbml.AST_FUNCTION_LN:
        return math.log(ev(ch[0], env))
    if t == libsbml.AST_FUNCTION_ABS:
        return abs(ev(ch[0], env))
    raise Undefined('operator type %d (%s)' % (t, libsbml.formulaToL3String(node)))


def shape_of(variant):
    parts = variant.split(':')
    sto = parts[-1] == 'stochastic'
    kind = parts[0]
    if kind.startswith('massaction'):
        pat = [] if parts[1] == '0' else parts[1].split('*')
        prods = ['P', 'P', 'D', 'B', 'B', 'B'] if 'reversed' in kind else (['P', 'P', 'A'] if kind.endswith('numeric') and pat else ['P'])
        return (pat, prods, 'massaction', {'k': 1.7} if kind.endswith('numeric') else {'k': 'kf'}), sto
    if kind in HILL:
        pd = {'k': 'kf', 'K': 'Kd', 'n': 'nh', 's1': 'A'}
        if kind.startswith('proportional'):
            pd['d'] = 'B'
        if parts[1] == 'numeric':
            pd.update(k=1.7, K=2.5, n=2.0)
        if parts[1] == 'regulator-inside':
            return (['A'], ['A', 'P'], kind, pd), sto
        return ([], ['P'], kind, pd), sto
    if kind == 'general':
        rate = {'michaelis-menten': 'kf*A*B/(Kd+A)', 'python-power': 'kf*A**2 - Kd*A', 'unary-minus-on-a-power': 'kf*exp(-A^2/Kd) + B',
                'power-of-a-power': 'kf*A^B^0.5 + Kd'}.get(parts[1], 'kf*A*B/(Kd+A)')
        return (['A'], ['P'], 'general', {'rate': rate}), sto
    return None, sto


def random_shape(rng):
    kinds = ['massaction'] * 4 + ['general'] + (list(HILL) if SPEC.get('hill') else [])
    kind = rng.choice(kinds)
    prods = [rng.choice(SPECIES) for _ in range(rng.randint(0, 3))]
    if kind == 'massaction':
        return ([rng.choice(SPECIES[:4]) for _ in range(rng.randint(0, 4))], prods, 'massaction', {'k': rng.choice(['kf', round(rng.uniform(0.1, 3), 3)])})
    if kind == 'general':
        return ([rng.choice(SPECIES[:4])], prods, 'general', {'rate': rng.choice(['kf*A*B/(Kd+A)', 'kf*A**2 + Kd*B', 'kf*(A+B)^2/(1+Kd*D)', 'nh*exp(-Kd*A)*B', 'kf*exp(-A^2/Kd) + B', 'kf*A^B^0.5 + Kd'])})
    pd = {'k': rng.choice(['kf', 1.3]), 'K': rng.choice(['Kd', 2.5]), 'n': rng.choice(['nh', 2.0]), 's1': rng.choice(SPECIES[:4])}
    if kind.startswith('proportional'):
        pd['d'] = rng.choice(SPECIES[:4])
    return ([rng.choice(SPECIES[:4]) for _ in range(rng.randint(0, 1))], prods, kind, pd)


def check(rx, sto, rng, n_states=6):
    p = {'kf': rng.uniform(0.2, 3), 'Kd': rng.uniform(0.5, 4), 'nh': rng.choice([1.0, 2.0, 2.5, 3.0])}
    if rng.random() < 0.5:
        p['k'] = rng.uniform(0.2, 3)       # a global parameter whose name is contained in other identifiers (the dummy ids of numeric constants contain "_k_")
    M = Model(species=list(SPECIES), reactions=[rx], parameters=list(p.items()), initial_condition_dict={s: rng.randint(0, 9) for s in SPECIES})
    doc, _ = M.generate_sbml_model(stochastic_model=sto)
    text = libsbml.writeSBMLToString(doc)
    doc2 = libsbml.readSBMLFromString(text)
    m = doc2.getModel()
    call = 'Model(species=%r, reactions=[%r], parameters=%r).generate_sbml_model(stochastic_model=%r)' % (SPECIES, rx, p, sto)
    prop = M.get_propensities()[0]
    pv = np.array(M.get_parameter_values(), dtype=float)
    s2i = {s: M.get_species2index()[s] for s in SPECIES} if hasattr(M, 'get_species2index') else None
    if s2i is None:
        s2i = {s: M.get_species_index(s) for s in SPECIES}
    r = m.getReaction(0)
    law = r.getKineticLaw().getMath()
    for lname, lst, want in (('reactant', r.getListOfReactants(), rx[0]), ('product', r.getListOfProducts(), rx[1])):
        got = {}
        for ref in lst:
            got[ref.getSpecies()] = got.get(ref.getSpecies(), 0) + ref.getStoichiometry()
        wantd = {s: float(want.count(s)) for s in want}
        if got != wantd:
            return dict(reproduced=True, call=call, what='%s stoichiometry' % lname, observed=got, expected=wantd)
    for _ in range(n_states):
        x = np.zeros(len(SPECIES))
        for s in SPECIES:
            x[s2i[s]] = float(rng.randint(0, 6)) if sto else rng.choice([0.0, rng.uniform(0, 5), float(rng.randint(0, 4))])
        env = {sp.getId(): x[s2i[sp.getId()]] for sp in m.getListOfSpecies() if sp.getId() in s2i}
        for q in m.getListOfParameters():
            env[q.getId()] = q.getValue()
        want = prop.py_get_stochastic_propensity(x, pv) if sto else prop.py_get_propensity(x, pv)
        try:
            got = ev(law, env)
        except Undefined as e:
            return dict(reproduced=True, call=call, what='kinetic law %s refers to undefined identifier/operator %s' % (libsbml.formulaToL3String(law), e),
                        observed=None, expected=want)
        except ZeroDivisionError:
            continue
        if not (abs(got - want) <= 1e-9 * max(1.0, abs(want))):
            return dict(reproduced=True, call=call, what='kinetic law %s at state %r' % (libsbml.formulaToL3String(law), dict(zip(SPECIES, [x[s2i[s]] for s in SPECIES]))),
                        observed=got, expected=want)
    return None


def main():
    rng = random.Random(SPEC.get('seed', 0))
    n = 0
    if SPEC.get('variant'):
        rx, sto = shape_of(SPEC['variant'])
        if rx is not None:
            for _ in range(5):
                n += 1
                bad = check(rx, sto, rng)
                if bad:
                    return bad
            return dict(reproduced=False, checked=n, mode='variant ' + SPEC['variant'])
    for it in range(SPEC.get('rounds', 150)):
        rx = random_shape(rng)
        for sto in (False, True):
            n += 1
            bad = check(rx, sto, rng)
            if bad:
                return bad
    return dict(reproduced=False, checked=n, mode='random shapes, Hill types %s' % ('included' if SPEC.get('hill') else 'excluded (recorded known finding)'))


if __name__ == '__main__':
    print(json.dumps(main(), default=str))
