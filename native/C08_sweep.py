"""Native runtime contract for C08: the same definition reached by different edit/initialise/simulate histories gives identical
seeded stochastic output and repeatable deterministic output; simulating never changes the initial condition or unassigned parameters."""
import json, random, sys, warnings
import numpy as np
warnings.simplefilter('ignore')
from bioscrape.types import Model
from bioscrape.simulator import py_simulate_model, ModelCSimInterface, DeterministicSimulator
from bioscrape.random import py_seed_random

SPEC = json.loads(sys.argv[1]) if len(sys.argv) > 1 else {}
RX = [(['A'], ['B'], 'massaction', {'k': 'k1'}), (['B'], [], 'massaction', {'k': 0.7}, 'fixed', [], ['C'], {'delay': 0.8}),
      (['A', 'B'], ['C'], 'massaction', {'k': 'k2'}), ([], ['A'], 'hillnegative', {'k': 2.0, 'K': 3.0, 'n': 2, 's1': 'C'})]
PAR = {'k1': 1.2, 'k2': 0.05}
X0 = {'A': 12, 'B': 3, 'C': 0}
RULE = ('additive', {'equation': 'D = A + B'})


def fresh():
    return Model(species=['A', 'B', 'C', 'D'], reactions=[tuple(r) for r in RX], parameters=list(PAR.items()), rules=[(RULE[0], dict(RULE[1]))], initial_condition_dict=dict(X0, D=0))


def by_history(rng):
    early_D = rng.random() < 0.5          # the rule's target exists from the start, so that the rule is the LAST edit of an initialised model
    M = Model(species=['A', 'D'] if early_D else ['A'], initial_condition_dict={'A': 1})
    for k in PAR:
        M.create_parameter(k, rng.uniform(0.1, 2))
    steps = list(range(len(RX)))
    T = np.linspace(0, 2, 9)
    for i in steps:
        r = RX[i]
        M.create_reaction(*r[:4], **(dict(delay_type=r[4], delay_reactants=r[5], delay_products=r[6], delay_param_dict=dict(r[7])) if len(r) == 8 else {}))
        if rng.random() < 0.5:
            M.py_initialize()
        if rng.random() < 0.4:
            for k, v in PAR.items():
                M.set_parameter(k, rng.uniform(0.1, 2))
            try:
                py_seed_random(rng.randint(1, 99))
                py_simulate_model(T, Model=M, stochastic=rng.random() < 0.5, delay=rng.random() < 0.3)
            except Exception:
                pass
    if early_D:
        M.py_initialize()
    else:
        M._add_species('D')
    M.create_rule(RULE[0], dict(RULE[1]))
    for k, v in PAR.items():
        M.set_parameter(k, v)
    M.set_species(dict(X0, D=0))
    if rng.random() < 0.5:
        M.py_initialize()
        M.py_initialize()
    return M


def main():
    rng = random.Random(SPEC.get('seed', 0))
    T = np.linspace(0, 4, 17)
    n = 0
    for it in range(SPEC.get('rounds', 25)):
        F, H = fresh(), by_history(rng)
        for mode in (dict(stochastic=True), dict(stochastic=True, delay=True), dict(stochastic=True, safe=True), dict(stochastic=True, volume=2.0), dict(stochastic=False)):
            outs = []
            for M in (F, H, F):
                p_before, x_before = dict(M.get_parameter_dictionary()), dict(M.get_species_dictionary())
                py_seed_random(1234)
                res = py_simulate_model(T, Model=M, return_dataframe=False, **mode).py_get_result()
                s2i = M.get_species2index()
                outs.append(np.array([res[:, s2i[s]] for s in 'ABCD']))
                if dict(M.get_parameter_dictionary()) != p_before or dict(M.get_species_dictionary()) != x_before:
                    return dict(reproduced=True, call='simulate %r' % mode, observed='model values changed by the simulation', expected='unchanged')
            n += 1
            if not (np.array_equal(outs[0], outs[2]) and np.allclose(outs[0], outs[1], rtol=0, atol=0 if mode['stochastic'] else 1e-9)):
                j = int(np.argmax((outs[0] != outs[1]).any(axis=0))) if outs[0].shape == outs[1].shape else 0
                return dict(reproduced=True, call='same definition, different history, mode %r' % mode, what='species A, B, C, D in row %d (first differing row)' % j,
                            observed=outs[1][:, j].tolist(), expected=outs[0][:, j].tolist())
    # a reused interface follows later set_parameter calls
    M = fresh()
    itf = ModelCSimInterface(M)
    itf.py_prep_deterministic_simulation()
    a = DeterministicSimulator().py_simulate(itf, T).py_get_result()
    M.set_parameter('k1', 3.3)
    b = DeterministicSimulator().py_simulate(itf, T).py_get_result()
    itf2 = ModelCSimInterface(M); itf2.py_prep_deterministic_simulation()
    c = DeterministicSimulator().py_simulate(itf2, T).py_get_result()
    if not np.allclose(b, c):
        return dict(reproduced=True, call='reused interface after set_parameter', observed=b[-1].tolist(), expected=c[-1].tolist())
    # ... and later set_species calls, also when the unchanged model was initialised again in between (interfaces share the model's value arrays)
    for safe in (False, True):
        M = fresh()
        itf = (ModelCSimInterface if not safe else __import__('bioscrape.simulator', fromlist=['SafeModelCSimInterface']).SafeModelCSimInterface)(M)
        M.py_initialize()
        M.py_initialize()
        M.set_species({'A': 31, 'B': 7})
        for mode in (dict(stochastic=False), dict(stochastic=True)):
            py_seed_random(99)
            got = py_simulate_model(T, Interface=itf, return_dataframe=False, **mode).py_get_result()
            F = fresh()
            F.set_species({'A': 31, 'B': 7})
            py_seed_random(99)
            want = py_simulate_model(T, Model=F, safe=safe, return_dataframe=False, **mode).py_get_result()
            n += 1
            if not np.allclose(got, want, rtol=0, atol=1e-9):
                return dict(reproduced=True, call='interface (safe=%s) built, unchanged model initialised again, set_species(A=31, B=7), then simulate %r through the interface' % (safe, mode),
                            what='first row', observed=got[0].tolist(), expected=want[0].tolist())
    # samplers are functions of the seeded stream only: the first draws after seeding do not depend on what was drawn before the seed call
    from bioscrape.random import py_normal_rv, py_gamma_rv, py_uniform_rv
    for warm in (0, 1, 2, 3):
        for _ in range(warm):
            py_normal_rv(0.0, 1.0)
        py_seed_random(4242)
        got = [py_normal_rv(1.0, 2.0), py_gamma_rv(2.0, 0.5), py_normal_rv(0.0, 1.0), py_uniform_rv()]
        n += 1
        if warm == 0:
            ref_draws = got
        elif got != ref_draws:
            return dict(reproduced=True, call='py_seed_random(4242) then normal/gamma/normal/uniform draws, after %d earlier normal draw(s)' % warm, observed=got, expected=ref_draws)
    # lineage models: features registered before and after an intermediate simulation (= an intermediate initialisation) must give the
    # same model as registering all of them at once
    from bioscrape.lineage import LineageModel, LineageVolumeSplitter, py_SimulateSingleCell

    def lineage(history, kdiv, kvol):
        M = LineageModel(species=['A'], reactions=[([], ['A'], 'massaction', {'k': 1.0})], initial_condition_dict={'A': 0})
        vs = LineageVolumeSplitter(M, options={})
        M.create_division_event('division', {}, 'massaction', {'k': kdiv, 'species': ''}, vs)
        if history:
            py_seed_random(5)
            py_SimulateSingleCell(np.arange(0, 1, 0.1), Model=M, return_dataframes=False)
        M.create_volume_event('linear volume', {'growth_rate': 0.1}, 'massaction', {'k': kvol, 'species': ''})
        if history == 2:
            py_seed_random(6)
            py_SimulateSingleCell(np.arange(0, 1, 0.1), Model=M, return_dataframes=False)
        py_seed_random(7)
        r = py_SimulateSingleCell(np.arange(0, 4, 0.1), Model=M, return_dataframes=False)
        return [len(r.py_get_timepoints()), r.py_get_divided(), float(np.array(r.py_get_volume())[-1]), np.array(r.py_get_result())[-1].tolist()]
    for kdiv, kvol in ((0.0, 5.0), (0.3, 2.0)):
        ref = lineage(0, kdiv, kvol)
        for h in (1, 2):
            n += 1
            got = lineage(h, kdiv, kvol)
            if got != ref:
                return dict(reproduced=True, call='lineage model (division event rate %r, volume event rate %r) built with %d intermediate simulation(s) vs built at once' % (kdiv, kvol, h),
                            observed=got, expected=ref)
    return dict(reproduced=False, evaluations=n)


print(json.dumps(main()))
