"""Native bounded stand-in for the string -> tree step of C02 (the sympy dependency): random expression trees (depth <= 5) are
rendered to text, parsed by the REAL parse_expression, and evaluated with and without volume against an independent
evaluation of the generating tree.  Unknown names must be rejected."""
import json, math, random, sys, warnings
import numpy as np
warnings.simplefilter('ignore')
from bioscrape.types import parse_expression

SPEC = json.loads(sys.argv[1]) if len(sys.argv) > 1 else {}
SPECIES = ['X', 'Y_1', 'C', 'O', 'S', 'prot_2a']
PARAMS = ['k', 'Q', 'N', 'I', 'E', '_kq', 'beta_1', 'a1']
S2I = {s: i for i, s in enumerate(SPECIES)}
P2I = {p.lstrip('_'): i for i, p in enumerate(PARAMS)}


def gen(rng, d):
    if d == 0 or rng.random() < 0.25:
        r = rng.random()
        if r < 0.3:
            return ('num', rng.choice([0.5, 1, 2, 3, 2.5, 10]))
        if r < 0.6:
            return ('sp', rng.choice(SPECIES))
        if r < 0.85:
            return ('pa', rng.choice(PARAMS))
        return ('t',) if rng.random() < 0.5 else ('vol',)
    op = rng.choice(['+', '-', '*', '/', '^', 'exp', 'log', 'abs', 'heaviside', 'min', 'max'])
    if op in ('+', '-', '*', '/'):
        return (op, gen(rng, d - 1), gen(rng, d - 1))
    if op == '^':
        return ('^', gen(rng, d - 1), ('num', rng.choice([2, 3, 0.5, 1.5])) if rng.random() < 0.7 else gen(rng, 1))
    if op in ('min', 'max'):
        return (op, gen(rng, d - 1), gen(rng, d - 1))
    return (op, gen(rng, d - 1))


def render(e):
    k = e[0]
    if k == 'num':
        return repr(e[1])
    if k == 'sp' or k == 'pa':
        return e[1]
    if k == 't':
        return 't'
    if k == 'vol':
        return 'volume'
    if k in ('+', '-', '*', '/', '^'):
        return '(%s %s %s)' % (render(e[1]), k, render(e[2]))
    if k in ('min', 'max'):
        return '%s(%s, %s)' % (k.capitalize(), render(e[1]), render(e[2]))
    if k == 'heaviside':
        return 'Heaviside(%s)' % render(e[1])
    return '%s(%s)' % (k, render(e[1]))


def ev(e, x, p, t, V):
    k = e[0]
    if k == 'num':
        return float(e[1])
    if k == 'sp':
        return x[S2I[e[1]]]
    if k == 'pa':
        return p[P2I[e[1].lstrip('_')]]
    if k == 't':
        return t
    if k == 'vol':
        return V
    if k in ('+', '-', '*', '/', '^', 'min', 'max'):
        a, b = ev(e[1], x, p, t, V), ev(e[2], x, p, t, V)
        if k == '+': return a + b
        if k == '-': return a - b
        if k == '*': return a * b
        if k == '/': return a / b
        if k == '^':
            r = a ** b
            if isinstance(r, complex):
                raise ValueError('negative base with a fractional exponent: outside the real domain, the case is skipped')
            return r
        return min(a, b) if k == 'min' else max(a, b)
    a = ev(e[1], x, p, t, V)
    if k == 'exp': return math.exp(a)
    if k == 'log': return math.log(a)
    if k == 'abs': return abs(a)
    if abs(a) < 1e-6:
        raise ArithmeticError('heaviside at 0')
    return 1.0 if a > 0 else 0.0


def main():
    rng = random.Random(SPEC.get('seed', 0))
    n = 0
    rejected = 0
    # volume / time / each leaf kind in every child position of every node kind
    V_, X_, K_, T_ = ('vol',), ('sp', 'X'), ('pa', 'k'), ('t',)
    templates = []
    for leaf in (V_, T_, X_, K_, ('pa', '_kq'), ('sp', 'prot_2a')):
        for other in (('num', 2), X_, K_):
            for op in ('+', '-', '*', '/', '^', 'min', 'max'):
                templates.append((op, leaf, other))
                templates.append((op, other, leaf))
        for op in ('exp', 'log', 'abs', 'heaviside'):
            templates.append((op, ('+', leaf, ('num', 0.5))))
            templates.append((op, ('-', ('*', leaf, ('num', 3)), ('num', 1.7))))
    # a power of a power whose inner base can be negative ((b^2)^0.5 is |b|, not b; (b^2)^1.5 is |b|^3): the value is real and well defined
    for inner in (('-', X_, K_), ('-', K_, X_), ('-', X_, ('num', 2.0)), ('-', ('sp', 'prot_2a'), ('*', ('num', 2), K_))):
        for p_in, p_out in ((2, 0.5), (2, 1.5), (4, 0.25), (2, ('/', K_, ('num', 3)))):
            templates.append(('^', ('^', inner, ('num', p_in)), p_out if isinstance(p_out, tuple) else ('num', p_out)))
            templates.append(('+', ('^', ('^', inner, ('num', p_in)), p_out if isinstance(p_out, tuple) else ('num', p_out)), V_))
    for it in range(SPEC.get('rounds', 300) + len(templates)):
        e = templates[it] if it < len(templates) else gen(rng, rng.randint(1, 5))
        s = render(e)
        try:
            term = parse_expression(s, S2I, P2I)
        except (SyntaxError, ValueError):
            rejected += 1        # the statement allows rejection of what cannot be represented; it forbids wrong values
            continue
        for rep in range(4):
            x = np.array([rng.uniform(0.2, 4) for _ in SPECIES])
            p = np.array([rng.uniform(0.2, 3) for _ in PARAMS])
            t, V = rng.uniform(0, 5), rng.uniform(0.3, 3)
            for vol in (None, V):
                try:
                    want = ev(e, x, p, t, 1.0 if vol is None else vol)
                except (ArithmeticError, ValueError, OverflowError, ZeroDivisionError):
                    continue
                if isinstance(want, complex) or not math.isfinite(want) or abs(want) > 1e12:
                    continue
                got = term.py_evaluate(x, p, t) if vol is None else term.py_volume_evaluate(x, p, vol, t)
                n += 1
                if not (abs(got - want) <= 1e-7 * max(1.0, abs(want))):
                    return dict(reproduced=True, call='parse_expression(%r) at x=%r p=%r t=%r volume=%r' % (s, x.tolist(), p.tolist(), t, vol),
                                observed=float(got), expected=float(want))
    # the same text translated for two models that declare the same species in a different order: each term reads ITS model's state entries
    for rep in range(8):
        text = rng.choice(['k*X + kq/(1 + prot_2a)', 'X^2*volume + t - prot_2a*k', 'exp(-X/k) + prot_2a'])
        names = list(S2I)
        for trial in range(2):
            perm = names[:]
            rng.shuffle(perm)
            s2i = {nm: j for j, nm in enumerate(perm)}
            term = parse_expression(text, s2i, P2I)
            x = np.array([rng.uniform(0.2, 4) for _ in names])
            p = np.array([rng.uniform(0.2, 3) for _ in PARAMS])
            t, V = rng.uniform(0, 5), rng.uniform(0.3, 3)
            env = {'X': x[s2i['X']], 'prot_2a': x[s2i['prot_2a']], 'k': p[P2I['k']], 'kq': p[P2I['kq']], 't': t, 'volume': V, 'exp': math.exp}
            want = eval(text.replace('^', '**'), {'__builtins__': {}}, env)
            got = term.py_volume_evaluate(x, p, V, t)
            n += 1
            if not abs(got - want) <= 1e-9 * max(1.0, abs(want)):
                return dict(reproduced=True, call='parse_expression(%r, species order %r) (the same text was translated before for another order)' % (text, perm), observed=float(got), expected=float(want))
    # RULE expressions: an assignment rule whose right-hand side mentions t and volume, writing a species or a PARAMETER, through the rule's
    # own entry points (with and without a volume in play): the target gets the value of the written formula
    from bioscrape.types import GeneralAssignmentRule
    s2i_r, p2i_r = {'X': 0, 'Y': 1}, {'k': 0, 'p': 1}
    for target in ('Y', 'p'):
        rule = GeneralAssignmentRule()
        rule.initialize({'equation': '%s = 3*volume + t^2 + X*k' % target}, s2i_r, p2i_r, rule_frequency='repeat')
        for rep in range(6):
            X, k, V, t = rng.uniform(0, 9), rng.uniform(0.1, 2), rng.uniform(0.3, 4), rng.uniform(0, 10)
            for vol in (V, None):
                st, pa = np.array([X, 0.0]), np.array([k, 0.0])
                if vol is None:
                    rule.py_execute_rule(st, pa, t, 0.01, True)
                else:
                    rule.py_execute_volume_rule(st, pa, vol, t, 0.01, True)
                got = st[1] if target == 'Y' else pa[1]
                want = 3.0 * (1.0 if vol is None else vol) + t ** 2 + X * k
                n += 1
                if not abs(got - want) <= 1e-9 * max(1.0, abs(want)):
                    return dict(reproduced=True, call="assignment rule '%s = 3*volume + t^2 + X*k' at X=%r k=%r t=%r volume=%r" % (target, X, k, t, vol), observed=float(got), expected=want)
    for bad in ('X + nosuchname', 'k*Z9', 'Y_1^q', 'sin(X)', 'X + __kq'):
        try:
            parse_expression(bad, S2I, P2I)
            return dict(reproduced=True, call='parse_expression(%r)' % bad, observed='accepted', expected='rejected')
        except (ValueError, SyntaxError):
            n += 1
    return dict(reproduced=False, evaluations=n, rejected_expressions=rejected)


print(json.dumps(main()))
