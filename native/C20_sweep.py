"""Native runtime-contract sweep for ArrayDelayQueue (used to find a concrete failing input after a refuted obligation,
and as a bounded stand-in in the thorough tier).  Runs against the scratch build on PYTHONPATH."""
import json, math, random, sys
import numpy as np
from bioscrape.simulator import ArrayDelayQueue


def view(q, nr, nc):
    # drain a copy to read the abstract view without touching q
    c = q.py_copy()
    out = np.zeros((nr, nc))
    for k in range(nc):
        buf = np.zeros(nr)
        c.py_get_next_reactions(buf)
        out[:, k] = buf
        c.py_advance_time()
    return out


def nearest_slot(t, t0, dt, nc):
    s = math.floor((t - t0) / dt + 0.5)
    return 0 if s < 0 else nc - 1 if s >= nc else s


def run(seed, rounds=300):
    rng = random.Random(seed)
    for it in range(rounds):
        nr = rng.randint(1, 2)
        nc = rng.randint(2, 4)
        dt = rng.choice([0.25, 0.5, 1.0, 2.0])
        q = ArrayDelayQueue.setup_queue(nr, nc, dt)
        t_start = rng.choice([0.0, 1.0, 2.5])
        q.py_set_current_time(t_start)
        model = np.zeros((nr, nc))
        t0 = t_start + dt
        hist = []
        for step in range(rng.randint(1, 12)):
            op = rng.choice(['add', 'add', 'adv', 'copy', 'part'])
            if op == 'add':
                r = rng.randrange(nr)
                # never exactly half-way between grid points
                k = rng.randint(-2, nc + 2)
                t = t0 + k * dt + rng.choice([0.0, 0.2 * dt, -0.3 * dt, 0.45 * dt])
                q.py_add_reaction(t, r, 1.0)
                model[r, nearest_slot(t, t0, dt, nc)] += 1.0
                hist.append(('add', t, r))
            elif op == 'adv':
                buf = np.zeros(nr)
                q.py_get_next_reactions(buf)
                tq = q.py_get_next_queue_time()
                if not np.allclose(buf, model[:, 0]) or abs(tq - t0) > 1e-9:
                    return dict(reproduced=True, call='read-and-advance after %r' % (hist,), observed=[buf.tolist(), tq],
                                expected=[model[:, 0].tolist(), t0])
                q.py_advance_time()
                model = np.concatenate([model[:, 1:], np.zeros((nr, 1))], axis=1)
                t0 += dt
                hist.append(('adv',))
            elif op == 'copy':
                c = q.py_copy()
                before = view(q, nr, nc)
                c.py_add_reaction(t0, 0, 5.0)
                after = view(q, nr, nc)
                if not np.allclose(before, after):
                    return dict(reproduced=True, call='copy then write to the copy after %r' % (hist,),
                                observed=after.tolist(), expected=before.tolist())
                cv = view(c, nr, nc)
                cv[0, 0] -= 5.0
                if not np.allclose(cv, model):
                    return dict(reproduced=True, call='copy after %r' % (hist,), observed=cv.tolist(), expected=model.tolist())
                hist.append(('copy',))
            else:
                parts = q.py_binomial_partition(rng.choice([0.0, 0.3, 0.5, 1.0]))
                v1, v2 = view(parts[0], nr, nc), view(parts[1], nr, nc)
                if not np.allclose(v1 + v2, model) or (v1 < 0).any() or (v2 < 0).any():
                    return dict(reproduced=True, call='binomial_partition after %r' % (hist,),
                                observed=[v1.tolist(), v2.tolist()], expected=model.tolist())
                if not np.allclose(view(q, nr, nc), model):
                    return dict(reproduced=True, call='binomial_partition changed the original after %r' % (hist,),
                                observed=view(q, nr, nc).tolist(), expected=model.tolist())
                if abs(parts[0].py_get_next_queue_time() - t0) > 1e-9:
                    return dict(reproduced=True, call='partition clock', observed=parts[0].py_get_next_queue_time(), expected=t0)
                hist.append(('part',))
            got = view(q, nr, nc)
            if not np.allclose(got, model):
                return dict(reproduced=True, call='view after %r' % (hist,), observed=got.tolist(), expected=model.tolist())
    return dict(reproduced=False, evaluations=rounds)


if __name__ == '__main__':
    print(json.dumps(run(int(sys.argv[1]) if len(sys.argv) > 1 else 0)))
