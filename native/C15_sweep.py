"""Native runtime contract for C15: InferenceSetup cost == log-prior - (sum |data - simulation|^p)^(1/p) with each trajectory simulated
(py_simulate_model, C04) from its own initial condition / parameter condition / time points; invariant under permutation of
measurement columns and of trajectories, independent of earlier evaluations, -inf outside the prior support."""
import json, math, random, sys, warnings
import numpy as np, pandas as pd
warnings.simplefilter('ignore')
from bioscrape.types import Model
from bioscrape.simulator import py_simulate_model
from bioscrape.inference_setup import InferenceSetup

SPEC = json.loads(sys.argv[1]) if len(sys.argv) > 1 else {}


def model(pars):
    return Model(species=['X', 'Y', 'Z'], reactions=[(['X'], ['Y'], 'massaction', {'k': 'a'}), (['Y'], ['Z'], 'massaction', {'k': 'b'}),
                                                     (['Z'], [], 'massaction', {'k': 'c'}), ([], ['X'], 'massaction', {'k': 'd'})],
                 parameters=list(pars.items()), initial_condition_dict={'X': 5, 'Y': 1, 'Z': 0.5})


def oracle(pars, theta, frames, meas, ics, pcs, p, prior):
    lp = 0.0
    for k, v in theta.items():
        lo, hi = prior[k][1], prior[k][2]
        if not (lo <= v <= hi):
            return -math.inf
        lp += math.log(1 / (hi - lo))
    tot = 0.0
    for n, df in enumerate(frames):
        q = dict(pars); q.update(theta); q.update(pcs[n] if pcs else {})
        M = model(q)
        x0 = {'X': 5, 'Y': 1, 'Z': 0.5}; x0.update(ics[n] if ics else {})
        M.set_species(x0)
        T = np.array(df['time'], dtype=float)
        sim = py_simulate_model(T, Model=M, stochastic=False)
        for m in meas:
            tot += float(np.sum(np.abs(np.array(df[m], dtype=float) - np.array(sim[m], dtype=float)) ** p))
    return lp - tot ** (1.0 / p)


def main():
    rng = random.Random(SPEC.get('seed', 0))
    n = 0
    for it in range(SPEC.get('rounds', 12)):
        pars = {'a': 0.8, 'b': 0.4, 'c': 0.3, 'd': 0.6}
        N, nm, p = rng.randint(1, 4), rng.randint(1, 3), rng.randint(1, 3)
        meas = rng.sample(['X', 'Y', 'Z'], nm)
        frames, ics, pcs = [], [], []
        nT = rng.choice([nm, nm, 5, 3]) if nm > 1 else rng.choice([2, 5])       # incl. as many time points as measured species (a square data block)
        for k in range(N):
            T = np.sort(np.array([0.0] + [rng.uniform(0.1, 4) for _ in range(nT - 1)]))
            frames.append(pd.DataFrame(dict(time=T, **{s: [rng.uniform(0, 6) for _ in T] for s in ['X', 'Y', 'Z']})))
            ics.append({rng.choice(['X', 'Y']): rng.choice([rng.uniform(1, 8), 0.0])})       # also an initial condition of exactly 0
            pcs.append(rng.choice([{rng.choice(['c', 'd']): rng.uniform(0.1, 1.0)}, {}]) if k > 0 else {rng.choice(['c', 'd']): rng.uniform(0.1, 1.0)})
        prior = {'a': ['uniform', 0.1, 2.0], 'b': ['uniform', 0.05, 1.5]}

        def setup(frames_, meas_, ics_, pcs_):
            S = InferenceSetup(Model=model(pars), prior=prior, exp_data=list(frames_) if len(frames_) > 1 else frames_[0], measurements=list(meas_),
                               time_column='time', params_to_estimate=['a', 'b'], initial_conditions=list(ics_) if len(frames_) > 1 else ics_[0],
                               parameter_conditions=list(pcs_) if len(frames_) > 1 else pcs_[0], norm_order=p, sim_type='deterministic', nwalkers=4, nsteps=2, init_seed=0.1)
            S.prepare_inference()
            S.setup_cost_function()
            return S
        S = setup(frames, meas, ics, pcs)
        thetas = [[rng.uniform(0.2, 1.9), rng.uniform(0.1, 1.4)] for _ in range(3)]
        thetas = thetas + [thetas[0], [5.0, 0.3]]
        for th in thetas:
            got = S.cost_function(np.array(th))
            want = oracle(pars, dict(a=th[0], b=th[1]), frames, meas, ics, pcs, p, prior)
            n += 1
            if not ((math.isinf(want) and got == want) or abs(got - want) <= 1e-5 * max(1, abs(want))):
                return dict(reproduced=True, call='cost_function(%r) N=%d measurements=%r norm=%d ics=%r pcs=%r' % (th, N, meas, p, ics, pcs), observed=float(got), expected=want)
        if N > 1:
            perm = list(range(N)); rng.shuffle(perm)
            S2 = setup([frames[i] for i in perm], list(reversed(meas)), [ics[i] for i in perm], [pcs[i] for i in perm])
            a, b = S.cost_function(np.array(thetas[0])), S2.cost_function(np.array(thetas[0]))
            if abs(a - b) > 1e-6 * max(1, abs(a)):
                return dict(reproduced=True, call='permuting trajectories %r and measurement columns' % perm, observed=float(b), expected=float(a))
    return dict(reproduced=False, evaluations=n)


print(json.dumps(main()))
