"""Native runtime contract for C11 (growth part): with a StochasticTimeThresholdVolume the reported volume is positive,
non-decreasing and within one time step of V0*exp(g*(t - t0)); the result ends at division and is flagged; also with NO live
reaction (total propensity 0)."""
import json, math, random, sys, warnings
import numpy as np
warnings.simplefilter('ignore')
from bioscrape.types import Model, StochasticTimeThresholdVolume
from bioscrape.simulator import ModelCSimInterface, VolumeSSASimulator
from bioscrape.random import py_seed_random

SPEC = json.loads(sys.argv[1]) if len(sys.argv) > 1 else {}


def main():
    rng = random.Random(SPEC.get('seed', 0))
    n = 0
    for it in range(SPEC.get('rounds', 60)):
        live = rng.random() < 0.5
        rx = [([], ['A'], 'massaction', {'k': rng.uniform(0.5, 3)})] if live else [(['A'], [], 'massaction', {'k': 1.0})]
        M = Model(species=['A'], reactions=rx, initial_condition_dict={'A': 0})
        cycle = rng.choice([1.0, 2.0, 5.0])
        delta = rng.choice([0.1, 0.25, 0.5])
        t0 = rng.choice([0.0, 0.0, 3.0, 10.0])          # a cell may start at a non-zero time (continuing after a division)
        T = t0 + np.arange(0, rng.choice([2.0, 4.0]) + 1e-9, delta)
        v = StochasticTimeThresholdVolume(cycle, 1e9, 0.0)      # division far away
        py_seed_random(rng.randint(1, 10 ** 6))
        itf = ModelCSimInterface(M)
        itf.py_set_dt(delta)
        itf.py_set_initial_time(t0)
        v.py_initialize(np.array([0.0]), np.array(M.get_parameter_values() if hasattr(M, 'get_parameter_values') else [1.0]), t0, 1.0)
        res = VolumeSSASimulator().py_volume_simulate(itf, v, T)
        vol = res.py_get_volume()
        g = 0.69314718056 / cycle
        n += 1
        for m, t in enumerate(res.py_get_timepoints()):
            lo, hi = math.exp(g * max(t - t0 - delta, 0.0)), math.exp(g * (t - t0))
            if not (vol[m] > 0 and lo * (1 - 1e-9) <= vol[m] <= hi * (1 + 1e-9)) or (m > 0 and vol[m] < vol[m - 1]):
                return dict(reproduced=True, call='volume_simulate(live_reaction=%s, cycle=%r, delta=%r, initial time %r) row %d t=%r' % (live, cycle, delta, t0, m, float(t)),
                            observed=float(vol[m]), expected=[lo, hi])
    # division: with zero division noise the volume model reports division at the first delta tick at or after a known time; placed in every
    # interval of the grid - the first, a middle one and the LAST one - the result must end at that grid time and be flagged as divided
    for it in range(SPEC.get('division_rounds', 12)):
        delta = rng.choice([0.125, 0.25, 0.5])           # binary-exact: delta ticks and grid times coincide
        N = rng.choice([9, 17, 41])
        T = np.arange(N) * delta
        cycle = rng.choice([1.0, 2.0, 5.0])
        g = 0.69314718056 / cycle
        for j in sorted({1, 2, N // 2, N - 2, N - 1}):
            M = Model(species=['A'], reactions=[([], ['A'], 'massaction', {'k': rng.uniform(0.5, 3)}), (['A'], [], 'massaction', {'k': 0.5})], initial_condition_dict={'A': 3})
            v = StochasticTimeThresholdVolume(cycle, math.exp(g * (j - 0.5) * delta), 0.0)       # division time (j - 0.5) * delta, reported at tick j
            py_seed_random(rng.randint(1, 10 ** 6))
            itf = ModelCSimInterface(M)
            itf.py_set_dt(delta)
            itf.py_set_initial_time(0.0)
            v.py_initialize(np.array([3.0]), np.array([1.0]), 0.0, 1.0)
            res = VolumeSSASimulator().py_volume_simulate(itf, v, T.copy())
            tt = res.py_get_timepoints()
            n += 1
            if not res.py_cell_divided() or len(tt) != j + 1 or tt[-1] != T[j]:
                return dict(reproduced=True, call='volume_simulate on np.arange(%d) * %r with a division reported at grid time %r (index %d of %d)' % (N, delta, float(T[j]), j, N - 1),
                            observed=dict(flagged_divided=bool(res.py_cell_divided()), rows=len(tt), last_time=float(tt[-1])),
                            expected=dict(flagged_divided=True, rows=j + 1, last_time=float(T[j])))
    return dict(reproduced=False, evaluations=n)


print(json.dumps(main()))
