"""Native runtime contract for C12: random models are written to a real SBML file (both exports), read back, and compared
clause by clause with the original: species / initial values, parameters, immediate and delayed stoichiometry by species
name, all four rate forms at random states (probes), delay class and delay parameter values, rule targets / frequencies /
right-hand-side values; two exports of one model differ only in the model id.

SPEC: seed, rounds, shape (optional dict species/reactions/parameters/rules/stochastic as in contracts/sbml_roundtrip.py)."""
import json, math, os, random, re, sys, tempfile, warnings
import numpy as np
warnings.simplefilter('ignore')
import libsbml
from bioscrape.types import Model

SPEC = json.loads(sys.argv[1]) if len(sys.argv) > 1 else {}
SPECIES = ['A', 'B', 'C', 'D', 'P']
HILL = ('hillpositive', 'hillnegative', 'proportionalhillpositive', 'proportionalhillnegative')


def concretise(shape, rng):
    vals = {}

    def conv(d):
        out = {}
        for k, v in (d or {}).items():
            if isinstance(v, str) and v.startswith('$'):
                vals.setdefault(v, round(rng.uniform(0.2, 3), 3))
                out[k] = vals[v]
            else:
                out[k] = v
        return out
    rx = []
    for r in shape['reactions']:
        r = list(r)
        r[3] = conv(r[3])
        if len(r) == 8:
            r[7] = conv(r[7])
        rx.append(tuple(r))
    params = [(p, round(rng.uniform(0.2, 3), 3) if p != 'nh' else rng.choice([1.0, 2.0, 3.0])) for p in shape['parameters']]
    return dict(species=list(shape['species']), reactions=rx, parameters=params, rules=[tuple(r) for r in shape.get('rules', [])],
                x0={s: float(rng.randint(0, 9)) for s in shape['species']})


def random_shape(rng):
    rx = []
    params = ['kf', 'Kd', 'nh']
    for i in range(rng.randint(1, 3)):
        kind = rng.choice(['massaction'] * 3 + list(HILL) + ['general'])
        prods = [rng.choice(SPECIES) for _ in range(rng.randint(0, 3))]
        if kind == 'massaction':
            r = [[rng.choice(SPECIES[:4]) for _ in range(rng.randint(0, 4))], prods, kind, {'k': rng.choice(['kf', '$k%d' % i])}]
        elif kind == 'general':
            r = [[rng.choice(SPECIES[:4])], prods, kind, {'rate': rng.choice(['kf*A*B/(Kd+A)', 'kf*A**2 + Kd*B', 'kf*(A+B)^2/(1+Kd*D)', 'nh*exp(-Kd*A)*B + volume'])}]
        else:
            pd = {'k': rng.choice(['kf', '$k%d' % i]), 'K': rng.choice(['Kd', '$K%d' % i]), 'n': rng.choice(['nh', '$n%d' % i]), 's1': rng.choice(SPECIES[:4])}
            if kind.startswith('proportional'):
                pd['d'] = rng.choice(SPECIES[:4])
            r = [[rng.choice(SPECIES[:4]) for _ in range(rng.randint(0, 1))], prods, kind, pd]
        if rng.random() < 0.4:
            dt = rng.choice(['fixed', 'gaussian', 'gamma'])
            dp = {'fixed': {'delay': '$tau%d' % i}, 'gaussian': {'mean': '$mu%d' % i, 'std': '$sd%d' % i}, 'gamma': {'k': '$gk%d' % i, 'theta': '$gth%d' % i}}[dt]
            r += [dt, [rng.choice(SPECIES) for _ in range(rng.randint(0, 2))], [rng.choice(SPECIES) for _ in range(rng.randint(0, 3))], dp]
        rx.append(r)
    rules = []
    if rng.random() < 0.5:
        freq = rng.choice(['repeated', 'start', 'dt', '0.5', 0.25, '2.5e1', '1e-3', 5e-05, '.5'])      # time points in every spelling float() accepts
        rules.append(rng.choice([('assignment', {'equation': 'D = kf * A + B'}, freq), ('additive', {'equation': 'D = A + B + C'}, freq),
                                 ('assignment', {'equation': 'Kd = A * 2 + 1'}, freq)]))
    return dict(species=list(SPECIES), reactions=rx, parameters=params, rules=rules)


def rename_species(c, mapping):
    """the same model with some species called like reserved words of the expression language up to case (T, Volume): ordinary species"""
    pat = re.compile(r'\b(%s)\b' % '|'.join(map(re.escape, mapping)))
    sub = lambda t: pat.sub(lambda m: mapping[m.group(1)], t) if isinstance(t, str) else t
    ren = lambda L: [mapping.get(x, x) for x in L]
    rx = []
    for r in c['reactions']:
        r = list(r)
        r[0], r[1] = ren(r[0]), ren(r[1])
        r[3] = {k: (mapping.get(v, v) if k in ('s1', 'd') else sub(v) if k == 'rate' else v) for k, v in r[3].items()}
        if len(r) == 8:
            r[5], r[6] = ren(r[5]), ren(r[6])
        rx.append(tuple(r))
    rules = [tuple([r[0], {k: sub(v) for k, v in r[1].items()}] + list(r[2:])) for r in c['rules']]
    return dict(species=ren(c['species']), reactions=rx, parameters=c['parameters'], rules=rules, x0={mapping.get(k, k): v for k, v in c['x0'].items()})


def rhs_value(eq, env):
    rhs = eq.split('=', 1)[1].replace('^', '**')
    return eval(rhs, {'__builtins__': {}}, dict(env, exp=math.exp, log=math.log, ln=math.log, Abs=abs))


def freq_norm(f):
    if f in ('repeat', 'repeated'):
        return 'repeated'
    try:
        return float(f)
    except (TypeError, ValueError):
        return f


def compare(M, M2, call, rng, sto):
    sd, sd2 = M.get_species_dictionary(), M2.get_species_dictionary()
    if sd != sd2:
        return dict(reproduced=True, call=call, what='species / initial values', observed=sd2, expected=sd)
    pd, pd2 = M.get_parameter_dictionary(), M2.get_parameter_dictionary()
    if dict(pd) != dict(pd2):
        return dict(reproduced=True, call=call, what='parameter values', observed=dict(pd2), expected=dict(pd))
    s2i, s2i2 = M.get_species2index(), M2.get_species2index()
    for name, get in (('update array', lambda m: np.array(m.py_get_update_array())), ('delay update array', lambda m: np.array(m.py_get_delay_update_array()))):
        U, U2 = get(M), get(M2)
        if U.shape != U2.shape:
            return dict(reproduced=True, call=call, what=name + ' shape', observed=U2.shape, expected=U.shape)
        for s in s2i:
            if not np.array_equal(U[s2i[s]], U2[s2i2[s]]):
                return dict(reproduced=True, call=call, what='%s row of %s' % (name, s), observed=U2[s2i2[s]].tolist(), expected=U[s2i[s]].tolist())
    pv, pv2 = np.array(M.get_parameter_values(), dtype=float), np.array(M2.get_parameter_values(), dtype=float)
    P, P2 = M.get_propensities(), M2.get_propensities()
    for _ in range(5):
        x, x2 = np.zeros(len(s2i)), np.zeros(len(s2i2))
        for s in s2i:
            v = float(rng.randint(0, 6)) if rng.random() < 0.6 else rng.uniform(0, 5)
            x[s2i[s]] = v
            x2[s2i2[s]] = v
        V = rng.uniform(0.5, 3)
        for r in range(len(P)):
            for form, f in (('deterministic', lambda p, a, b: p.py_get_propensity(a, b)), ('volume', lambda p, a, b: p.py_get_volume_propensity(a, b, V)),
                            ('stochastic', lambda p, a, b: p.py_get_stochastic_propensity(a, b)),
                            ('stochastic volume', lambda p, a, b: p.py_get_stochastic_volume_propensity(a, b, V))):
                a, b = f(P[r], x, pv), f(P2[r], x2, pv2)
                if not (abs(a - b) <= 1e-9 * max(1.0, abs(a)) or (a != a and b != b)):
                    return dict(reproduced=True, call=call, what='%s rate of reaction %d at %r' % (form, r, {s: x[s2i[s]] for s in s2i}), observed=b, expected=a)
    D, D2 = M.get_delays(), M2.get_delays()
    defs, defs2 = M.__getstate__()[17], M2.__getstate__()[17]
    for r in range(len(D)):
        if type(D[r]) is not type(D2[r]):
            return dict(reproduced=True, call=call, what='delay type of reaction %d' % r, observed=type(D2[r]).__name__, expected=type(D[r]).__name__)
        dp, dp2 = defs[r][7] or {}, defs2[r][7] or {}
        if sorted(dp) != sorted(dp2):
            return dict(reproduced=True, call=call, what='delay parameter keys of reaction %d' % r, observed=sorted(dp2), expected=sorted(dp))
        for k in dp:
            a, b = M.get_param_value(dp[k]), M2.get_param_value(dp2[k])
            if a != b:
                return dict(reproduced=True, call=call, what='delay parameter %s of reaction %d' % (k, r), observed=b, expected=a)
    R, R2 = M.get_rules(), M2.get_rules()
    if len(R) != len(R2):
        return dict(reproduced=True, call=call, what='number of rules', observed=len(R2), expected=len(R))
    for (t, d, f), (t2, d2, f2) in zip(R, R2):
        if freq_norm(f) != freq_norm(f2):
            return dict(reproduced=True, call=call, what='rule frequency', observed=f2, expected=f)
        if d['equation'].split('=')[0].strip() != d2['equation'].split('=')[0].strip():
            return dict(reproduced=True, call=call, what='rule target', observed=d2['equation'], expected=d['equation'])
        env = {s: rng.uniform(0.1, 4) for s in s2i}
        env.update(pd)
        a, b = rhs_value(d['equation'], env), rhs_value(d2['equation'], env)
        if abs(a - b) > 1e-9 * max(1, abs(a)):
            return dict(reproduced=True, call=call, what='rule right-hand side', observed=d2['equation'], expected=d['equation'])
    return None


def check(c, rng, sto):
    M = Model(species=c['species'], reactions=c['reactions'], parameters=c['parameters'], rules=c['rules'], initial_condition_dict=c['x0'])
    call = 'Model(species=%r, reactions=%r, parameters=%r, rules=%r, initial_condition_dict=%r).write_sbml_model(f, stochastic_model=%r); Model(sbml_filename=f)' \
           % (c['species'], c['reactions'], c['parameters'], c['rules'], c['x0'], sto)
    fd, fn = tempfile.mkstemp(suffix='.xml')
    os.close(fd)
    try:
        try:
            M.write_sbml_model(fn, stochastic_model=sto)
        except Exception as e:
            return dict(reproduced=True, call=call, what='write_sbml_model raised', observed=repr(e), expected='a file')
        text1 = open(fn).read()
        try:
            M2 = Model(sbml_filename=fn, sbml_warnings=False)
        except Exception as e:
            return dict(reproduced=True, call=call, what='reading the written file raised', observed=repr(e), expected='a model')
        M.write_sbml_model(fn, stochastic_model=sto)
        text2 = open(fn).read()
    finally:
        os.unlink(fn)
    strip = lambda t: re.sub(r'bioscrape_generated_model_\d+', 'ID', t)
    if strip(text1) != strip(text2):
        return dict(reproduced=True, call=call, what='two exports of the same model differ beyond the model id', observed=None, expected=None)
    return compare(M, M2, call, rng, sto)


def main():
    rng = random.Random(SPEC.get('seed', 0))
    n = 0
    if SPEC.get('shape'):
        sh = SPEC['shape']
        for _ in range(4):
            n += 1
            bad = check(concretise(sh, rng), rng, bool(sh.get('stochastic')))
            if bad:
                return bad
        return dict(reproduced=False, checked=n, mode='given model shape')
    for it in range(SPEC.get('rounds', 120)):
        sh = random_shape(rng)
        for sto in (False, True):
            n += 1
            c = concretise(sh, rng)
            if it % 4 == 3:
                c = rename_species(c, {'B': 'T', 'D': 'Volume'})
            bad = check(c, rng, sto)
            if bad:
                return bad
    return dict(reproduced=False, checked=n, mode='random models')


if __name__ == '__main__':
    print(json.dumps(main(), default=str))
