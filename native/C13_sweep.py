"""Native runtime contract for C13: SBML documents are built directly with the real libsbml (independently of bioscrape's
writer), written to a file, imported with bioscrape, and the imported model's net rate equations / initial values /
parameters / rules are compared with the SBML semantics of the document evaluated by an own evaluator.

SPEC: seed, rounds, doc (optional: one document shape as in contracts/sbml_import.py, '$name' numbers drawn at random)."""
import json, math, os, random, sys, tempfile, warnings
import numpy as np
warnings.simplefilter('ignore')
import libsbml
from bioscrape.types import Model

SPEC = json.loads(sys.argv[1]) if len(sys.argv) > 1 else {}


class Undefined(Exception):
    pass


def ev(node, env):
    t = node.getType()
    ch = [node.getChild(i) for i in range(node.getNumChildren())]
    if t == libsbml.AST_NAME:
        if node.getName() not in env:
            raise Undefined(node.getName())
        return env[node.getName()]
    if t == libsbml.AST_INTEGER:
        return float(node.getInteger())
    if t in (libsbml.AST_REAL, libsbml.AST_REAL_E, libsbml.AST_RATIONAL):
        return float(node.getReal())
    if t == libsbml.AST_PLUS:
        return sum(ev(c, env) for c in ch)
    if t == libsbml.AST_MINUS:
        return -ev(ch[0], env) if len(ch) == 1 else ev(ch[0], env) - ev(ch[1], env)
    if t == libsbml.AST_TIMES:
        r = 1.0
        for c in ch:
            r *= ev(c, env)
        return r
    if t == libsbml.AST_DIVIDE:
        return ev(ch[0], env) / ev(ch[1], env)
    if t in (libsbml.AST_POWER, libsbml.AST_FUNCTION_POWER):
        return ev(ch[0], env) ** ev(ch[1], env)
    if t == libsbml.AST_FUNCTION_EXP:
        return math.exp(ev(ch[0], env))
    if t == libsbml.AST_FUNCTION_LN:
        return math.log(ev(ch[0], env))
    if t == libsbml.AST_FUNCTION_ABS:
        return abs(ev(ch[0], env))
    raise Undefined('operator %d' % t)


def concretise(spec, rng, given=None):
    vals = {('$' + k): v for k, v in (given or {}).items()}

    def num(v):
        if isinstance(v, str) and v.startswith('$'):
            if v not in vals:
                vals[v] = round(rng.choice([rng.uniform(0.1, 4), float(rng.randint(1, 5))]), 4)
            return vals[v]
        return v
    out = dict(species=[(s, num(a) if a is not None else None, num(c) if c is not None else None) for (s, a, c) in spec.get('species', [])],
               params=[(p, num(v) if v is not None else None) for (p, v) in spec.get('params', [])], reactions=[], rules=[list(r) for r in spec.get('rules', [])])
    for r in spec.get('reactions', []):
        r = dict(r)
        r['locals'] = [(p, num(v)) for (p, v) in r.get('locals', [])]
        out['reactions'].append(r)
    return out


def build(spec):
    doc = libsbml.SBMLDocument(3, 1)
    m = doc.createModel()
    m.setId('independent_document')
    c = m.createCompartment(); c.setId('cell'); c.setSize(1.0); c.setConstant(True)
    for (sid, a, cc) in spec['species']:
        s = m.createSpecies(); s.setId(sid); s.setCompartment('cell'); s.setBoundaryCondition(False); s.setConstant(False)
        s.setHasOnlySubstanceUnits(False)
        # libsbml keeps only the attribute set last (amount and concentration are mutually exclusive in a valid document)
        if cc is not None:
            s.setInitialConcentration(cc)
        if a is not None:
            s.setInitialAmount(a)
    for (pid, v) in spec['params']:
        p = m.createParameter(); p.setId(pid); p.setConstant(False)
        if v is not None:
            p.setValue(v)
    for r in spec['reactions']:
        rx = m.createReaction(); rx.setId(r['id']); rx.setReversible(False); rx.setFast(False) if hasattr(rx, 'setFast') else None
        for (sp, st) in r.get('reactants', []):
            x = rx.createReactant(); x.setSpecies(sp); x.setStoichiometry(float(st)); x.setConstant(True)
        for (sp, st) in r.get('products', []):
            x = rx.createProduct(); x.setSpecies(sp); x.setStoichiometry(float(st)); x.setConstant(True)
        for sp in r.get('modifiers', []):
            x = rx.createModifier(); x.setSpecies(sp)
        kl = rx.createKineticLaw()
        kl.setMath(libsbml.parseL3Formula(r['law']))
        for (pid, v) in r.get('locals', []):
            lp = kl.createLocalParameter(); lp.setId(pid); lp.setValue(v)
    for (kind, var, formula) in spec['rules']:
        ru = m.createAssignmentRule() if kind == 'assignment' else m.createRateRule()
        ru.setVariable(var)
        ru.setMath(libsbml.parseL3Formula(formula))
    return doc


def check(spec, rng):
    doc = build(spec)
    fd, fn = tempfile.mkstemp(suffix='.xml')
    os.close(fd)
    try:
        text = libsbml.writeSBMLToString(doc)
        # libsbml's setters keep only one of initialAmount / initialConcentration; a file may carry both: write the second one into the text
        for (sid, a, cc) in spec['species']:
            if a is not None and cc is not None:
                text = text.replace('<species id="%s"' % sid, '<species id="%s" initialConcentration="%r"' % (sid, cc), 1)
        with open(fn, 'w') as fh:
            fh.write(text)
        M = Model(sbml_filename=fn, sbml_warnings=False)
    finally:
        os.unlink(fn)
    call = 'Model(sbml_filename=<document %s>)' % json.dumps(spec)
    ids = [s[0] for s in spec['species']]
    sd = M.get_species_dictionary()
    if sorted(sd) != sorted(ids):
        return dict(reproduced=True, call=call, what='species set', observed=sorted(sd), expected=sorted(ids))
    for (sid, a, cc) in spec['species']:
        want = a if (a is not None and (a != 0 or cc is None)) else (cc if cc is not None else 0.0)      # non-zero amount, else concentration, else 0
        if abs(sd[sid] - want) > 1e-12:
            return dict(reproduced=True, call=call, what='initial value of ' + sid, observed=sd[sid], expected=want)
    pd = M.get_parameter_dictionary()
    for (pid, v) in spec['params']:
        if pid not in pd or (v is not None and abs(pd[pid] - v) > 1e-12):
            return dict(reproduced=True, call=call, what='parameter ' + pid, observed=pd.get(pid), expected=v)
    s2i = M.get_species2index()
    U = np.array(M.py_get_update_array())
    props = M.get_propensities()
    pv = np.array(M.get_parameter_values(), dtype=float)
    doc_rules = [r for r in spec['rules'] if r[0] == 'assignment']
    mrules = M.get_rules() if hasattr(M, 'get_rules') else None
    if mrules is not None and len(mrules) != len(doc_rules):
        return dict(reproduced=True, call=call, what='number of model rules vs assignment rules of the document', observed=len(mrules), expected=len(doc_rules))
    for _ in range(4):
        x = np.zeros(len(ids))
        for s in ids:
            x[s2i[s]] = rng.uniform(0.2, 4)
        genv = {s: x[s2i[s]] for s in ids}
        for (pid, v) in spec['params']:
            genv[pid] = v if v is not None else 0.0
        want = {s: 0.0 for s in ids}
        for r in spec['reactions']:
            env = dict(genv)
            env.update(dict(r.get('locals', [])))
            law = ev(libsbml.parseL3Formula(r['law']), env)
            for (sp, st) in r.get('reactants', []):
                want[sp] -= st * law
            for (sp, st) in r.get('products', []):
                want[sp] += st * law
        for (kind, var, formula) in spec['rules']:
            if kind == 'rate':
                want[var] += ev(libsbml.parseL3Formula(formula), genv)
        rates = np.array([p.py_get_propensity(x, pv) for p in props])
        got = U @ rates if len(props) else np.zeros(len(ids))
        for s in ids:
            if abs(got[s2i[s]] - want[s]) > 1e-8 * max(1.0, abs(want[s])):
                return dict(reproduced=True, call=call, what='d%s/dt at state %r' % (s, {k: float(v) for k, v in genv.items()}), observed=float(got[s2i[s]]), expected=want[s])
    return None


OPS = ['k1 * A * B', 'k2 * Cc', 'k1 * A^2 / (k2 + A)', 'k1 * exp(-k2 * B)', 'k2 * (A + B) - k1 * Cc + 3', 'k1 * abs(A - B)', 'k1 * A^k2', 'k * A', 'k * B + k1']
RULEF = ['A + B', 'k1 * A - Cc', 'k2', '2 * A', 'A * B / (1 + Cc)', '-k1 * B + k2', '-(k2 * A)', '-B + 2 * A - k1']      # incl. formulas that begin with a unary minus


def random_doc(rng):
    sp = [(s, rng.choice([None, '$' + s + 'a', 0.0]), rng.choice([None, '$' + s + 'c'])) for s in ('A', 'B', 'Cc', 'T')]
    params = [('k1', '$k1'), ('k2', '$k2')] + ([('k', '$kg')] if rng.random() < 0.5 else [])
    rxs = []
    for i in range(rng.randint(0, 3)):
        law = rng.choice(OPS)
        loc = []
        if law.startswith('k *'):
            if ('k', '$kg') not in params or rng.random() < 0.7:
                loc = [('k', '$kl%d' % i)]
        names = ['A', 'B', 'Cc']
        rxs.append(dict(id='r%d' % i, reactants=[(s, rng.randint(1, 3)) for s in rng.sample(names, rng.randint(0, 2))],
                        products=[(s, rng.randint(1, 3)) for s in rng.sample(names, rng.randint(0, 2))], law=law, locals=loc))
    rules = []
    targets = ['T', 'Cc', 'k2', 'A']
    rng.shuffle(targets)
    for tg in targets[:rng.randint(0, 4)]:
        kind = rng.choice(['assignment', 'rate']) if tg != 'k2' else 'assignment'
        f = rng.choice([x for x in RULEF if tg not in x.split()] or ['1'])
        rules.append((kind, tg, f))
    return dict(species=sp, params=params, reactions=rxs, rules=rules)


def main():
    rng = random.Random(SPEC.get('seed', 0))
    n = 0
    if SPEC.get('doc'):
        for i in range(5):
            n += 1
            bad = check(concretise(SPEC['doc'], rng, SPEC.get('values') if i == 0 else None), rng)
            if bad:
                return bad
        return dict(reproduced=False, checked=n, mode='given document shape')
    for it in range(SPEC.get('rounds', 200)):
        n += 1
        bad = check(concretise(random_doc(rng), rng), rng)
        if bad:
            return bad
    return dict(reproduced=False, checked=n, mode='random documents')


if __name__ == '__main__':
    print(json.dumps(main(), default=str))
