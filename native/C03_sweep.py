"""Native runtime contract for C03: stoichiometric matrices = products - reactants (immediate and delayed parts) for random
reaction lists and declaration orders; derivative = (U + D) x rate; unset parameter -> initialisation fails."""
import json, random, sys, warnings
import numpy as np
warnings.simplefilter('ignore')
from bioscrape.types import Model
from bioscrape.simulator import ModelCSimInterface, SafeModelCSimInterface

SPEC = json.loads(sys.argv[1]) if len(sys.argv) > 1 else {}


def main():
    rng = random.Random(SPEC.get('seed', 0))
    n = 0
    for it in range(SPEC.get('rounds', 250)):
        names = ['A', 'B', 'C', 'D'][:rng.randint(1, 4)]
        order = names[:]
        rng.shuffle(order)
        declared = order[:rng.randint(0, len(order))]
        rxs, spec = [], []
        for r in range(rng.randint(1, 4)):
            re_ = [rng.choice(names) for _ in range(rng.randint(0, 4))]
            pr = [rng.choice(names) for _ in range(rng.randint(0, 4))]
            k = rng.uniform(0.2, 3)
            if rng.random() < 0.5:
                dre = [rng.choice(names) for _ in range(rng.randint(0, 2))]
                dpr = [rng.choice(names) for _ in range(rng.randint(0, 3))]
                rxs.append((re_, pr, 'massaction', {'k': k}, rng.choice(['fixed', 'gaussian', 'gamma']), dre, dpr,
                            {'delay': 1.0, 'mean': 1.0, 'std': 0.1, 'k': 2.0, 'theta': 0.5}))
            else:
                dre, dpr = [], []
                rxs.append((re_, pr, 'massaction', {'k': k}))
            spec.append((re_, pr, dre, dpr, k))
        # the delay dict is filtered to the keys the delay type uses
        fixed = []
        for r in rxs:
            if len(r) == 8:
                keys = {'fixed': ['delay'], 'gaussian': ['mean', 'std'], 'gamma': ['k', 'theta']}[r[4]]
                r = r[:7] + ({k: r[7][k] for k in keys},)
            fixed.append(r)
        x0 = {s: rng.uniform(0.5, 5) for s in names}
        M = Model(species=declared, reactions=fixed, initial_condition_dict=x0)
        idx = M.get_species2index()
        U, D = M.py_get_update_array(), M.py_get_delay_update_array()
        n += 1
        for r, (re_, pr, dre, dpr, k) in enumerate(spec):
            for s in names:
                if s not in idx:
                    if s in re_ + pr + dre + dpr:
                        return dict(reproduced=True, call='Model(species=%r, reactions=%r)' % (declared, fixed), observed='species %s missing' % s, expected='present')
                    continue
                u, d = pr.count(s) - re_.count(s), dpr.count(s) - dre.count(s)
                if U[idx[s], r] != u or D[idx[s], r] != d:
                    return dict(reproduced=True, call='Model(species=%r, reactions=%r): matrices entry (%s, reaction %d)' % (declared, fixed, s, r),
                                observed=[float(U[idx[s], r]), float(D[idx[s], r])], expected=[u, d])
        for cls in (ModelCSimInterface, SafeModelCSimInterface):
            itf = cls(M)
            itf.py_prep_deterministic_simulation()
            x = np.zeros(len(idx))
            for s, i in idx.items():
                x[i] = x0.get(s, 0.0)
            dx = np.zeros(len(idx))
            itf.py_calculate_deterministic_derivative(x.copy(), dx, 0.0)
            want = np.zeros(len(idx))
            for r, (re_, pr, dre, dpr, k) in enumerate(spec):
                rate = k
                for s in re_:
                    rate *= x[idx[s]]
                for s in set(re_ + pr + dre + dpr):
                    want[idx[s]] += (pr.count(s) - re_.count(s) + dpr.count(s) - dre.count(s)) * rate
            if not np.allclose(dx, want, rtol=1e-9, atol=1e-9):
                return dict(reproduced=True, call='%s derivative of Model(species=%r, reactions=%r) at %r' % (cls.__name__, declared, fixed, x0),
                            observed=dx.tolist(), expected=want.tolist())
    # rates of either sign: a reversible reaction written as one net-rate general propensity, probed on both sides of its equilibrium
    # (plain interface; the safe interface drops consumption at empty species by design)
    for it in range(SPEC.get('signed_rounds', 30)):
        kf, kr, kd = rng.uniform(0.2, 3), rng.uniform(0.2, 3), rng.uniform(0.1, 2)
        order = rng.choice([['A', 'B'], ['B', 'A']])
        M = Model(species=order, reactions=[(['A'], ['B'], 'general', {'rate': 'kf*A - kr*B'}), (['B'], [], 'massaction', {'k': kd})],
                  parameters=[('kf', kf), ('kr', kr)], initial_condition_dict={'A': 1, 'B': 1})
        idx = M.get_species2index()
        itf = ModelCSimInterface(M)
        itf.py_prep_deterministic_simulation()
        for a, b in ((rng.uniform(0, 5), rng.uniform(0, 5)), (0.0, rng.uniform(1, 5)), (rng.uniform(1, 5), 0.0)):
            x = np.zeros(2); x[idx['A']] = a; x[idx['B']] = b
            dx = np.zeros(2)
            itf.py_calculate_deterministic_derivative(x.copy(), dx, 0.0)
            net = kf * a - kr * b
            want = np.zeros(2); want[idx['A']] = -net; want[idx['B']] = net - kd * b
            n += 1
            if not np.allclose(dx, want, rtol=1e-9, atol=1e-9):
                return dict(reproduced=True, call='derivative of A -> B with the net rate kf*A - kr*B (kf=%r, kr=%r), B -> 0 at rate %r*B, at A=%r, B=%r' % (kf, kr, kd, a, b),
                            observed=dx.tolist(), expected=want.tolist())
    try:
        Model(species=['A', 'B'], reactions=[(['A'], ['B'], 'massaction', {'k': 'kf'})], initial_condition_dict={'A': 1})
        return dict(reproduced=True, call='Model with parameter kf without a value', observed='initialised', expected='ValueError')
    except ValueError:
        pass
    return dict(reproduced=False, evaluations=n)


print(json.dumps(main()))
