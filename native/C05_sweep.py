"""Native runtime contract for C05: the SSA simulator is replayed step by step against an independent implementation of the
step relation R_ssa that consumes the SAME random stream (read back through py_uniform_rv under the same seed): waiting
time -ln(U)/Lambda, selection by cumulative sums, rows recorded before the firing, net stoichiometry U + D."""
import json, math, random, sys, warnings
import numpy as np
warnings.simplefilter('ignore')
from bioscrape.types import Model
from bioscrape.simulator import ModelCSimInterface, SafeModelCSimInterface, SSASimulator
from bioscrape.random import py_seed_random, py_uniform_rv

SPEC = json.loads(sys.argv[1]) if len(sys.argv) > 1 else {}


def ff(x, m):
    r = 1.0
    for j in range(m):
        r *= max(x - j, 0.0)
    return r


def oracle(rxs, names, x0, T, stream):
    x = np.array([float(x0[s]) for s in names])
    idx = {s: i for i, s in enumerate(names)}
    N = np.zeros((len(names), len(rxs)))
    for r, (re_, pr, k) in enumerate(rxs):
        for s in re_:
            N[idx[s], r] -= 1
        for s in pr:
            N[idx[s], r] += 1
    out = np.zeros((len(T), len(names)))
    t, i, pos = 0.0, 0, 0
    while i < len(T):
        a = np.array([k * np.prod([ff(x[idx[s]], re_.count(s)) for s in set(re_)]) if re_ else k for (re_, pr, k) in rxs])
        L = 0.0
        for v in a:
            L += v
        fired = False
        if L == 0:
            t = T[i]
        else:
            if pos + 2 > len(stream):
                return None          # explosive model: the recorded stream is exhausted, the case is skipped
            u = stream[pos]; pos += 1
            prop = t + (-1.0 / L * math.log(u))
            if prop > T[i]:
                t = T[i]
            else:
                t = prop
                fired = True
        while i < len(T) and T[i] <= t:
            out[i] = x
            i += 1
        if fired:
            q = stream[pos] * L; pos += 1
            c, j = 0.0, 0
            while c < q and j < len(a):
                c += a[j]; j += 1
            x = x + N[:, j - 1]
    return out


def main():
    rng = random.Random(SPEC.get('seed', 0))
    n = 0
    for it in range(SPEC.get('rounds', 120)):
        names = ['A', 'B', 'C'][:rng.randint(1, 3)]
        rxs = []
        for r in range(rng.randint(1, 4)):
            re_ = sorted(rng.choice(names) for _ in range(rng.randint(0, 3)))
            pr = [rng.choice(names) for _ in range(rng.randint(0, 2))]
            rxs.append((re_, pr, rng.choice([0.1, 0.5, 1.0, 2.0])))
        x0 = {s: rng.randint(0, 6) for s in names}
        T = np.linspace(0, rng.choice([1.0, 3.0]), rng.choice([4, 11]))
        if rng.random() < 0.3:
            T = np.sort(np.concatenate([[0.0], np.array([rng.uniform(0, 3) for _ in range(5)])]))
        M = Model(species=names, reactions=[(re_, pr, 'massaction', {'k': k}) for (re_, pr, k) in rxs], initial_condition_dict=x0)
        order = M.get_species_list() if hasattr(M, 'get_species_list') else names
        s2i = M.get_species2index()
        order = sorted(s2i, key=lambda s: s2i[s])
        seed = rng.randint(1, 10 ** 6)
        py_seed_random(seed)
        stream = [py_uniform_rv() for _ in range(4000)]
        for cls in (ModelCSimInterface, SafeModelCSimInterface):
            py_seed_random(seed)
            itf = cls(M)
            res = SSASimulator().py_simulate(itf, T).py_get_result()
            want = oracle(rxs, order, x0, T, stream)
            n += 1
            if want is None or res.max() > 1e6:
                continue
            if not np.array_equal(res, want):
                bad = int(np.argmax((res != want).any(axis=1)))
                return dict(reproduced=True, call='SSASimulator.py_simulate(%s) seed=%d reactions=%r x0=%r T=%r' % (cls.__name__, seed, rxs, x0, T.tolist()),
                            observed=res[bad].tolist(), expected=want[bad].tolist(), row=bad)
    # selection among weights of very different magnitude (a fast reaction listed before many slow ones): a choice must carry positive
    # weight and the slow reactions must be chosen in proportion (the cumulative sum has to be kept in double precision)
    from bioscrape.random import py_sample_discrete, py_seed_random as _seed
    w = np.array([float(2 ** 24)] + [0.8] * 2000 + [0.0])
    _seed(11)
    tail = []
    for _ in range(400000):
        i = py_sample_discrete(len(w), w, float(w.sum()))
        if i > 0:
            tail.append(i)
        if len(tail) >= 30:
            break
    n += 1
    if any(w[i] == 0 for i in tail) or (len(tail) >= 10 and len(set(tail)) < len(tail) // 2):
        return dict(reproduced=True, call='py_sample_discrete(weights [2^24, 0.8 x 2000, 0.0])', observed=tail[:12], expected='indices of positive weight, spread over the slow reactions')
    # the waiting time is exponential with rate Lambda for EVERY positive Lambda: slow kinetics on a long horizon (rates scaled by c, times by 1/c;
    # the master equation is invariant) still decays; with 12 molecules, unit rate and horizon 40/c the probability of any survivor is < 1e-16
    for c in (1.0, 1e-6, 1e-13, 1e-20):
        M = Model(species=['X'], reactions=[(['X'], [], 'massaction', {'k': 1.0 * c})], initial_condition_dict={'X': 12})
        _seed(rng.randint(1, 10 ** 6))
        T = np.linspace(0, 40.0 / c, 9)
        for cls in (ModelCSimInterface, SafeModelCSimInterface):
            res = SSASimulator().py_simulate(cls(M), T).py_get_result()
            n += 1
            if res[-1, 0] != 0:
                return dict(reproduced=True, call='SSASimulator.py_simulate(%s), X -> 0 at rate %g from X=12 over np.linspace(0, %g, 9)' % (cls.__name__, c, 40.0 / c),
                            observed=res[:, 0].tolist(), expected='extinct by the last row (waiting times are exponential with rate Lambda > 0, however small)')
    return dict(reproduced=False, evaluations=n)


print(json.dumps(main()))
