"""Native runtime contract for C18: reported Jacobian / parameter sensitivities against the difference stencils evaluated on an
independently written F (closed-form rate equations), for random interior states (also closer to the boundary than the stencil
reach for mass-action models); parameter values restored."""
import json, random, sys, warnings
import numpy as np
warnings.simplefilter('ignore')
from bioscrape.types import Model
from bioscrape.analysis import py_get_jacobian, py_get_sensitivity_to_parameter

SPEC = json.loads(sys.argv[1]) if len(sys.argv) > 1 else {}
ST = {'fourth_order_central_difference': ([(2, -1), (1, 8), (-1, -8), (-2, 1)], 12), 'central_difference': ([(1, 1), (-1, -1)], 2),
      'forward_difference': ([(1, 1), (0, -1)], 1), 'backward_difference': ([(0, 1), (-1, -1)], 1)}
H = 0.01


def F(x, p, hill):
    A, B, C = x
    r = [p['k1'] * A * B, p['k2'] * C]
    if hill:
        h = (C / p['K']) ** p['n']
        r.append(p['k3'] * h / (1 + h))
        N = np.array([[-1, 1, 1], [-1, 1, 0], [1, -1, 0]])
    else:
        r.append(p['k3'] * A * A)
        N = np.array([[-1, 1, -2], [-1, 1, 1], [1, -1, 0]])
    return N @ np.array(r)


def main():
    rng = random.Random(SPEC.get('seed', 0))
    n = 0
    for it in range(SPEC.get('rounds', 40)):
        hill = rng.random() < 0.5
        p = {k: rng.uniform(0.1, 3) for k in ('k1', 'k2', 'k3', 'K', 'n')}
        rx = [(['A', 'B'], ['Cc'], 'massaction', {'k': 'k1'}), (['Cc'], ['A', 'B'], 'massaction', {'k': 'k2'})]
        rx.append(([], ['A'], 'hillpositive', {'k': 'k3', 'K': 'K', 'n': 'n', 's1': 'Cc'}) if hill else (['A', 'A'], ['B'], 'massaction', {'k': 'k3'}))
        M = Model(species=['A', 'B', 'Cc'], reactions=rx, parameters=list(p.items()), initial_condition_dict={'A': 1, 'B': 1, 'Cc': 1})
        lo = 0.05 if hill else 0.001
        x = np.array([rng.choice([rng.uniform(lo, 0.03 if not hill else 0.2), rng.uniform(0.5, 5)]) for _ in range(3)])
        for method, (pts, den) in ST.items():
            J = py_get_jacobian(M, x, method=method)
            n += 1
            for i in range(3):
                for j in range(3):
                    acc = 0.0
                    for k, w in pts:
                        y = x.copy(); y[j] += k * H
                        acc += w * F(y, p, hill)[i]
                    want = round(acc / (den * H), 10)
                    if abs(J[i, j] - want) > 1e-6 * max(1, abs(want)):
                        return dict(reproduced=True, call='py_get_jacobian(%s model, x=%r, method=%r) entry (%d,%d) params=%r' % ('hill' if hill else 'mass-action', x.tolist(), method, i, j, p),
                                    observed=float(J[i, j]), expected=want)
            for pn in (['k1', 'k2', 'k3', 'K', 'n'] if hill else ['k1', 'k2', 'k3']):
                before = dict(M.get_parameter_dictionary())
                Z = py_get_sensitivity_to_parameter(M, x, pn, method=method)
                after = dict(M.get_parameter_dictionary())
                if any(abs(before[k] - after[k]) > 0 for k in before):
                    return dict(reproduced=True, call='py_get_sensitivity_to_parameter(%r, %r)' % (pn, method), observed=after, expected=before)
                for i in range(3):
                    acc = 0.0
                    for k, w in pts:
                        q = dict(p); q[pn] += k * H
                        acc += w * F(x, q, hill)[i]
                    want = round(acc / (den * H), 10)
                    if abs(Z[i] - want) > 1e-6 * max(1, abs(want)):
                        return dict(reproduced=True, call='sensitivity to %s (%s) at x=%r p=%r component %d' % (pn, method, x.tolist(), p, i), observed=float(Z[i]), expected=want)
    return dict(reproduced=False, evaluations=n)


print(json.dumps(main()))
