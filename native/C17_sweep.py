"""Native bounded stand-in for C17 (watches the assumed pickle/deepcopy protocol): pickled / deep-copied models (plain and lineage)
have equal definitions, seeded output and editing independence; results and cell states survive pickling."""
import copy, json, pickle, random, sys, warnings
import numpy as np
warnings.simplefilter('ignore')
from bioscrape.types import Model
from bioscrape.simulator import py_simulate_model
from bioscrape.random import py_seed_random

SPEC = json.loads(sys.argv[1]) if len(sys.argv) > 1 else {}


def make(rng):
    rx = [(['A', 'B'], ['C'], 'massaction', {'k': 'k1'}),
          (['C'], ['A'], 'massaction', {'k': rng.uniform(0.2, 1)}, rng.choice(['fixed', 'gaussian', 'gamma']), [], ['B'],
           {'delay': 0.5, 'mean': 1.0, 'std': 0.1, 'k': 2.0, 'theta': 0.3}),
          ([], ['A'], rng.choice(['hillpositive', 'hillnegative']), {'k': 1.0, 'K': 2.0, 'n': 2, 's1': 'C'}),
          (['A'], [], 'general', {'rate': 'k1*A/(1+B^2) + A*Max(B, 0.1)*0.01'})]      # vanishes at A = 0 (a rate that is positive without its reactant drives counts negative)
    r = list(rx[1]); keys = {'fixed': ['delay'], 'gaussian': ['mean', 'std'], 'gamma': ['k', 'theta']}[r[4]]
    r[7] = {k: r[7][k] for k in keys}; rx[1] = tuple(r)
    return Model(species=['A', 'B', 'C', 'D'], reactions=rx, parameters=[('k1', rng.uniform(0.5, 2))],
                 rules=[('additive', {'equation': 'D = A + B'}), ('assignment', {'equation': 'B = 5 + 0*C'}, 'start')],
                 initial_condition_dict={'A': 8, 'B': 5, 'C': 1, 'D': 0}, initialize_model=rng.random() < 0.7)


def definition(M):
    return (dict(M.get_species2index()), dict(M.get_parameter_dictionary()), dict(M.get_species_dictionary()),
            M.py_get_update_array().tolist(), M.py_get_delay_update_array().tolist())


def main():
    rng = random.Random(SPEC.get('seed', 0))
    T = np.linspace(0, 3, 13)
    n = 0
    for it in range(SPEC.get('rounds', 20)):
        M = make(rng)
        if rng.random() < 0.5:
            py_seed_random(3); py_simulate_model(T, Model=M, stochastic=True)
        explicit = it % 2 == 0
        if not explicit:      # edited after its last initialisation and copied in that state; nobody calls py_initialize() by hand
            M.create_reaction(['B'], ['A', 'A'], 'massaction', {'k': 'k1'})
        copies = [pickle.loads(pickle.dumps(M)), copy.deepcopy(M), pickle.loads(pickle.dumps(copy.deepcopy(M)))]
        if explicit:
            M.py_initialize()
        else:
            py_simulate_model(T, Model=M, stochastic=False)
        ref_def = definition(M)
        outs = {}
        for mode in (dict(stochastic=True), dict(stochastic=True, delay=True), dict(stochastic=False)):
            py_seed_random(77)
            outs[str(mode)] = py_simulate_model(T, Model=M, return_dataframe=False, **mode).py_get_result()
        for k, Cp in enumerate(copies):
            if explicit:
                Cp.py_initialize()
            else:
                py_simulate_model(T, Model=Cp, stochastic=False)
            n += 1
            if definition(Cp) != ref_def:
                return dict(reproduced=True, call='copy route %d: definition' % k, observed=str(definition(Cp))[:300], expected=str(ref_def)[:300])
            for mode in (dict(stochastic=True), dict(stochastic=True, delay=True), dict(stochastic=False)):
                py_seed_random(77)
                got = py_simulate_model(T, Model=Cp, return_dataframe=False, **mode).py_get_result()
                if not np.allclose(got, outs[str(mode)], rtol=1e-9, atol=1e-9):
                    return dict(reproduced=True, call='copy route %d: seeded output %r' % (k, mode), observed=got[-1].tolist(), expected=outs[str(mode)][-1].tolist())
            # independence: edit the copy, the original is unaffected (and vice versa)
            Cp.create_parameter('k_new', 0.25)
            Cp.create_reaction(['A'], [], 'massaction', {'k': 'k_new'})
            Cp.set_parameter('k1', 9.0)
            Cp.py_initialize()
            if definition(M) != ref_def:
                return dict(reproduced=True, call='editing copy route %d changed the original' % k, observed=str(definition(M))[:300], expected=str(ref_def)[:300])
            pd = dict(Cp.get_parameter_dictionary())
            if abs(pd['k_new'] - 0.25) > 0 or abs(pd['k1'] - 9.0) > 0 or any(abs(pd[q] - v) > 0 for q, v in ref_def[1].items() if q != 'k1'):
                return dict(reproduced=True, call='editing copy route %d (new parameter)' % k, observed=pd, expected='k_new=0.25, k1=9, others unchanged')
        res = py_simulate_model(T, Model=M, stochastic=True, volume=1.5, return_dataframe=False)
        r2 = pickle.loads(pickle.dumps(res))
        if not (np.array_equal(r2.py_get_result(), res.py_get_result()) and np.array_equal(r2.py_get_timepoints(), res.py_get_timepoints())):
            return dict(reproduced=True, call='pickle of a result object', observed='differs', expected='equal data')
    # lineage models copied while NOT initialised (never initialised / edited after the last simulation): the copy has the same rules and events
    from bioscrape.lineage import LineageModel, LineageVolumeSplitter, py_SimulateSingleCell

    def lin_model(init):
        L = LineageModel(species=['A'], reactions=[([], ['A'], 'massaction', {'k': 2.0})], initial_condition_dict={'A': 0}, initialize_model=init)
        L.create_volume_rule('linear', {'growth_rate': 0.5})
        L.create_death_rule('species', {'specie': 'A', 'threshold': 1000, 'comp': '>'})
        L.create_division_rule('deltaV', {'threshold': 1.0}, LineageVolumeSplitter(L, options={}))
        return L

    def lin_run(L, seed):
        py_seed_random(seed)
        r = py_SimulateSingleCell(np.arange(0, 6, 0.25), Model=L, return_dataframes=False)
        return [len(r.py_get_timepoints()), r.py_get_divided(), np.array(r.py_get_volume()).round(9).tolist()]
    for how in ('never-initialised', 'edited-after-a-simulation'):
        L = lin_model(how != 'never-initialised')
        if how != 'never-initialised':
            lin_run(L, 3)
            L.create_parameter('extra', 1.0)          # an edit: the model is marked as not initialised again
        copies = [pickle.loads(pickle.dumps(L)), copy.deepcopy(L), pickle.loads(pickle.dumps(pickle.loads(pickle.dumps(L))))]
        want = lin_run(L, 17)
        for k, cp in enumerate(copies):
            n += 1
            got = lin_run(cp, 17)
            if got != want:
                return dict(reproduced=True, call='copy route %d of a lineage model (%s) with a volume rule, a death rule and a division rule; single-cell run with the same seed' % (k, how),
                            what='[rows, division code, volume trace]', observed=got, expected=want)
    # a schnitz copied on its own (not inside a whole Lineage): the copy still knows its mother and its daughters
    from bioscrape.types import Schnitz
    mk = lambda k: Schnitz(np.arange(3.0) + k, np.ones((3, 2)) * k, np.ones(3) + k)
    mo, d1, d2 = mk(0), mk(1), mk(2)
    mo.py_set_daughters(d1, d2)
    d1.py_set_parent(mo); d2.py_set_parent(mo)
    for k, cp in enumerate((pickle.loads(pickle.dumps(d1)), copy.deepcopy(d1), pickle.loads(pickle.dumps([d1, d2]))[0])):
        n += 1
        par = cp.py_get_parent()
        if par is None or not np.array_equal(par.py_get_time(), mo.py_get_time()):
            return dict(reproduced=True, call='copy route %d of a daughter schnitz (alone / in a list of leaves)' % k, observed='parent of the copy: %r' % (par,), expected='a copy of the mother schnitz')
    # lineage cell states with every field away from its default (a cell that divided / died by some rule code): pickle, double pickle, deep copy
    from bioscrape.lineage import LineageVolumeCellState
    for it in range(SPEC.get('cell_rounds', 12)):
        kw = dict(v0=rng.uniform(0.5, 2), t0=rng.uniform(0, 3), state=[float(rng.randint(0, 9)) for _ in range(3)], volume=rng.uniform(2, 4), time=rng.uniform(3, 9),
                  divided=rng.randint(-1, 3), dead=rng.randint(-1, 3))
        cs = LineageVolumeCellState(**kw)
        ref = cs.__getstate__()
        for k, cp in enumerate((pickle.loads(pickle.dumps(cs)), pickle.loads(pickle.dumps(pickle.loads(pickle.dumps(cs)))), copy.deepcopy(cs))):
            n += 1
            got = cp.__getstate__()
            if not all(np.array_equal(a, b) for a, b in zip(got, ref)):
                return dict(reproduced=True, call='copy route %d of LineageVolumeCellState(%r)' % (k, kw), observed=str(got), expected=str(ref),
                            what='(initial volume, initial time, state, volume, time, divided, dead)')
    return dict(reproduced=False, evaluations=n)


print(json.dumps(main()))
