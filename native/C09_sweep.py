"""Native runtime contract for C09: repeated assignment rules hold on every reported row; an ODE rule advances its target by
rate x (grid step) per elapsed step and a dt rule is applied once per elapsed step, in the stochastic, safe, delay, volume and
lineage single-cell simulators, with and without reactions (counted between consecutive reported rows from the second row on).

SPEC: seed, rounds, part ('plain' | 'lineage' | None = both)."""
import json, random, sys, warnings
import numpy as np
warnings.simplefilter('ignore')
from bioscrape.types import Model
from bioscrape.simulator import py_simulate_model
from bioscrape.random import py_seed_random
from bioscrape.lineage import LineageModel, py_SimulateSingleCell

SPEC = json.loads(sys.argv[1]) if len(sys.argv) > 1 else {}


def build(cls, rng, reactions):
    rate = rng.choice([0.5, 1.0, 2.0])
    rx = []
    if reactions:
        rx = [([], ['A'], 'massaction', {'k': rng.uniform(1, 8)}), (['A'], ['B'], 'massaction', {'k': rng.uniform(0.2, 2)})]
    M = cls(species=['A', 'B', 'X', 'S', 'Q'], reactions=rx, parameters=[('r', rate), ('pp', 0.0)], initial_condition_dict={'A': 3, 'B': 0, 'X': 0, 'S': 0, 'Q': 0})
    M.create_rule('ode', {'equation': 'r', 'target': 'X'})                 # dX/dt = r by Euler steps of the grid spacing
    M.create_rule('ode', {'equation': 'r', 'target': 'pp'})                # the same for a PARAMETER target ...
    M.create_rule('assignment', {'equation': 'Q = pp'}, 'repeated')        # ... made visible through a repeated rule
    M.create_rule('assignment', {'equation': 'S = A + 2*B'}, 'repeated')   # holds on every row
    return M, rate


def check_rows(call, tt, data, idx, rate, dt):
    for m in range(len(tt)):
        if abs(data[m][idx['S']] - (data[m][idx['A']] + 2 * data[m][idx['B']])) > 1e-9:
            return dict(reproduced=True, call=call, what='repeated rule S = A + 2B in row %d' % m, observed=data[m].tolist(), expected='S == A + 2B')
    for m in range(2, len(tt)):
        for tgt in ('X', 'Q'):
            adv = data[m][idx[tgt]] - data[m - 1][idx[tgt]]
            if abs(adv - rate * dt) > 1e-9:
                return dict(reproduced=True, call=call, what='ODE rule advance of %s between rows %d and %d (grid step %r)' % ('X' if tgt == 'X' else 'the parameter pp (seen through Q = pp)', m - 1, m, dt),
                            observed=float(adv), expected=rate * dt)
    return None


def plain(rng):
    for it in range(SPEC.get('rounds', 12)):
        for reactions in (False, True):
            M, rate = build(Model, rng, reactions)
            dt = rng.choice([0.125, 0.25, 0.5])       # binary-exact steps: the accumulated delta clock and the grid coincide exactly (floating-point drift is outside this family)
            T = np.arange(0, 12 * dt, dt)
            idx = M.get_species2index()
            for mode in (dict(stochastic=True), dict(stochastic=True, safe=True), dict(stochastic=True, delay=True), dict(stochastic=True, volume=1.0), dict(stochastic=True, delay=True, volume=1.0)):
                py_seed_random(rng.randint(1, 10 ** 6))
                res = py_simulate_model(T, Model=M, return_dataframe=False, **mode)
                bad = check_rows('py_simulate_model(np.arange(0, %r, %r), model %s reactions, %r)' % (12 * dt, dt, 'with' if reactions else 'without', mode),
                                 T, np.array(res.py_get_result()), idx, rate, dt)
                if bad:
                    return bad
    # a rule scheduled for a time ON the grid (an exact element of it, decimal step): earlier rows untouched, later rows governed
    for it in range(6):
        T = np.arange(0, 2.0, 0.1)
        k = rng.randint(2, len(T) - 3)
        M = Model(species=['A', 'Q'], reactions=[([], ['A'], 'massaction', {'k': rng.uniform(0.5, 4)})], initial_condition_dict={'A': 0, 'Q': 0})
        M.create_rule('assignment', {'equation': 'Q = 7'}, repr(float(T[k])))
        idx = M.get_species2index()
        for mode in (dict(stochastic=True), dict(stochastic=True, safe=True), dict(stochastic=True, delay=True)):
            py_seed_random(rng.randint(1, 10 ** 6))
            Q = np.array(py_simulate_model(T, Model=M, return_dataframe=False, **mode).py_get_result())[:, idx['Q']]
            if (Q[:k] != 0).any() or (Q[k + 1:] != 7).any():
                return dict(reproduced=True, call='py_simulate_model(np.arange(0, 2, 0.1), rule Q = 7 scheduled at the grid time %r, %r)' % (float(T[k]), mode),
                            what='rows before / after the scheduled time', observed=Q.tolist(), expected='0 before row %d, 7 after it' % k)
    # a rule scheduled at "start" and one at a binary-exact grid time, on ONE model simulated several times in every stochastic mode (an ensemble
    # over seeds): the schedule holds in every run, not only in the first
    for it in range(3):
        T = np.arange(0, 4, 0.25)
        k = rng.randint(2, len(T) - 3)
        M = Model(species=['A', 'Q', 'R'], reactions=[([], ['A'], 'massaction', {'k': rng.uniform(0.5, 4)})], initial_condition_dict={'A': 0, 'Q': 0, 'R': 0})
        M.create_rule('assignment', {'equation': 'Q = 7'}, repr(float(T[k])))
        M.create_rule('assignment', {'equation': 'R = 3'}, 'start')
        idx = M.get_species2index()
        for run in range(3):
            for mode in (dict(stochastic=True), dict(stochastic=True, delay=True), dict(stochastic=True, volume=1.0), dict(stochastic=True, delay=True, volume=1.0)):
                py_seed_random(rng.randint(1, 10 ** 6))
                data = np.array(py_simulate_model(T, Model=M, return_dataframe=False, **mode).py_get_result())
                Q, R = data[:, idx['Q']], data[:, idx['R']]
                if (Q[:k] != 0).any() or (Q[k + 1:] != 7).any() or (R != 3).any():
                    return dict(reproduced=True, call='run %d on one model: py_simulate_model(np.arange(0, 4, 0.25), rules Q = 7 at %r and R = 3 at start, %r)' % (run, float(T[k]), mode),
                                what='columns Q and R', observed=[Q.tolist(), R.tolist()], expected='Q: 0 before row %d, 7 after it; R: 3 on every row' % k)
    # rules given to the CONSTRUCTOR as a mixed list of (type, attributes, frequency) and (type, attributes): a rule without a frequency is a
    # repeated rule and holds on every row, whatever the frequency of the rule listed before it
    for it in range(6):
        first = rng.choice([('assignment', {'equation': 'Q = 2*A'}, 'dt'), ('assignment', {'equation': 'Q = 5'}, '0.5'), ('assignment', {'equation': 'Q = 1'}, 'start')])
        M = Model(species=['A', 'B', 'S', 'Q'], reactions=[([], ['A'], 'massaction', {'k': rng.uniform(4, 9)}), (['A'], ['B'], 'massaction', {'k': rng.uniform(0.5, 2)})],
                  rules=[first, ('assignment', {'equation': 'S = A + 2*B'})], initial_condition_dict={'A': 3, 'B': 0, 'S': 0, 'Q': 0})
        idx = M.get_species2index()
        T = np.arange(0, 3, 0.25)
        for mode in (dict(stochastic=True), dict(stochastic=True, safe=True), dict(stochastic=True, delay=True), dict(stochastic=True, volume=1.0), dict(stochastic=False)):
            py_seed_random(rng.randint(1, 10 ** 6))
            data = np.array(py_simulate_model(T, Model=M, return_dataframe=False, **mode).py_get_result())
            bad = [m for m in range(len(T)) if abs(data[m][idx['S']] - (data[m][idx['A']] + 2 * data[m][idx['B']])) > 1e-7]
            if bad:
                return dict(reproduced=True, call='Model(rules=[%r, (assignment, S = A + 2*B)]) simulated with %r' % (first, mode), what='rows on which the rule without a frequency does not hold',
                            observed=bad, expected='none (a rule without a frequency is a repeated rule)')
    # deterministic mode: the repeated assignment rule holds on every reported row
    for it in range(4):
        M, rate = build(Model, rng, True)
        T = np.arange(0, 3, 0.25)
        idx = M.get_species2index()
        data = np.array(py_simulate_model(T, Model=M, stochastic=False, return_dataframe=False).py_get_result())
        for m in range(len(T)):
            if abs(data[m][idx['S']] - (data[m][idx['A']] + 2 * data[m][idx['B']])) > 1e-7:
                return dict(reproduced=True, call='deterministic py_simulate_model with a repeated rule S = A + 2B', what='row %d' % m, observed=data[m].tolist(), expected='S == A + 2B')
    # non-uniform grid: the entry point leaves the delta clock at its default 0.01; an ODE rule must advance by rate x 0.01 per delta tick,
    # so X grows like rate x t however the time points fall between the ticks
    for it in range(4):
        M, rate = build(Model, rng, False)
        T = np.array([0.0, 0.105, 0.215, 0.335, 0.5, 0.62])
        idx = M.get_species2index()
        for mode in (dict(stochastic=True, volume=1.0), dict(stochastic=True, delay=True, volume=1.0)):
            X = np.array(py_simulate_model(T, Model=M, return_dataframe=False, **mode).py_get_result())[:, idx['X']]
            if abs((X[-1] - X[1]) - rate * (T[-1] - T[1])) > 0.0151 * rate:
                return dict(reproduced=True, call='py_simulate_model(%r, model without reactions, %r)' % (T.tolist(), mode), what='ODE rule dX/dt = %r on a non-uniform grid' % rate,
                            observed=X.tolist(), expected='X grows by %r per unit time' % rate)
    return None


def lineage(rng):
    for it in range(SPEC.get('rounds', 12)):
        for reactions in (False, True):
            M, rate = build(LineageModel, rng, reactions)
            dt = rng.choice([0.125, 0.25, 0.5])       # binary-exact steps: the accumulated delta clock and the grid coincide exactly (floating-point drift is outside this family)
            T = np.arange(0, 12 * dt, dt)
            idx = M.get_species2index()
            py_seed_random(rng.randint(1, 10 ** 6))
            res = py_SimulateSingleCell(T, Model=M, return_dataframes=False)
            bad = check_rows('py_SimulateSingleCell(np.arange(0, %r, %r), lineage model %s reactions)' % (12 * dt, dt, 'with' if reactions else 'without'),
                             np.array(res.py_get_timepoints()), np.array(res.py_get_result()), idx, rate, dt)
            if bad:
                return bad
    return None


def main():
    rng = random.Random(SPEC.get('seed', 0))
    part = SPEC.get('part')
    for name, fn in (('plain', plain), ('lineage', lineage)):
        if part in (None, name):
            bad = fn(rng)
            if bad:
                bad['part'] = name
                return bad
    return dict(reproduced=False, mode=part or 'all')


if __name__ == '__main__':
    print(json.dumps(main(), default=str))
