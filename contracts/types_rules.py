"""Contracts: bioscrape/types.pyx :: Rule classes and ModelCSimInterface.apply_repeated_(volume_)rules (C09; C04, C08).

fires(flag, t, rule_step)  <=>  flag == -1 (repeated)  or  flag == t (scheduled grid time)  or  (rule_step and flag == -2 (dt)).
ruleS/ruleP(rule, state, params, [volume,] time, dt): state / parameter vector after the rule's operation (abstract symbols
of the virtual rule_operation / rule_volume_operation; pinned per class below).
"""
from bsvc.contracts import fuc, field_hint
from bsvc import axioms, speclib, terms as tm
from bsvc.terms import REAL, INT
from bsvc.values import Arr, Obj, to_term

PROPS = ['C09', 'C04', 'C08', 'C02']      # C02: "rate and RULE expressions evaluate to their mathematical meaning" - the rule classes hand state, parameters, volume and time to the parsed expression
R0, I0, I1 = tm.mk_real(0), tm.mk_int(0), tm.mk_int(1)
AS = tm.ArraySort(INT, REAL)

FIRES = '(self.frequency_flag == -1 or self.frequency_flag == time or (rule_step != 0 and self.frequency_flag == -2))'


def op_syms(vol):
    return ('vruleS', 'vruleP', 'state, params, volume, time, dt') if vol else ('ruleS', 'ruleP', 'state, params, time, dt')


for vol, m in ((False, 'rule_operation'), (True, 'rule_volume_operation')):
    def abstract(vol=vol, m=m):
        S, P, args = op_syms(vol)

        @fuc('types', 'Rule.' + m, props=PROPS)
        def _(c):
            c.abstract = True
            c.verify_body = False
            oa = args.replace('state', 'old(arr(state))').replace('params', 'old(arr(params))')
            c.ensures('arr(state) == afun("%s", self, %s)' % (S, oa), label='state')
            c.ensures('arr(params) == afun("%s", self, %s)' % (P, oa), label='params')
            c.modifies('state[*]', 'params[*]')
            c.note('abstract contract of the virtual rule operation: a function of (rule, state, params, volume, time, dt)')
    abstract()

for vol, m, opm in ((False, 'execute_rule', 'rule_operation'), (True, 'execute_volume_rule', 'rule_volume_operation')):
    def execute(vol=vol, m=m):
        S, P, args = op_syms(vol)

        @fuc('types', 'Rule.' + m, props=PROPS)
        def _(c):
            c.opt(self_exact=False, also_exact=True)
            oa = args.replace('state', 'old(arr(state))').replace('params', 'old(arr(params))')
            c.ensures('implies(%s, arr(state) == afun("%s", self, %s) and arr(params) == afun("%s", self, %s))'
                      % (FIRES, S, oa, P, oa), label='fires-on-schedule')
            c.ensures('implies(not %s, arr(state) == old(arr(state)) and arr(params) == old(arr(params)))' % FIRES,
                      label='silent-off-schedule')
            eS, eP = ('vexecS', 'vexecP') if vol else ('execS', 'execP')
            ea = ('old(arr(state)), old(arr(params)), volume, time, dt, real(rule_step)' if vol else
                  'old(arr(state)), old(arr(params)), time, dt, real(rule_step)')
            c.defines('arr(state) == afun("%s", self, %s)' % (eS, ea))
            c.defines('arr(params) == afun("%s", self, %s)' % (eP, ea))
            c.modifies('state[*]', 'params[*]')
    execute()


# ---- frequency flag
def freq_contract(variant, value, expect=None, raises=None):
    @fuc('types', 'Rule.set_frequency_flag', props=PROPS, variant=variant)
    def _(c):
        c.hints['rule_frequency'] = dict(value=value)
        if raises:
            c.raises(raises)
            c.ensures('False', label='must-raise')
        else:
            c.ensures('self.frequency_flag == %s' % expect, label='flag')
        c.opt(verify_only=True)


freq_contract('start', 'start', '0.0')
freq_contract('repeat', 'repeat', '-1.0')
freq_contract('repeated', 'repeated', '-1.0')
freq_contract('dt', 'dt', '-2.0')
freq_contract('grid-time', lambda ex: _tau(ex, True), 'tau')
freq_contract('negative-number', lambda ex: _tau(ex, False), raises='ValueError')


def _tau(ex, nonneg):
    t = ex.fresh('tau', REAL)
    ex.frame.env['tau'] = t
    ex.assume(tm.ge(t, R0) if nonneg else tm.lt(t, R0))
    return t


# ---- additive rule:  x[dest] := sum of the sources
def _ssum_ax(t, ctx):
    st, idx, n = t.args[1:4]
    prev = tm.app('ssum', (st, idx, tm.sub(n, I1)), REAL)
    return [tm.implies(tm.le(n, I0), tm.eq(t, R0)),
            tm.implies(tm.gt(n, I0), tm.eq(t, tm.add(prev, tm.select(st, tm.select(idx, tm.sub(n, I1))))))]


axioms.register('ssum', _ssum_ax, 'ssum(x,idx,0)=0; ssum(x,idx,n)=ssum(x,idx,n-1)+x[idx[n-1]]')


@speclib.spec('ssum')
def ssum(ex, st, idx, n):
    return tm.app('ssum', (st.term if isinstance(st, Arr) else st, idx.term if isinstance(idx, Arr) else idx, to_term(n)), REAL)


@fuc('types', 'AdditiveAssignmentRule.rule_operation', props=PROPS)
def _(c):
    c.requires('self.dest_index < len(state)')
    c.requires('forall(lambda q: implies(0 <= q and q < len(self.species_source_indices), '
               '0 <= self.species_source_indices[q] and self.species_source_indices[q] < len(state)))')
    c.loop(0).invariant('answer == ssum(state, self.species_source_indices, i)')
    c.ensures('state[self.dest_index] == ssum(old(arr(state)), self.species_source_indices, len(self.species_source_indices))', label='sum-of-sources')
    c.ensures('forall(lambda q: implies(q != self.dest_index, state[q] == old(state[q])))', label='other-species-untouched')
    c.modifies('state[*]')


def general_rule(cls, vol, ode):
    m = 'rule_volume_operation' if vol else 'rule_operation'
    sym = 'tvval' if vol else 'tval'
    args = 'old(arr(state)), old(arr(params)), volume, time' if vol else 'old(arr(state)), old(arr(params)), time'
    rhs = 'ufun("%s", self.rhs, %s)' % (sym, args)

    @fuc('types', '%s.%s' % (cls, m), props=PROPS)
    def _(c):
        c.requires('implies(self.param_flag > 0, self.dest_index < len(params)) and implies(not self.param_flag > 0, self.dest_index < len(state))')
        if ode:
            newp, news = 'old(params[self.dest_index]) + %s * dt' % rhs, 'old(state[self.dest_index]) + %s * dt' % rhs
        else:
            newp, news = rhs, rhs
        c.ensures('implies(self.param_flag > 0, params[self.dest_index] == %s and arr(state) == old(arr(state)) and '
                  'forall(lambda q: implies(q != self.dest_index, params[q] == old(params[q]))))' % newp, label='parameter-target')
        c.ensures('implies(not self.param_flag > 0, state[self.dest_index] == %s and arr(params) == old(arr(params)) and '
                  'forall(lambda q: implies(q != self.dest_index, state[q] == old(state[q]))))' % news, label='species-target')
        c.modifies('state[*]', 'params[*]')


for vol in (False, True):
    general_rule('GeneralAssignmentRule', vol, False)
    general_rule('GeneralODERule', vol, True)


# ---- the interface applies the rules in declaration order with the interface's dt
def fold_axioms(vol):
    S, P = ('vrfoldS', 'vrfoldP') if vol else ('rfoldS', 'rfoldP')
    eS, eP = ('vexecS', 'vexecP') if vol else ('execS', 'execP')

    def mk(kind):
        name = S if kind == 'S' else P

        def ax(t, ctx):
            rules, n = t.args[1], t.args[2]
            rest = t.args[3:]          # s0, p0, [volume,] time, dt, rule_step
            s0, p0 = rest[0], rest[1]
            tail = rest[2:]
            prevS = tm.app(S, (rules, tm.sub(n, I1)) + tuple(rest), AS)
            prevP = tm.app(P, (rules, tm.sub(n, I1)) + tuple(rest), AS)
            step = tm.app(eS if kind == 'S' else eP, (tm.select(rules, tm.sub(n, I1)), prevS, prevP) + tuple(tail), AS)
            base = s0 if kind == 'S' else p0
            return [tm.implies(tm.le(n, I0), tm.eq(t, base)), tm.implies(tm.gt(n, I0), tm.eq(t, step))]
        axioms.register(name, ax, '%s(rules,0,..) = initial vector; %s(rules,n,..) = effect of rule n-1 on the result of the first n-1 rules' % (name, name))

        @speclib.spec(name)
        def f(ex, *args):
            ts = []
            for a in args:
                ts.append(a.term if isinstance(a, Arr) else a.ref if isinstance(a, Obj) else to_term(a))
            ts = [x if (x.sort != INT or i in (1,) or True) else x for i, x in enumerate(ts)]
            return tm.app(name, tuple(ts), AS)
    mk('S')
    mk('P')


fold_axioms(False)
fold_axioms(True)

for vol, m in ((False, 'apply_repeated_rules'), (True, 'apply_repeated_volume_rules')):
    def apply_(vol=vol, m=m):
        S, P = ('vrfoldS', 'vrfoldP') if vol else ('rfoldS', 'rfoldP')
        rest = 'old(arr(state)), old(arr(self.c_param_values)), %stime, self.dt, real(rule_step)' % ('volume, ' if vol else '')

        @fuc('simulator', 'ModelCSimInterface.' + m, props=PROPS)
        def _(c):
            c.opt(rule_exec_abstract=True)
            c.loop(0).invariant('arr(state) == %s(self.c_repeat_rules[0], rule_number, %s)' % (S, rest), label='state-fold') \
                     .invariant('arr(self.c_param_values) == %s(self.c_repeat_rules[0], rule_number, %s)' % (P, rest), label='param-fold') \
                     .also_modifies('self.c_param_values', 'state')
            c.ensures('arr(state) == %s(self.c_repeat_rules[0], len(self.c_repeat_rules[0]), %s)' % (S, rest), label='rules-in-declaration-order')
            c.ensures('arr(self.c_param_values) == %s(self.c_repeat_rules[0], len(self.c_repeat_rules[0]), %s)' % (P, rest), label='params-in-declaration-order')
            c.modifies('state[*]', 'self.c_param_values[*]')
    apply_()
