"""Contracts: bioscrape/types.pyx :: Propensity classes (C01; used by C03-C06, C11, C14, C18).

Oracle = closed forms of the property statement.  Modes: DET get_propensity, VOL get_volume_propensity,
STO get_stochastic_propensity, STOVOL get_stochastic_volume_propensity.  A method a class does not define is the
Propensity base body, re-verified with `self` of that concrete class (self_class variants).
"""
from bsvc.contracts import fuc, Contract
from bsvc import contracts as C

PROPS = ['C01', 'C03', 'C05', 'C06', 'C11', 'C18']
METHODS = {
    'DET': ('get_propensity', ''),
    'VOL': ('get_volume_propensity', 'volume'),
    'STO': ('get_stochastic_propensity', ''),
    'STOVOL': ('get_stochastic_volume_propensity', 'volume'),
}
K = 'params[self.rate_index]'
HILL_PRE = ['self.s1_index < len(state)', 'self.K_index < len(params)', 'self.n_index < len(params)',
            'self.rate_index < len(params)', 'params[self.K_index] > 0', 'state[self.s1_index] >= 0',
            'params[self.n_index] > 0']


def hill(conc):
    r = 'rpow(%s / params[self.K_index], params[self.n_index])' % conc
    return r


def spec_table():
    """class -> (preconditions, {mode: closed form})"""
    x1, x2 = 'state[self.s1_index]', 'state[self.s2_index]'
    t = {}
    t['ConstitutivePropensity'] = (['self.rate_index < len(params)'],
                                   dict(DET=K, STO=K, VOL=K + ' * volume', STOVOL=K + ' * volume'))
    xs = 'state[self.species_index]'
    t['UnimolecularPropensity'] = (['self.rate_index < len(params)', 'self.species_index < len(state)', xs + ' >= 0'],
                                   dict(DET='%s * %s' % (K, xs), STO='%s * ff(%s, 1)' % (K, xs),
                                        VOL='%s * %s' % (K, xs), STOVOL='%s * ff(%s, 1)' % (K, xs)))
    bi_sto = 'ite(self.s1_index == self.s2_index, %s * ff(%s, 2), %s * ff(%s, 1) * ff(%s, 1))' % (K, x1, K, x1, x2)
    t['BimolecularPropensity'] = (['self.rate_index < len(params)', 'self.s1_index < len(state)',
                                   'self.s2_index < len(state)', x1 + ' >= 0', x2 + ' >= 0'],
                                  dict(DET='%s * %s * %s' % (K, x1, x2), STO=bi_sto,
                                       VOL='%s * %s * %s / volume' % (K, x1, x2), STOVOL='(%s) / volume' % bi_sto))
    for cls, positive, prop in (('PositiveHillPropensity', True, False), ('PositiveProportionalHillPropensity', True, True),
                                ('NegativeHillPropensity', False, False), ('NegativeProportionalHillPropensity', False, True)):
        forms = {}
        for mode in METHODS:
            conc = x1 if mode in ('DET', 'STO') else '(%s / volume)' % x1
            h = hill(conc)
            f = ('%s * %s / (1 + %s)' % (K, h, h)) if positive else ('%s / (1 + %s)' % (K, h))
            if prop:
                f = 'state[self.d_index] * (%s)' % f
            forms[mode] = f
        pre = list(HILL_PRE) + (['self.d_index < len(state)'] if prop else [])
        t[cls] = (pre, forms)
    return t


TABLE = spec_table()


def _defined_in(cls, method):
    """is `method` defined in the class body itself (vs inherited from Propensity)?  decided from the source at run
    time by the engine (resolve_func walks the MRO), so here we only need unique keys"""
    return True


for cls, (pre, forms) in TABLE.items():
    for mode, (mname, extra) in METHODS.items():
        def mk(cls=cls, pre=pre, form=forms[mode], mname=mname, mode=mode):
            # the contract is attached to the base-class method name with a self_class variant: the engine resolves the
            # body through the MRO of `cls` (own override or the inherited Propensity body, whichever the source has)
            c = Contract('types', 'Propensity.' + mname, PROPS, variant=cls)
            c.self_class = cls
            for p in pre:
                c.requires(p)
            if mode in ('VOL', 'STOVOL'):
                c.requires('volume > 0')
            c.ensures('result == %s' % form, label='closed-form')
            c.modifies()
            C.REGISTRY[c.key] = c
            C.ORDER.append(c.key)
        mk()


# ---------------------------------------------------------------------------------------------- general mass action
WF_MA = ['self.k_index < len(params)', 'len(self.sp_inds) == len(self.sp_counts)',
         'forall(lambda q: implies(0 <= q and q < len(self.sp_inds), 0 <= self.sp_inds[q] and self.sp_inds[q] < len(state) '
         'and self.sp_counts[q] >= 1 and state[self.sp_inds[q]] >= 0))']
KM = 'params[self.k_index]'
N_ = 'len(self.sp_inds)'


@fuc('types', 'MassActionPropensity.get_propensity', props=PROPS)
def _(c):
    for p in WF_MA:
        c.requires(p)
    c.loop(0).invariant('ans == %s * prodpow(state, self.sp_inds, self.sp_counts, i)' % KM)
    # if the body uses an inner loop over the multiplicity (as the stochastic form does)
    c.loop(1).invariant('0 <= j and j <= self.sp_counts[i] and ans == %s * prodpow(state, self.sp_inds, self.sp_counts, i) * '
                        'ipow(state[self.sp_inds[i]], j)' % KM)
    c.ensures('result == %s * prodpow(state, self.sp_inds, self.sp_counts, %s)' % (KM, N_), label='closed-form')
    c.modifies()


@fuc('types', 'MassActionPropensity.get_stochastic_propensity', props=PROPS)
def _(c):
    for p in WF_MA:
        c.requires(p)
    c.loop(0).invariant('ans == %s * prodff(state, self.sp_inds, self.sp_counts, i)' % KM)
    c.loop(1).invariant('0 <= j and j <= self.sp_counts[i] and ans == %s * prodff(state, self.sp_inds, self.sp_counts, i) * '
                        'ff(state[self.sp_inds[i]], j)' % KM)
    c.ensures('result == %s * prodff(state, self.sp_inds, self.sp_counts, %s)' % (KM, N_), label='closed-form')
    c.modifies()


@fuc('types', 'MassActionPropensity.get_volume_propensity', props=PROPS)
def _(c):
    for p in WF_MA:
        c.requires(p)
    c.requires('volume > 0')
    c.ensures('result == %s * prodpow(state, self.sp_inds, self.sp_counts, %s) / rpow(volume, self.num_species - 1)' % (KM, N_),
              label='closed-form')
    c.modifies()


@fuc('types', 'MassActionPropensity.get_stochastic_volume_propensity', props=PROPS)
def _(c):
    for p in WF_MA:
        c.requires(p)
    c.requires('volume > 0')
    c.ensures('result == %s * prodff(state, self.sp_inds, self.sp_counts, %s) / rpow(volume, self.num_species - 1)' % (KM, N_),
              label='closed-form')
    c.modifies()
