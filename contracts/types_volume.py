"""Contracts: Volume classes (C11)."""
from bsvc.contracts import fuc
from bsvc.lemmas import lemma

PROPS = ['C11']
T_ = 'StochasticTimeThresholdVolume'


@fuc('types', T_ + '.get_volume_step', props=PROPS)
def _(c):
    c.ensures('result == (exp_(self.growth_rate * dt) - 1.0) * volume', label='exponential-growth-increment')
    c.modifies()


@fuc('types', T_ + '.cell_divided', props=PROPS)
def _(c):
    c.ensures('(result == 1) == (self.division_time > time - dt and self.division_time <= time)', label='divides-in-the-step-containing-the-division-time')
    c.ensures('result == 0 or result == 1', label='flag')
    c.modifies()


@fuc('types', T_ + '.__init__', props=PROPS)
def _(c):
    c.requires('cell_cycle_time > 0')
    c.ensures('self.growth_rate == 0.69314718056 / cell_cycle_time', label='growth-rate-is-ln2-over-cycle-time')
    c.ensures('self.division_time == -1.0 and self.average_division_volume == average_division_volume', label='fields')
    c.opt(verify_only=True)


@fuc('types', 'StateDependentVolume.get_volume_step', props=PROPS)
def _(c):
    c.ensures('result == (exp_(ufun("tval", self.growth_rate, state, params, time) * dt) - 1.0) * volume', label='exponential-euler-increment')
    c.modifies()


@fuc('types', 'StateDependentVolume.cell_divided', props=PROPS)
def _(c):
    c.ensures('(result == 1) == (volume > self.division_volume)', label='divides-above-the-division-volume')
    c.modifies()


# growth-law lemmas over R_vol: one delta-step multiplies the volume by exp(g*delta); positivity; monotonicity; composition
lemma('volume-step-law', PROPS, vars={'V': 'Real', 'g': 'Real', 'd': 'Real'}, hyps=['V > 0'],
      goal='V + (exp_(g * d) - 1.0) * V == V * exp_(g * d)', note='V_new = V + step = V e^(g delta)')
lemma('volume-positive', PROPS, vars={'V': 'Real', 'g': 'Real', 'd': 'Real'}, hyps=['V > 0'],
      goal='V * exp_(g * d) > 0', note='the reported volume stays positive')
lemma('volume-nondecreasing', PROPS, vars={'V': 'Real', 'g': 'Real', 'd': 'Real', 'z': 'Real'}, hyps=['V > 0 and g >= 0 and d >= 0', 'z == exp_(0.0)'],
      goal='V * exp_(g * d) >= V', note='growth rate >= 0: non-decreasing')
lemma('volume-two-steps', PROPS, vars={'V': 'Real', 'g': 'Real', 'd': 'Real', 'z': 'Real'},
      hyps=['V > 0', 'z == ln(exp_(g * d) * exp_(g * d))'],
      goal='(V * exp_(g * d)) * exp_(g * d) == V * exp_(g * d + g * d)',
      note='n delta-steps give V0 e^(g n delta): with exactly one step per delta (step relation clause delta-clock) the reported volume '
           'at a grid time lies between the law at T - delta and at T')
