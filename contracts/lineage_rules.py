"""Contracts: lineage/lineage.pyx :: growth events / rules, division rules, death rules (C19; pins the abstract symbols of
contracts/lineage_sim.py per class).  Noise terms are explicit draws from the random stream:
N(k) = sqrt(-2 ln U(k)) * cos(2 pi U(k+1)) (the Box-Muller value normal_rv is proved to return, contracts/random_.py)."""
from bsvc.contracts import fuc

PROPS = ['C19']
PI = '3.141592653589793238462643383279502884'
NOISE = '(sqrt_(-2 * ln(U(old(kappa())))) * ufun("cos", 2 * %s * U(old(kappa()) + 1)) * params[self.%%s] + 0)' % PI


def noisy(cls, method, field_checks, quiet, loud, noise_field, result='result'):
    @fuc('lineage', '%s.%s' % (cls, method), props=PROPS)
    def _(c):
        c.requires(' and '.join('len(params) > self.%s' % f for f in field_checks))
        c.assume('forall(lambda k: U(k) > 0)', 'uniform_rv() == 0 excluded')
        c.ensures('implies(not self.has_noise > 0, (%s) and kappa() == old(kappa()))' % quiet, label='without-noise')
        c.ensures('implies(self.has_noise > 0, (%s) and kappa() == old(kappa()) + 2)' % (loud % (NOISE % noise_field)), label='with-noise-one-normal-draw')
        c.modifies('kappa')


# ---- growth
@fuc('lineage', 'LinearVolumeEvent.get_volume', props=PROPS)
def _(c):
    c.requires('len(params) > self.growth_rate_ind')
    c.ensures('result == volume + params[self.growth_rate_ind]', label='adds-the-growth-amount')
    c.modifies()


@fuc('lineage', 'MultiplicativeVolumeEvent.get_volume', props=PROPS)
def _(c):
    c.requires('len(params) > self.growth_rate_ind')
    c.ensures('result == volume * (1 + params[self.growth_rate_ind])', label='multiplies-by-one-plus-rate')
    c.modifies()


noisy('LinearVolumeRule', 'get_volume', ['growth_rate_ind', 'noise_ind'],
      'result == volume + params[self.growth_rate_ind] * dt', 'result == volume + (params[self.growth_rate_ind] + %s) * dt', 'noise_ind')
noisy('MultiplicativeVolumeRule', 'get_volume', ['growth_rate_ind', 'noise_ind'],
      'result == volume + volume * params[self.growth_rate_ind] * dt', 'result == volume + volume * (params[self.growth_rate_ind] + %s) * dt', 'noise_ind')

# ---- division rules (1 = divide now)
noisy('TimeDivisionRule', 'check_divide', ['threshold_ind', 'threshold_noise_ind'],
      '(result == 1) == (time - initial_time >= params[self.threshold_ind] - 1E-9) and (result == 0 or result == 1)',
      '(result == 1) == (time - initial_time >= params[self.threshold_ind] + %s) and (result == 0 or result == 1)', 'threshold_noise_ind')
noisy('VolumeDivisionRule', 'check_divide', ['threshold_ind', 'threshold_noise_ind'],
      '(result == 1) == (volume >= params[self.threshold_ind] - 1E-9) and (result == 0 or result == 1)',
      '(result == 1) == (volume >= params[self.threshold_ind] + %s) and (result == 0 or result == 1)', 'threshold_noise_ind')
noisy('DeltaVDivisionRule', 'check_divide', ['threshold_ind', 'threshold_noise_ind'],
      '(result == 1) == (volume - initial_volume >= params[self.threshold_ind] - 1E-9) and (result == 0 or result == 1)',
      '(result == 1) == (volume - initial_volume >= params[self.threshold_ind] + %s) and (result == 0 or result == 1)', 'threshold_noise_ind')


# ---- death rules: compare a species / parameter with a (possibly noisy) threshold: comp 0 "equal (within 1e-9)", 1 "greater", -1 "less"
def death(cls, what):
    @fuc('lineage', cls + '.check_dead', props=PROPS)
    def _(c):
        c.requires('len(params) > self.threshold_ind and len(params) > self.threshold_noise_ind')
        c.requires('len(state) > self.species_ind' if cls == 'SpeciesDeathRule' else 'len(params) > self.param_ind')
        c.assume('forall(lambda k: U(k) > 0)', 'uniform_rv() == 0 excluded')
        TH = 'ite(self.has_noise > 0, params[self.threshold_ind] + %s, params[self.threshold_ind])' % (NOISE % 'threshold_noise_ind')
        c.ensures('self.threshold == %s' % TH, label='threshold-with-its-noise')
        c.ensures('(result == 1) == ((self.comp == 0 and %s > self.threshold - 1E-9 and %s < self.threshold + 1E-9) or (self.comp == 1 and %s > self.threshold - 1E-9) '
                  'or (self.comp == -1 and %s < self.threshold + 1E-9))' % (what, what, what, what), label='comparison-by-mode')
        c.ensures('result == 0 or result == 1', label='flag')
        c.ensures('kappa() == old(kappa()) + ite(self.has_noise > 0, 2, 0)', label='stream')
        c.modifies('kappa', 'self.threshold')


death('SpeciesDeathRule', 'state[self.species_ind]')
death('ParamDeathRule', 'params[self.param_ind]')
