"""Contracts: Model mutators and re-initialisation (C08): every edit of the definition either marks the model uninitialised or
touches only the value arrays IN PLACE (so interfaces that share them stay attached); re-initialisation rebuilds the derived
state from the definition whatever the old derived state was; an interface shares the model's arrays."""
from bsvc.contracts import Contract
from bsvc import contracts as C, speclib, terms as tm, arrays
from bsvc.terms import REAL, INT
from bsvc.values import Arr, Obj, to_term

BASE = dict(species=['A', 'B'], reactions=[(['A'], ['B'], 'massaction', {'k': 'k1'})], parameters=[('k1', 1.5)],
            rules=[('additive', {'equation': 'B = A + A'}, 'dt')], initial_condition_dict={'A': 4, 'B': 0})


def base_model(ex, cls):
    ex.force_inline = True
    try:
        M = ex.instantiate(cls, [], {k: (list(v) if isinstance(v, list) else dict(v)) for k, v in BASE.items()})
    finally:
        ex.force_inline = False
    M.name = 'self'
    return M


def mutator(method, variant, args, posts, props=('C08',)):
    c = Contract('types', 'Model.' + method, list(props), variant=variant)
    c.concrete_self = base_model
    f = None

    def setup(ex, fr):
        func = ex.program.func('types', 'Model.' + method)
        names = [p[0] for p in func.params[1:]]
        actual = args(ex) if callable(args) else list(args)
        for nm, v in zip(names, actual):
            fr.env[nm] = v
        for (nm, ct, default) in func.params[1 + len(actual):]:
            fr.env[nm] = ex.eval_default(default, func) if default is not None else None
    func_params = None
    for nm in ('species', 'param_name', 'param_value', 'reactants', 'products', 'propensity_type', 'propensity_param_dict', 'delay_type',
               'delay_reactants', 'delay_products', 'delay_param_dict', 'input_printout', 'rule_type', 'rule_attributes', 'rule_frequency',
               'specie', 'value', 'param_dict', 'species_dict'):
        c.hints[nm] = dict(value=None)
    c.setup(setup)
    for (label, e) in posts:
        c.ensures(e, label=label)
    c.opt(verify_only=True)
    C.REGISTRY[c.key] = c
    C.ORDER.append(c.key)


UNINIT = [('marks-the-model-uninitialised', 'self.initialized == False')]
mutator('_add_species', 'new', ['Q'], UNINIT + [('indexed-last', 'self.species2index["Q"] == 2 and len(self.species_values) == 3')])
mutator('_add_species', 'existing', ['A'], UNINIT + [('unchanged-index', 'self.species2index["A"] == 0 and len(self.species_values) == 2')])
mutator('_add_param', 'new', ['q'], UNINIT + [('indexed-last', 'self.params2index["q"] == 1')])
mutator('create_parameter', 'new', lambda ex: ['q', ex.fresh('qv', REAL)], UNINIT)
mutator('create_reaction', 'new', [['B'], ['A', 'A'], 'massaction', {'k': 2.0}], UNINIT + [('appended', 'len(self.reaction_list) == 2')])
mutator('create_rule', 'new', ['additive', {'equation': 'A = B + B'}], UNINIT + [('appended', 'len(self.repeat_rules) == 2')])


def _newval(ex):
    v = ex.fresh('newval', REAL)
    ex.frame.env['newval'] = v
    return v


INPLACE_P = [('value-written', 'self.params_values[self.params2index["k1"]] == newval'),
             ('same-array-object', 'same_array(self.params_values, old(self.params_values))'),
             ('still-initialised', 'self.initialized == True')]
mutator('set_parameter', 'existing', lambda ex: ['k1', _newval(ex)], INPLACE_P)
mutator('set_params', 'existing', lambda ex: [{'k1': _newval(ex)}], INPLACE_P)
INPLACE_S = [('value-written', 'self.species_values[self.species2index["A"]] == newval'),
             ('same-array-object', 'same_array(self.species_values, old(self.species_values))'),
             ('still-initialised', 'self.initialized == True')]
mutator('set_species', 'existing', lambda ex: [{'A': _newval(ex)}], INPLACE_S)
mutator('_set_species_value', 'existing', lambda ex: ['A', _newval(ex)], INPLACE_S)


# edit -> re-initialise == definition (matrices, vectors) whatever was there before
@speclib.spec('edit_and_reinitialise')
def edit_and_reinitialise(ex, model):
    was = ex.in_spec
    ex.in_spec = False
    ex.force_inline = True
    try:
        ex.call_method(model, ex.program.find_method(model.cls, 'create_reaction'), [['B'], ['A', 'A'], 'massaction', {'k': 2.0}], {})
        ex.call_method(model, ex.program.find_method(model.cls, '_initialize'), [], {})
        ex.call_method(model, ex.program.find_method(model.cls, '_initialize'), [], {})
    finally:
        ex.in_spec = was
        ex.force_inline = False
    return True


def history_contract():
    c = Contract('types', 'Model.py_initialize', ['C08'], variant='edit-then-reinitialise')
    c.concrete_self = base_model
    c.ensures('edit_and_reinitialise(self) and self.initialized == True', label='initialised-again')
    c.ensures('len(self.c_propensities) == 2 and len(self.c_delays) == 2 and len(self.propensities) == 2 and len(self.c_repeat_rules) == 1',
              label='vectors-rebuilt-from-the-definition-once')
    c.ensures('self.update_array.shape[1] == 2 and self.update_array[self.species2index["A"], 1] == 2 and '
              'self.update_array[self.species2index["B"], 1] == -1 and self.update_array[self.species2index["A"], 0] == -1', label='matrix-of-the-current-definition')
    c.opt(verify_only=True)
    C.REGISTRY[c.key] = c
    C.ORDER.append(c.key)


history_contract()


def interface_contract(cls):
    c = Contract('simulator', 'ModelCSimInterface.__init__', ['C08'], variant=cls)
    c.self_class = cls
    c.concrete_self = lambda ex, k: ex.allocate(k)

    def setup(ex, fr):
        ex.force_inline = True
        try:
            M = ex.instantiate(ex.program.find_class('Model'), [], {k: (list(v) if isinstance(v, list) else dict(v)) for k, v in BASE.items()})
        finally:
            ex.force_inline = False
        fr.env['external_model'] = M
    c.hints['external_model'] = dict(value=None)
    c.setup(setup)
    c.ensures('same_array(self.initial_state, external_model.species_values)', label='shares-the-initial-condition-array')
    c.ensures('same_array(self.np_param_values, external_model.params_values) and same_array(self.c_param_values, external_model.params_values)',
              label='shares-the-parameter-array')
    c.ensures('same_array(self.update_array, external_model.update_array)', label='shares-the-stoichiometry')
    c.opt(verify_only=True)
    C.REGISTRY[c.key] = c
    C.ORDER.append(c.key)


interface_contract('ModelCSimInterface')


# a pre-built interface stays attached to the model's arrays across a deterministic simulation (so later set_parameter calls
# are seen by it): shape contract with a concrete interface of a model WITH a rule
def shares_after_simulation():
    c = Contract('simulator', 'DeterministicSimulator._helper_simulate', ['C08'], variant='interface-stays-attached')
    c.hints['timepoints'] = dict(value=lambda ex: Arr(ex.fresh('tp', tm.ArraySort(INT, REAL)), [2], REAL, 'ndarray', 'timepoints'))
    c.hints['keywords'] = dict(value=lambda ex: {})
    c.hints['sim'] = dict(value=None)

    def cself(ex, cls):
        ex.force_inline = True
        try:
            return ex.instantiate(cls, [], {})
        finally:
            ex.force_inline = False
    c.concrete_self = cself

    def setup(ex, fr):
        ex.force_inline = True
        try:
            M = ex.instantiate(ex.program.find_class('Model'), [], {k: (list(v) if isinstance(v, list) else dict(v)) for k, v in BASE.items()})
            itf = ex.instantiate(ex.program.find_class('ModelCSimInterface'), [M], {})
            ex.call_method(itf, ex.program.find_method(itf.cls, 'prep_deterministic_simulation'), [], {})
        finally:
            ex.force_inline = False
        fr.env['M'] = M
        fr.env['sim'] = itf
    c.setup(setup)
    c.loop(0).unroll_up_to(8)
    c.ensures('same_array(sim.np_param_values, M.params_values) and same_array(sim.c_param_values, M.params_values)',
              label='interface-still-shares-the-model-parameter-array')
    c.ensures('same_array(sim.initial_state, M.species_values) and arr(M.species_values) == old(arr(M.species_values))',
              label='initial-condition-untouched')
    c.opt(verify_only=True)
    C.REGISTRY[c.key] = c
    C.ORDER.append(c.key)


shares_after_simulation()


# re-initialising an UNCHANGED model keeps the value arrays themselves: interfaces built from the model share them (contracts above), and
# set_species / set_parameter write them in place, so a later edit of a value reaches every interface built before - unless some operation
# in between swaps the array for a new one (seed C08-d: check_species rebinding species_values)
def reinitialise_keeps_arrays():
    c = Contract('types', 'Model._initialize', ['C08'], variant='unchanged-model:value-arrays-kept')
    c.concrete_self = base_model
    c.ensures('same_array(self.species_values, old(self.species_values)) and arr(self.species_values) == old(arr(self.species_values))',
              label='same-species-value-array-same-values')
    c.ensures('same_array(self.params_values, old(self.params_values)) and arr(self.params_values) == old(arr(self.params_values))',
              label='same-parameter-value-array-same-values')
    c.opt(verify_only=True)
    C.REGISTRY[c.key] = c
    C.ORDER.append(c.key)


reinitialise_keeps_arrays()
