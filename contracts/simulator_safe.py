"""Contracts: SafeModelCSimInterface (C06 safe mode; C01 "through the safe interface"; memory safety of the sentinel scan).

Table view: row r of reaction_input_indices lists, in increasing species order, every species that reaction r consumes
(immediately or through its delayed part) with the amount it needs, followed by a -1 sentinel.  ccount(U, D, r, s) is the
number of consumed species among the first s: species s (if consumed) sits at position ccount(r, s).
"""
from bsvc.contracts import fuc, field_hint
from contracts import simulator_interfaces as _si   # shared field hints
from bsvc import axioms, speclib, terms as tm
from bsvc.terms import REAL, INT
from bsvc.values import Arr, to_term

R0, I0, I1 = tm.mk_real(0), tm.mk_int(0), tm.mk_int(1)


def _consumed(U, D, r, s):
    return tm.or_(tm.lt(tm.select(tm.select(U, s), r), R0), tm.lt(tm.select(tm.select(D, s), r), R0))


def _ccount_ax(t, ctx):
    U, D, r, s = t.args[1:5]
    prev = tm.app('ccount', (U, D, r, tm.sub(s, I1)), INT)
    nxt = tm.app('ccount', (U, D, r, tm.add(s, I1)), INT)
    out = [tm.implies(tm.le(s, I0), tm.eq(t, I0)),
           tm.implies(tm.gt(s, I0), tm.eq(t, tm.add(prev, tm.ite(_consumed(U, D, r, tm.sub(s, I1)), I1, I0)))),
           tm.implies(tm.ge(s, I0), tm.and_(tm.ge(t, I0), tm.le(t, s)))]
    if not (s.op == '+' and len(s.args) == 2 and s.args[1] == I1 and s.args[0].op == '+'):
        out.append(tm.implies(tm.ge(s, I0), tm.eq(nxt, tm.add(t, tm.ite(_consumed(U, D, r, s), I1, I0)))))
    return out


def _ccount_pair(a, b):
    # monotone in the last argument (lemma 'ccount-mono' proves the step; the induction is standard)
    if a.args[1:4] != b.args[1:4]:
        return []
    sa, sb = a.args[4], b.args[4]
    return [tm.implies(tm.and_(tm.le(I0, sa), tm.le(sa, sb)), tm.le(a, b)),
            tm.implies(tm.and_(tm.le(I0, sb), tm.le(sb, sa)), tm.le(b, a))]


axioms.register('ccount', _ccount_ax,
                'ccount(U,D,r,0)=0; ccount(..,s)=ccount(..,s-1)+[U[s-1,r]<0 or D[s-1,r]<0]; 0<=ccount<=s; monotone in s',
                _ccount_pair)


@speclib.spec('ccount')
def ccount(ex, U, D, r, s):
    return tm.app('ccount', (U.term, D.term, to_term(r), to_term(s)), INT)


speclib.define('consumed', ['itf', 's', 'r'], 'itf.update_array[s, r] < 0 or itf.delay_update_array[s, r] < 0')
speclib.define('need', ['itf', 's', 'r'],
               'ite(itf.update_array[s, r] < 0 and itf.delay_update_array[s, r] < 0, '
               '-(itf.update_array[s, r] + itf.delay_update_array[s, r]), '
               'ite(itf.update_array[s, r] < itf.delay_update_array[s, r], -itf.update_array[s, r], -itf.delay_update_array[s, r]))')
speclib.define('wf_itf', ['itf'],
               'itf.update_array.shape[0] == itf.num_species and itf.update_array.shape[1] == itf.num_reactions and '
               'itf.delay_update_array.shape[0] == itf.num_species and itf.delay_update_array.shape[1] == itf.num_reactions')
# rows r < upto of the table are complete: every consumed species listed at its position, a sentinel inside the extent
speclib.define('table_rows', ['itf', 'upto'],
               'forall(lambda r, s: implies(0 <= r and r < upto and 0 <= s and s < itf.num_species and consumed(itf, s, r), '
               'itf.reaction_input_indices[r, ccount(itf.update_array, itf.delay_update_array, r, s), 0] == s and '
               'itf.reaction_input_indices[r, ccount(itf.update_array, itf.delay_update_array, r, s), 1] == trunc(need(itf, s, r)))) and '
               'forall(lambda r, j: implies(0 <= r and r < upto and '
               'ccount(itf.update_array, itf.delay_update_array, r, itf.num_species) <= j and j < itf.reaction_input_indices.shape[1], '
               'itf.reaction_input_indices[r, j, 0] == -1)) and '
               'forall(lambda r, j: implies(0 <= r and r < upto and 0 <= j and '
               'j < ccount(itf.update_array, itf.delay_update_array, r, itf.num_species), '
               '0 <= itf.reaction_input_indices[r, j, 0] and itf.reaction_input_indices[r, j, 0] < itf.num_species)) and '
               'forall(lambda r, s: implies(0 <= r and r < upto and 0 <= s and s < itf.num_species and consumed(itf, s, r), '
               'ccount(itf.update_array, itf.delay_update_array, r, s) < ccount(itf.update_array, itf.delay_update_array, r, itf.num_species)))')
speclib.define('sentinel_inside', ['itf', 'upto'],
               'forall(lambda r: implies(0 <= r and r < upto, '
               'ccount(itf.update_array, itf.delay_update_array, r, itf.num_species) < itf.reaction_input_indices.shape[1]))')

S = 'SafeModelCSimInterface'
CC = 'ccount(self.update_array, self.delay_update_array, %s, %s)'


@fuc('simulator', S + '.initialize_reaction_inputs', props=['C06', 'C01', 'C07'])
def _(c):
    c.requires('wf_itf(self)')
    c.loop(0).invariant('self.reaction_input_indices.shape[0] == self.num_reactions and self.reaction_input_indices.shape[2] == 2 '
                        'and self.reaction_input_indices.shape[1] > self.num_species', label='shape') \
             .invariant('table_rows(self, self.rxn_ind)', label='rows-done') \
             .invariant('forall(lambda r, j, q: implies(self.rxn_ind <= r and 0 <= j, self.reaction_input_indices[r, j, q] == -1))',
                        label='rows-todo-untouched') \
             .also_modifies('self.s_ind', 'self.reaction_input_indices')
    c.loop(1).invariant('ind == ' + CC % ('self.rxn_ind', 'self.s_ind'), label='position') \
             .invariant('forall(lambda s: implies(0 <= s and s < self.s_ind and consumed(self, s, self.rxn_ind), '
                        'self.reaction_input_indices[self.rxn_ind, %s, 0] == s and self.reaction_input_indices[self.rxn_ind, %s, 1] == trunc(need(self, s, self.rxn_ind))))'
                        % (CC % ('self.rxn_ind', 's'), CC % ('self.rxn_ind', 's')), label='listed') \
             .invariant('forall(lambda s: implies(0 <= s and s < self.s_ind and consumed(self, s, self.rxn_ind), %s < ind))'
                        % (CC % ('self.rxn_ind', 's')), label='positions-below') \
             .invariant('forall(lambda j, q: implies(ind <= j, self.reaction_input_indices[self.rxn_ind, j, q] == -1))', label='tail-untouched') \
             .invariant('forall(lambda j: implies(0 <= j and j < ind, 0 <= self.reaction_input_indices[self.rxn_ind, j, 0] and '
                        'self.reaction_input_indices[self.rxn_ind, j, 0] < self.s_ind))', label='entries-valid') \
             .invariant('table_rows(self, self.rxn_ind)', label='rows-done') \
             .invariant('forall(lambda r, j, q: implies(self.rxn_ind < r and 0 <= j, self.reaction_input_indices[r, j, q] == -1))',
                        label='rows-todo-untouched') \
             .invariant('self.reaction_input_indices.shape[0] == self.num_reactions and self.reaction_input_indices.shape[2] == 2 '
                        'and self.reaction_input_indices.shape[1] > self.num_species', label='shape')
    c.ensures('table_rows(self, self.num_reactions)', label='table')
    c.ensures('sentinel_inside(self, self.num_reactions)', label='sentinel-inside-the-allocated-row')
    c.ensures('self.reaction_input_indices.shape[0] == self.num_reactions and self.reaction_input_indices.shape[2] == 2', label='shape')


def safe_loop(method, mode, vol, extra_first=True):
    @fuc('simulator', S + '.' + method, props=['C06', 'C01', 'C05'])
    def _(c):
        c.requires('wf_itf(self)')
        c.requires('table_rows(self, self.num_reactions) and sentinel_inside(self, self.num_reactions)')
        c.requires('self.reaction_input_indices.shape[0] == self.num_reactions and self.reaction_input_indices.shape[2] == 2')
        c.requires('len(state) >= self.num_species and len(propensity_destination) >= self.num_reactions '
                   'and len(self.c_propensities[0]) >= self.num_reactions')
        val = 'ufun("rate_%s", self.c_propensities[0][%%s], state, self.c_param_values, %stime)' % (mode, vol)
        done = ('forall(lambda q: implies(0 <= q and q < self.rxn_ind, '
                '(propensity_destination[q] > 0 or propensity_destination[q] == 0) and '
                'implies(propensity_destination[q] > 0, forall(lambda s: implies(0 <= s and s < self.num_species and consumed(self, s, q), '
                'state[s] >= real(trunc(need(self, s, q))))) and propensity_destination[q] == %s)))' % (val % 'q'))
        # the converse (C05: the safe interface samples the SAME master equation wherever reactions can fire): a reaction all of whose table
        # entries are satisfied by the state gets exactly its rate law (clipped at 0 with a warning), not 0 and not a stale value.  Stated over the
        # table entries; together with table_rows (every consumed species s of reaction q sits at position ccount(q, s) with its need, and the
        # positions 0 .. ccount(q, num_species) - 1 are exactly those) this is "every consumed species is present in the needed amount"
        RII = 'self.reaction_input_indices'
        allin = ('forall(lambda j: implies(0 <= j and j < %s, state[%s[%%s, j, 0]] >= real(%s[%%s, j, 1])))' % (CC % ('%s', 'self.num_species'), RII, RII))
        exact = ('forall(lambda q: implies(0 <= q and q < self.rxn_ind and %s, propensity_destination[q] == ite(%s < 0, 0.0, %s)))'
                 % (allin % ('q', 'q', 'q'), val % 'q', val % 'q'))
        outer = c.loop(0)
        inner = c.loop(1)
        outer.invariant(done, label='done').also_modifies('self.s_ind', 'self.prop_is_0')
        outer.invariant(exact, label='exact-where-the-reactants-are-present')
        inner.invariant(exact, label='exact-where-the-reactants-are-present')
        inner.invariant('implies(self.prop_is_0 == 1, self.s_ind >= 1 and self.s_ind - 1 < %s and '
                        'state[%s[self.rxn_ind, self.s_ind - 1, 0]] < real(%s[self.rxn_ind, self.s_ind - 1, 1]))'
                        % (CC % ('self.rxn_ind', 'self.num_species'), RII, RII), label='zeroed-only-by-an-unsatisfied-entry')
        c.ensures(exact.replace('q < self.rxn_ind', 'q < self.num_reactions'), label='rate-law-wherever-the-reactants-are-present')
        inner.invariant('self.s_ind <= ' + CC % ('self.rxn_ind', 'self.num_species'), label='scan-bounded') \
             .invariant('self.prop_is_0 == 0 or self.prop_is_0 == 1', label='flag') \
             .invariant('implies(self.prop_is_0 == 0, forall(lambda s: implies(0 <= s and s < self.num_species and '
                        'consumed(self, s, self.rxn_ind) and %s < self.s_ind, state[s] >= real(trunc(need(self, s, self.rxn_ind))))))'
                        % (CC % ('self.rxn_ind', 's')), label='scanned-sufficient') \
             .invariant('implies(self.prop_is_0 == 1, propensity_destination[self.rxn_ind] == 0)', label='zeroed') \
             .invariant(done, label='done')
        c.ensures(done.replace('q < self.rxn_ind', 'q < self.num_reactions'), label='no-firing-without-reactants')
        c.modifies('propensity_destination', 'self.rxn_ind', 'self.s_ind', 'self.prop_is_0')


safe_loop('compute_stochastic_propensities', 'STO', '')
safe_loop('compute_stochastic_volume_propensities', 'STOVOL', 'volume, ')


@fuc('simulator', S + '.check_count_function', props=['C06'])
def _(c):
    c.requires('len(state) >= self.num_species')
    c.loop(0).invariant('True')
    c.modifies('self.s_ind')
    c.note('only issues warnings (dropped by the extraction); proved: reads stay inside the state vector, nothing but the scratch index changes')
