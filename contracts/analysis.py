"""Contracts: bioscrape/analysis.py :: SensitivityAnalysis.compute_J / compute_Zj (C18), shape class: one concrete model
(bimolecular + unimolecular mass action + positive Hill; 3 species, 5 parameters) with symbolic state and parameters; all
four difference schemes; every Jacobian entry and every parameter.

Oracle: F_i = sum_r N[i,r] * closed-form rate_r (written here from the reaction list, independent of bioscrape),
J[i,j] = round_P( stencil over F_i(x + k h e_j) ),  Z[i] = round_P( stencil over F_i(p + k h) ); after the call the model's
parameter values are what they were."""
from bsvc.contracts import Contract
from bsvc import contracts as C, terms as tm
from bsvc.terms import REAL, INT
from bsvc.values import Arr, Obj, to_term
from bsvc.lemmas import lemma

SPECIES = ['A', 'B', 'Cc']
PARAMS = ['k1', 'k2', 'k3', 'K', 'n']
REACTIONS = [(['A', 'B'], ['Cc'], 'massaction', {'k': 'k1'}),
             (['Cc'], ['A', 'B'], 'massaction', {'k': 'k2'}),
             ([], ['A'], 'hillpositive', {'k': 'k3', 'K': 'K', 'n': 'n', 's1': 'Cc'})]
N = {'A': [-1, 1, 1], 'B': [-1, 1, 0], 'Cc': [1, -1, 0]}
METHODS = {'fourth_order_central_difference': ([(2, -1), (1, 8), (-1, -8), (-2, 1)], 12),
           'central_difference': ([(1, 1), (-1, -1)], 2),
           'forward_difference': ([(1, 1), (0, -1)], 1),
           'backward_difference': ([(0, 1), (-1, -1)], 1)}
H = tm.mk_real('0.01')


# second shape: mass action only (no division), so ANY interior state is allowed, also states closer to the boundary than the
# reach of the stencil
REACTIONS_MA = [(['A', 'B'], ['Cc'], 'massaction', {'k': 'k1'}),
                (['Cc'], ['A', 'B'], 'massaction', {'k': 'k2'}),
                (['A', 'A'], ['B'], 'massaction', {'k': 'k3'})]
N_MA = {'A': [-1, 1, -2], 'B': [-1, 1, 1], 'Cc': [1, -1, 0]}
KIND = ['hill']


def rates(x, p):
    if KIND[0] == 'ma':
        return [tm.mul(tm.mul(p['k1'], x['A']), x['B']), tm.mul(p['k2'], x['Cc']), tm.mul(tm.mul(p['k3'], x['A']), x['A'])]
    h = tm.app('rpow', (tm.rdiv(x['Cc'], p['K']), p['n']), REAL)
    return [tm.mul(tm.mul(p['k1'], x['A']), x['B']), tm.mul(p['k2'], x['Cc']),
            tm.rdiv(tm.mul(p['k3'], h), tm.add(tm.mk_real(1), h))]


def F(i, x, p):
    r = rates(x, p)
    if KIND[0] == 'ma':
        acc = tm.mk_real(0)
        for c, rt in zip(N_MA[SPECIES[i]], r):
            if c:
                acc = tm.add(acc, tm.mul(tm.mk_real(c), rt))
        return acc
    acc = tm.mk_real(0)
    for c, rt in zip(N[SPECIES[i]], r):
        if c:
            acc = tm.add(acc, tm.mul(tm.mk_real(c), rt))
    return acc


def build_self(ex, cls):
    fr = ex.frame
    rx = REACTIONS_MA if KIND[0] == 'ma' else REACTIONS
    p = {nm: ex.fresh(nm, REAL) for nm in PARAMS}
    for nm, v in p.items():
        fr.env['p_' + nm] = v
        ex.assume(tm.gt(v, tm.mk_real(0)))
    ex.force_inline = True
    try:
        M = ex.instantiate(ex.program.find_class('Model'), [],
                           dict(species=list(SPECIES), reactions=[(list(a), list(b), t, dict(d)) for a, b, t, d in rx],
                                parameters=[(nm, p[nm]) for nm in PARAMS], initial_condition_dict={s: 1 for s in SPECIES}))
        sa = ex.instantiate(cls, [M], {})
    finally:
        ex.force_inline = False
    sa.name = 'self'
    fr.env['M'] = M
    fr.env['P'] = p
    return sa


def _with_kind(kind, fn):
    def g(*a, **kw):
        KIND[0] = kind
        return fn(*a, **kw)
    return g


def jacobian_contract(method, kind='hill'):
    c = Contract('analysis', 'SensitivityAnalysis.compute_J', ['C18'], variant=method + ('' if kind == 'hill' else ':mass-action-any-interior-state'))
    c.concrete_self = _with_kind(kind, build_self)
    lower = tm.mk_real('0.02') if kind == 'hill' else tm.mk_real(0)

    def xval(ex):
        xs = [ex.fresh('x_' + s, REAL) for s in SPECIES]
        for v in xs:
            ex.assume(tm.gt(v, lower))      # hill: stencil points stay in the orthant (x > 2h); mass action: any interior state
        ex.frame.env['X'] = xs
        return list(xs)
    c.hints['x'] = dict(value=xval)
    c.hints['time'] = dict(value=tm.mk_real(0))
    c.hints['kwargs'] = dict(value=lambda ex: {'method': method})
    pts, den = METHODS[method]

    def check(ex, fr, result):
        xs, p = fr.env['X'], fr.env['P']
        idx = fr.env['M'].fields['species2index']
        if not isinstance(result, Arr):
            ex.oblige('post', tm.FALSE, label='returns-a-matrix')
            return
        for i, si in enumerate(SPECIES):
            for j, sj in enumerate(SPECIES):
                acc = tm.mk_real(0)
                for (k, w) in pts:
                    x = {s: v for s, v in zip(SPECIES, xs)}
                    x[sj] = tm.add(x[sj], tm.mul(tm.mk_real(k), H))
                    acc = tm.add(acc, tm.mul(tm.mk_real(w), F(i, x, p)))
                want = tm.app('round10', (tm.rdiv(acc, tm.mul(tm.mk_real(den), H)),), REAL)
                got = tm.select(tm.select(result.term, to_term(idx[si])), to_term(idx[sj]))
                ex.oblige('post', tm.eq(got, want), label='J[%s,%s]' % (si, sj), note='d F_%s / d %s by the %s stencil, rounded' % (si, sj, method))
        pv = fr.env['M'].fields['params_values']
        pi = fr.env['M'].fields['params2index']
        for nm in PARAMS:
            ex.oblige('post', tm.eq(tm.select(pv.term, to_term(pi[nm])), p[nm]), label='parameter-%s-unchanged' % nm)
    c.after(_with_kind(kind, check))
    c.opt(verify_only=True)
    C.REGISTRY[c.key] = c
    C.ORDER.append(c.key)


def sensitivity_contract(method, pname):
    c = Contract('analysis', 'SensitivityAnalysis.compute_Zj', ['C18'], variant='%s:%s' % (method, pname))
    c.concrete_self = _with_kind('hill', build_self)

    def xval(ex):
        xs = [ex.fresh('x_' + s, REAL) for s in SPECIES]
        for v in xs:
            ex.assume(tm.gt(v, tm.mk_real(0)))
        ex.frame.env['X'] = xs
        for nm in PARAMS:
            ex.assume(tm.gt(ex.frame.env['p_' + nm], tm.mk_real('0.1')))
        return list(xs)
    c.hints['x'] = dict(value=xval)
    c.hints['param_name'] = dict(value=pname)
    c.hints['time'] = dict(value=tm.mk_real(0))
    c.hints['kwargs'] = dict(value=lambda ex: {'method': method})
    pts, den = METHODS[method]

    def check(ex, fr, result):
        xs, p = fr.env['X'], fr.env['P']
        idx = fr.env['M'].fields['species2index']
        x = {s: v for s, v in zip(SPECIES, xs)}
        for i, si in enumerate(SPECIES):
            acc = tm.mk_real(0)
            for (k, w) in pts:
                pp = dict(p)
                pp[pname] = tm.add(p[pname], tm.mul(tm.mk_real(k), H))
                acc = tm.add(acc, tm.mul(tm.mk_real(w), F(i, x, pp)))
            want = tm.app('round10', (tm.rdiv(acc, tm.mul(tm.mk_real(den), H)),), REAL)
            got = tm.select(result.term, to_term(idx[si]))
            ex.oblige('post', tm.eq(got, want), label='Z[%s]' % si, note='d F_%s / d %s by the %s stencil, rounded' % (si, pname, method))
        pv = fr.env['M'].fields['params_values']
        pi = fr.env['M'].fields['params2index']
        for nm in PARAMS:
            ex.oblige('post', tm.eq(tm.select(pv.term, to_term(pi[nm])), p[nm]), label='parameter-%s-restored' % nm,
                      note='computing a sensitivity leaves the model parameters as they were')
    c.after(_with_kind('hill', check))
    c.opt(verify_only=True)
    C.REGISTRY[c.key] = c
    C.ORDER.append(c.key)


for m in METHODS:
    jacobian_contract(m)
    jacobian_contract(m, 'ma')
    for pn in PARAMS:
        sensitivity_contract(m, pn)

# stencil lemmas: each formula is exact on polynomials up to its order (pins coefficients and denominator)
Q = 'a0 + a1 * (%s) + a2 * (%s) ** 2 + a3 * (%s) ** 3 + a4 * (%s) ** 4'
V5 = {'a0': 'Real', 'a1': 'Real', 'a2': 'Real', 'a3': 'Real', 'a4': 'Real', 'x': 'Real', 'h': 'Real'}


def poly(arg, deg):
    terms_ = ['a0', 'a1 * (%s)' % arg, 'a2 * (%s) ** 2' % arg, 'a3 * (%s) ** 3' % arg, 'a4 * (%s) ** 4' % arg]
    return ' + '.join(terms_[:deg + 1])


def dpoly(deg):
    terms_ = ['0', 'a1', '2 * a2 * x', '3 * a3 * x ** 2', '4 * a4 * x ** 3']
    return ' + '.join(terms_[:deg + 1])


lemma('stencil-4th-order-exact-on-quartics', ['C18'], V5, ['h > 0'],
      '(-(%s) + 8 * (%s) - 8 * (%s) + (%s)) / (12 * h) == %s' % (poly('x + 2 * h', 4), poly('x + h', 4), poly('x - h', 4), poly('x - 2 * h', 4), dpoly(4)))
lemma('stencil-central-exact-on-quadratics', ['C18'], V5, ['h > 0'],
      '((%s) - (%s)) / (2 * h) == %s' % (poly('x + h', 2), poly('x - h', 2), dpoly(2)))
lemma('stencil-forward-exact-on-linear', ['C18'], V5, ['h > 0'], '((%s) - (%s)) / h == %s' % (poly('x + h', 1), poly('x', 1), dpoly(1)))
lemma('stencil-backward-exact-on-linear', ['C18'], V5, ['h > 0'], '((%s) - (%s)) / h == %s' % (poly('x', 1), poly('x - h', 1), dpoly(1)))
lemma('stencil-central-error-term', ['C18'], V5, ['h > 0'],
      '((%s) - (%s)) / (2 * h) == (%s) + a3 * h ** 2' % (poly('x + h', 3), poly('x - h', 3), dpoly(3)),
      note='leading error coefficient of the central scheme is f\'\'\'/6 * h^2 (here a3 = f\'\'\'/6): second order')
