"""Contracts: SSASimulator.simulate (C05, C06, C09) against the abstract step relation R_ssa (DESIGN 4.2), plus the abstract
contracts of the CSimInterface virtual methods the simulators call.

Abstract interface model (what a simulator may know about `sim`):
  sprop(sim, r, x, p, t)         stochastic propensity of reaction r at state x, parameter vector p, time t   (>= 0: assumed)
  rules_state(sim, x, p, t, rs)  state after applying the repeated rules (rs = rule_step flag), rules_params(...) likewise
  ghost("pvals")                 the interface's current parameter vector (rules may assign parameters)
"""
from bsvc.contracts import fuc, field_hint
from bsvc.terms import REAL
from bsvc import speclib

field_hint('SSAResult.timepoints', ndim=1, elem=REAL)
field_hint('SSAResult.simulation_result', ndim=2, elem=REAL)

PROPS = ['C05', 'C06', 'C09', 'C10', 'C11']
I = 'CSimInterface.'


def getter(name, field, props=PROPS):
    @fuc('simulator', I + name, props=props)
    def _(c):
        c.abstract = True
        c.verify_body = False
        c.opt(result=lambda ex, fr, field=field: ex.get_field(fr.env['self'], field))
        c.modifies()
        c.note('accessor: returns the field %s itself' % field)


getter('get_initial_state', 'initial_state')
getter('get_update_array', 'update_array')
getter('get_delay_update_array', 'delay_update_array')
getter('get_initial_time', 'initial_time')
getter('get_dt', 'dt')
getter('get_num_reactions', 'num_reactions')
getter('get_num_species', 'num_species')

RULES_S = 'afun("rules_state", self, %s, %s, time, rule_step)'
RULES_P = 'afun("rules_params", self, %s, %s, time, rule_step)'


@fuc('simulator', I + 'apply_repeated_rules', props=PROPS)
def _(c):
    c.abstract = True
    c.verify_body = False
    c.requires('len(state) >= self.num_species')
    c.ensures('arr(state) == ' + RULES_S % ('old(arr(state))', 'old(ghost("pvals"))'), label='state-after-rules')
    c.ensures('ghost("pvals") == ' + RULES_P % ('old(arr(state))', 'old(ghost("pvals"))'), label='params-after-rules')
    c.modifies('state[*]', 'ghost:pvals')
    c.note('abstract: the rule set is a function of (state, parameters, time, rule_step); proved per rule class in C09')


def sprop_contract(method, fname, vol):
    @fuc('simulator', I + method, props=PROPS)
    def _(c):
        c.abstract = True
        c.verify_body = False
        c.requires('len(state) >= self.num_species and len(propensity_destination) >= self.num_reactions')
        c.ensures('forall(lambda q: implies(0 <= q and q < self.num_reactions, propensity_destination[q] == '
                  'ufun("%s", self, q, state, ghost("pvals"), %stime) and propensity_destination[q] >= 0))' % (fname, vol), label='values')
        c.ensures('forall(lambda q: implies(q >= self.num_reactions, propensity_destination[q] == old(propensity_destination[q])))',
                  label='frame-tail')
        c.modifies('propensity_destination[*]')
        c.note('abstract; non-negativity of propensities at reachable states is an assumption of C05/C06 (proved for the safe interface)')


sprop_contract('compute_stochastic_propensities', 'sprop', '')
sprop_contract('compute_stochastic_volume_propensities', 'svprop', 'volume, ')
sprop_contract('compute_propensities', 'dprop', '')
sprop_contract('compute_volume_propensities', 'vprop', 'volume, ')

speclib.define('wf_sim', ['sim'],
               'sim.update_array.shape[0] == sim.num_species and sim.update_array.shape[1] == sim.num_reactions and '
               'sim.delay_update_array.shape[0] == sim.num_species and sim.delay_update_array.shape[1] == sim.num_reactions and '
               'sim.initial_state.shape[0] == sim.num_species')

XR = 'entry(c_current_state, 1)'           # the state after the rules of this iteration (entry of the recording loop)
TH = 'head(c_timepoints[current_index])'   # the grid time the step is racing against
W = '(-ln(U(head(kappa()))) / Lambda)'     # waiting time drawn in this iteration (inverse-CDF of the exponential law)


@fuc('simulator', 'SSASimulator.simulate', props=['C05', 'C06', 'C09', 'C07'])
def _(c):
    c.array('timepoints', ndim=1, elem='Real')
    c.requires('wf_sim(sim)')
    c.requires('len(timepoints) >= 1')
    c.assume('forall(lambda k: U(k) > 0)', 'the probability-2^-53 event uniform_rv() == 0 is excluded (ln diverges)')
    main = c.loop(0)
    main.also_modifies('kappa', 'ghost:pvals', 'c_current_state', 'c_propensity', 'c_results')
    main.invariant('current_index <= num_timepoints', label='index')
    main.invariant('rule_step == 0 or rule_step == 1', label='rule-flag')
    main.invariant('num_species == sim.num_species and num_reactions == sim.num_reactions and num_timepoints == len(timepoints)',
                   label='sizes')
    # ---- R_ssa
    main.step('arr(%s) == afun("rules_state", sim, head(arr(c_current_state)), head(ghost("pvals")), head(current_time), head(rule_step))' % XR,
              label='rules-first')
    main.step('forall(lambda q: implies(0 <= q and q < num_reactions, c_propensity[q] == '
              'ufun("sprop", sim, q, %s, ghost("pvals"), head(current_time))))' % XR, label='propensities-of-rule-updated-state')
    main.step('Lambda == sum_(c_propensity, num_reactions)', label='total-propensity')
    main.step('implies(Lambda == 0, current_time == %s and reaction_fired == 0)' % TH, label='dead-state-jumps-to-grid')
    main.step('implies(Lambda > 0, current_time == ite(head(current_time) + %s > %s, %s, head(current_time) + %s))' % (W, TH, TH, W),
              label='exponential-waiting-time')
    main.step('(reaction_fired == 1) == (Lambda > 0 and head(current_time) + %s <= %s)' % (W, TH), label='fires-iff-before-grid-time')
    main.step('implies(reaction_fired == 1, 0 <= reaction_choice and reaction_choice < num_reactions and '
              'sum_(c_propensity, reaction_choice) < U(head(kappa()) + 1) * Lambda and '
              'U(head(kappa()) + 1) * Lambda <= sum_(c_propensity, reaction_choice + 1))', label='selection-interval')
    main.step('implies(reaction_fired == 1, forall(lambda s: implies(0 <= s and s < num_species, c_current_state[s] == '
              '%s[s] + sim.update_array[s, reaction_choice] + sim.delay_update_array[s, reaction_choice])))' % XR,
              label='state-update-by-net-stoichiometry')
    main.step('implies(reaction_fired == 0, forall(lambda s: implies(0 <= s and s < num_species, c_current_state[s] == %s[s])))' % XR,
              label='no-firing-no-change')
    main.step('forall(lambda m, s: implies(head(current_index) <= m and m < current_index and 0 <= s and s < num_species, '
              'c_results[m, s] == %s[s]))' % XR, label='rows-get-the-pre-firing-state')
    main.step('forall(lambda m: implies(head(current_index) <= m and m < current_index, c_timepoints[m] <= current_time))',
              label='rows-recorded-are-due')
    main.step('current_index == num_timepoints or c_timepoints[current_index] > current_time', label='all-due-rows-recorded')
    main.step('forall(lambda m, s: implies((m < head(current_index) or m >= current_index), c_results[m, s] == head(c_results[m, s])))',
              label='earlier-rows-frozen')
    main.step('rule_step == ite(reaction_fired == 1, 0, 1)', label='rule-step-flag')
    main.step('kappa() == head(kappa()) + ite(Lambda > 0, 1, 0) + ite(reaction_fired == 1, 1, 0)', label='stream-consumption')
    main.step('head(current_index) < current_index or reaction_fired == 1', label='progress')
    # ---- inner loops
    rec = c.loop(1)
    rec.invariant('entry(current_index, 1) <= current_index and current_index <= num_timepoints', label='index')
    rec.invariant('forall(lambda m, s: implies(entry(current_index, 1) <= m and m < current_index and 0 <= s and s < num_species, '
                  'c_results[m, s] == c_current_state[s]))', label='rows')
    rec.invariant('forall(lambda m: implies(entry(current_index, 1) <= m and m < current_index, c_timepoints[m] <= current_time))', label='due')
    rec.invariant('forall(lambda m, s: implies(m < entry(current_index, 1) or m >= current_index, c_results[m, s] == entry(c_results[m, s], 1)))',
                  label='frozen')
    cp = c.loop(2)
    cp.invariant('forall(lambda s: implies(0 <= s and s < species_index, c_results[current_index, s] == c_current_state[s]))', label='copied')
    cp.invariant('forall(lambda m, s: implies(m != current_index or s >= species_index, c_results[m, s] == entry(c_results[m, s], 2)))',
                 label='rest')
    up = c.loop(3)
    up.invariant('forall(lambda s: implies(0 <= s and s < species_index, c_current_state[s] == entry(c_current_state[s], 3) + '
                 'c_stoich[s, reaction_choice]))', label='updated')
    up.invariant('forall(lambda s: implies(s >= species_index, c_current_state[s] == entry(c_current_state[s], 3)))', label='rest')
    # ---- result
    c.ensures('same_array(result.timepoints, timepoints)', label='time-axis-is-the-request')
    c.ensures('result.simulation_result.shape[0] == len(timepoints) and result.simulation_result.shape[1] == sim.num_species',
              label='one-row-per-time-point')
    c.ensures('arr(sim.initial_state) == old(arr(sim.initial_state))', label='initial-condition-untouched')
    c.ensures('arr(sim.update_array) == old(arr(sim.update_array)) and arr(sim.delay_update_array) == old(arr(sim.delay_update_array))',
              label='model-stoichiometry-untouched')
    c.opt(result_class='SSAResult')


@fuc('simulator', I + 'apply_repeated_volume_rules', props=PROPS)
def _(c):
    c.abstract = True
    c.verify_body = False
    c.requires('len(state) >= self.num_species')
    c.ensures('arr(state) == afun("vrules_state", self, old(arr(state)), old(ghost("pvals")), volume, time, rule_step)', label='state-after-rules')
    c.ensures('ghost("pvals") == afun("vrules_params", self, old(arr(state)), old(ghost("pvals")), volume, time, rule_step)', label='params-after-rules')
    c.modifies('state[*]', 'ghost:pvals')
