"""Contracts: bioscrape/simulator.pyx :: ArrayDelayQueue (property C20; used by C10, C19).

Abstract view of a queue q (DESIGN 4.1 view_q):  pend(q, r, k) = q.queue[r, (q.start_index + k) mod q.num_cols]
is the number of occurrences of reaction r pending for relative slot k (k = 0 is delivered next, at time
q.next_queue_time; slot k is delivered at q.next_queue_time + k*q.dt).
"""
from bsvc.contracts import fuc
from bsvc.speclib import define

define('wf_queue', ['q'],
       'q.num_cols >= 1 and 0 <= q.start_index and q.start_index < q.num_cols and q.dt > 0 '
       'and q.queue.shape[0] == q.num_reactions and q.queue.shape[1] == q.num_cols')
define('pend', ['q', 'r', 'k'], 'select(q.queue, r, (q.start_index + k) % q.num_cols)')
define('in_view', ['q', 'r', 'k'], '0 <= r and r < q.num_reactions and 0 <= k and k < q.num_cols')
# nearest slot (round half up), clamped to the queue:  the oracle of the statement
define('slot_of', ['q', 't'],
       'ite(floor((t - q.next_queue_time) / q.dt + 0.5) < 0, 0, '
       'ite(floor((t - q.next_queue_time) / q.dt + 0.5) >= q.num_cols, q.num_cols - 1, '
       'floor((t - q.next_queue_time) / q.dt + 0.5)))')

Q = 'ArrayDelayQueue'


def _q(c):
    c.array('self.queue', ndim=2, elem='Real')


@fuc('simulator', Q + '.add_reaction', props=['C20', 'C10'])
def _(c):
    _q(c)
    c.requires('wf_queue(self)')
    c.requires('rxn_id < self.num_reactions')
    c.ensures('forall(lambda r, k: implies(in_view(self, r, k), pend(self, r, k) == old(pend(self, r, k)) + '
              'ite(r == rxn_id and k == old(slot_of(self, time)), amount, 0.0)))', label='view')
    c.ensures('wf_queue(self)', label='wf')
    c.modifies('self.queue')


@fuc('simulator', Q + '.get_next_queue_time', props=['C20', 'C10'])
def _(c):
    _q(c)
    c.ensures('result == self.next_queue_time')
    c.modifies()


@fuc('simulator', Q + '.set_current_time', props=['C20', 'C10'])
def _(c):
    _q(c)
    c.requires('wf_queue(self)')
    c.ensures('self.next_queue_time == t + self.dt')
    c.ensures('wf_queue(self)', label='wf')
    c.modifies('self.next_queue_time')


@fuc('simulator', Q + '.get_next_reactions', props=['C20', 'C10'])
def _(c):
    _q(c)
    c.requires('wf_queue(self)')
    c.requires('len(rxn_array) >= self.num_reactions')
    c.loop(0).invariant('forall(lambda j: implies(0 <= j and j < i, rxn_array[j] == pend(self, j, 0)))') \
             .invariant('forall(lambda j: implies(j >= i, rxn_array[j] == old(rxn_array[j])))', label='rest')
    c.ensures('forall(lambda r: implies(0 <= r and r < self.num_reactions, rxn_array[r] == pend(self, r, 0)))', label='head')
    c.ensures('forall(lambda r: implies(r >= self.num_reactions, rxn_array[r] == old(rxn_array[r])))', label='frame-tail')
    c.modifies('rxn_array')


@fuc('simulator', Q + '.advance_time', props=['C20', 'C10'])
def _(c):
    _q(c)
    c.requires('wf_queue(self)')
    c.loop(0).invariant('forall(lambda r, m: implies(0 <= r and r < self.num_reactions and 0 <= m and m < self.num_cols, '
                        'select(self.queue, r, m) == ite(m == self.start_index and r < i, 0.0, old(select(self.queue, r, m)))))')
    c.ensures('forall(lambda r, k: implies(in_view(self, r, k) and k < self.num_cols - 1, '
              'pend(self, r, k) == old(pend(self, r, k + 1))))', label='shift')
    c.ensures('forall(lambda r: implies(0 <= r and r < self.num_reactions, pend(self, r, self.num_cols - 1) == 0.0))',
              label='new-last-empty')
    c.ensures('self.next_queue_time == old(self.next_queue_time) + self.dt', label='clock')
    c.ensures('wf_queue(self)', label='wf')
    c.modifies('self.queue', 'self.next_queue_time', 'self.start_index')


from bsvc.contracts import field_hint
from bsvc.terms import REAL as _REAL
field_hint('ArrayDelayQueue.queue', ndim=2, elem=_REAL)


@fuc('simulator', Q + '.__init__', props=['C20', 'C10', 'C07'])
def _(c):
    c.array('queue', ndim=2, elem='Real')
    c.requires('dt > 0 and queue.shape[1] >= 1')
    c.ensures('wf_queue(self)', label='wf')
    c.ensures('same_array(self.queue, queue)', label='wraps-the-array')
    c.ensures('self.next_queue_time == current_time + dt and self.dt == dt and self.start_index == 0', label='clock')
    c.opt(verify_only=True)      # call sites execute the constructor body itself


@fuc('simulator', Q + '.setup_queue', props=['C20', 'C10', 'C07'])
def _(c):
    c.requires('dt > 0 and queue_length >= 1')
    c.ensures('wf_queue(result)', label='wf')
    c.ensures('result.num_reactions == num_reactions and result.num_cols == queue_length and result.dt == dt', label='shape')
    c.ensures('forall(lambda r, k: implies(in_view(result, r, k), pend(result, r, k) == 0.0))', label='empty')
    c.ensures('result.next_queue_time == 0.0 + dt', label='clock')
    c.opt(verify_only=True)      # call sites execute the (loop-free) body


@fuc('simulator', Q + '.copy', props=['C20', 'C10', 'C19'])
def _(c):
    _q(c)
    c.requires('wf_queue(self)')
    c.ensures('wf_queue(result)', label='wf')
    c.ensures('forall(lambda r, k: implies(in_view(self, r, k), pend(result, r, k) == pend(self, r, k)))', label='same-view')
    c.ensures('result.next_queue_time == self.next_queue_time and result.dt == self.dt and '
              'result.num_cols == self.num_cols and result.num_reactions == self.num_reactions', label='same-clock')
    c.ensures('not same_array(result.queue, self.queue)', label='fresh-array')
    c.modifies()
    c.opt(result_class='ArrayDelayQueue')


@fuc('simulator', Q + '.clear_copy', props=['C20', 'C10', 'C19'])
def _(c):
    _q(c)
    c.requires('wf_queue(self)')
    c.ensures('wf_queue(result)', label='wf')
    c.ensures('forall(lambda r, k: implies(in_view(self, r, k), pend(result, r, k) == 0.0))', label='empty-view')
    c.ensures('result.next_queue_time == self.next_queue_time and result.dt == self.dt and '
              'result.num_cols == self.num_cols and result.num_reactions == self.num_reactions and '
              'result.start_index == self.start_index', label='same-clock')
    c.ensures('not same_array(result.queue, self.queue)', label='fresh-array')
    c.modifies()
    c.opt(result_class='ArrayDelayQueue')


@fuc('simulator', Q + '.binomial_partition', props=['C20', 'C19'])
def _(c):
    _q(c)
    c.requires('wf_queue(self)')
    c.requires('forall(lambda r, m: implies(0 <= r and r < self.num_reactions and 0 <= m and m < self.num_cols, '
               'select(self.queue, r, m) >= 0))', label='entries-nonneg')
    INV = ('forall(lambda r, m: implies(0 <= r and r < num_reactions and 0 <= m and m < time_points and '
           '(m < time_index or (m == time_index and r < %s)), '
           'select(q1.queue, r, m) + select(q2.queue, r, m) == select(self.queue, r, m) and select(q1.queue, r, m) >= 0))')
    c.loop(0).invariant(INV % '0').also_modifies('kappa', 'q1.queue', 'q2.queue')
    c.loop(1).invariant(INV % 'reaction_index').also_modifies('kappa')
    c.ensures('forall(lambda r, k: implies(in_view(self, r, k), '
              'pend(result[0], r, k) + pend(result[1], r, k) == pend(self, r, k) and pend(result[0], r, k) >= 0))',
              label='split-conserves')
    c.ensures('wf_queue(result[0]) and wf_queue(result[1])', label='wf')
    c.ensures('result[0].next_queue_time == self.next_queue_time and result[1].next_queue_time == self.next_queue_time '
              'and result[0].start_index == self.start_index and result[1].start_index == self.start_index', label='same-clock')
    c.ensures('not same_array(result[0].queue, self.queue) and not same_array(result[1].queue, self.queue) '
              'and not same_array(result[0].queue, result[1].queue)', label='fresh-arrays')
    c.modifies('kappa')
