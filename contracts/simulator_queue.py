"""Contracts: bioscrape/simulator.pyx :: ArrayDelayQueue (property C20; used by C10, C19).

Abstract view of a queue q (DESIGN 4.1 view_q):  pend(q, r, k) = q.queue[r, (q.start_index + k) mod q.num_cols]
is the number of occurrences of reaction r pending for relative slot k (k = 0 is delivered next, at time
q.next_queue_time; slot k is delivered at q.next_queue_time + k*q.dt).
"""
from bsvc.contracts import fuc
from bsvc.speclib import define

define('wf_queue', ['q'],
       'q.num_cols >= 1 and 0 <= q.start_index and q.start_index < q.num_cols and q.dt > 0 '
       'and q.queue.shape[0] == q.num_reactions and q.queue.shape[1] == q.num_cols')
define('pend', ['q', 'r', 'k'], 'select(q.queue, r, (q.start_index + k) % q.num_cols)')
define('in_view', ['q', 'r', 'k'], '0 <= r and r < q.num_reactions and 0 <= k and k < q.num_cols')
# nearest slot (round half up), clamped to the queue:  the oracle of the statement
define('slot_of', ['q', 't'],
       'ite(floor((t - q.next_queue_time) / q.dt + 0.5) < 0, 0, '
       'ite(floor((t - q.next_queue_time) / q.dt + 0.5) >= q.num_cols, q.num_cols - 1, '
       'floor((t - q.next_queue_time) / q.dt + 0.5)))')

Q = 'ArrayDelayQueue'


def _q(c):
    c.array('self.queue', ndim=2, elem='Real')


@fuc('simulator', Q + '.add_reaction', props=['C20', 'C10'])
def _(c):
    _q(c)
    c.requires('wf_queue(self)')
    c.requires('rxn_id < self.num_reactions')
    c.ensures('forall(lambda r, k: implies(in_view(self, r, k), pend(self, r, k) == old(pend(self, r, k)) + '
              'ite(r == rxn_id and k == old(slot_of(self, time)), amount, 0.0)))', label='view')
    c.ensures('wf_queue(self)', label='wf')
    c.modifies('self.queue')


@fuc('simulator', Q + '.get_next_queue_time', props=['C20', 'C10'])
def _(c):
    _q(c)
    c.ensures('result == self.next_queue_time')
    c.modifies()


@fuc('simulator', Q + '.set_current_time', props=['C20', 'C10'])
def _(c):
    _q(c)
    c.requires('wf_queue(self)')
    c.ensures('self.next_queue_time == t + self.dt')
    c.ensures('wf_queue(self)', label='wf')
    c.modifies('self.next_queue_time')


@fuc('simulator', Q + '.get_next_reactions', props=['C20', 'C10'])
def _(c):
    _q(c)
    c.requires('wf_queue(self)')
    c.requires('len(rxn_array) >= self.num_reactions')
    c.loop(0).invariant('forall(lambda j: implies(0 <= j and j < i, rxn_array[j] == pend(self, j, 0)))') \
             .invariant('forall(lambda j: implies(j >= i, rxn_array[j] == old(rxn_array[j])))', label='rest')
    c.ensures('forall(lambda r: implies(0 <= r and r < self.num_reactions, rxn_array[r] == pend(self, r, 0)))', label='head')
    c.ensures('forall(lambda r: implies(r >= self.num_reactions, rxn_array[r] == old(rxn_array[r])))', label='frame-tail')
    c.modifies('rxn_array')


@fuc('simulator', Q + '.advance_time', props=['C20', 'C10'])
def _(c):
    _q(c)
    c.requires('wf_queue(self)')
    c.loop(0).invariant('forall(lambda r, m: implies(0 <= r and r < self.num_reactions and 0 <= m and m < self.num_cols, '
                        'select(self.queue, r, m) == ite(m == self.start_index and r < i, 0.0, old(select(self.queue, r, m)))))')
    c.ensures('forall(lambda r, k: implies(in_view(self, r, k) and k < self.num_cols - 1, '
              'pend(self, r, k) == old(pend(self, r, k + 1))))', label='shift')
    c.ensures('forall(lambda r: implies(0 <= r and r < self.num_reactions, pend(self, r, self.num_cols - 1) == 0.0))',
              label='new-last-empty')
    c.ensures('self.next_queue_time == old(self.next_queue_time) + self.dt', label='clock')
    c.ensures('wf_queue(self)', label='wf')
    c.modifies('self.queue', 'self.next_queue_time', 'self.start_index')
