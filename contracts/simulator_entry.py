"""Contracts: py_simulate_model over the whole option lattice (C07), on concrete model shapes.

stochastic, delay, safe, return_dataframe are symbolic booleans (every combination is a path of the symbolic execution); the
volume argument and Model-vs-Interface are contract variants.  Callee simulators are used through their contracts."""
from bsvc.contracts import Contract, fuc, field_hint
from bsvc import contracts as C, speclib, terms as tm
from bsvc.terms import REAL, INT, BOOL
from bsvc.values import Arr, Obj, to_term
from spec.dep_stubs import DataFrameVal
from contracts import simulator_ssa, simulator_delay, simulator_volume      # noqa: callee contracts

field_hint('Model.update_array', ndim=2, elem=REAL)
field_hint('Model.delay_update_array', ndim=2, elem=REAL)
field_hint('Model.species_values', ndim=1, elem=REAL)
field_hint('Model.params_values', ndim=1, elem=REAL)


def _result_builder(cls, with_volume=False, with_queue=False):
    def build(ex, fr):
        k = ex.program.find_class(cls)
        o = Obj(k, k.name, symbolic=True, exact=True, name='res_' + cls)
        o.ref = ex.fresh('res_ref', INT)
        tp = fr.env['timepoints']
        sim = fr.env['sim']
        nsp = ex.get_field(sim, 'num_species') if isinstance(sim, Obj) else None
        rows = tp.shape[0]
        if with_volume:
            # the result may be cut at division: rows <= len(timepoints); its own (copied) time axis has `rows` entries
            rows = ex.fresh('rows', INT)
            ex.assume_fact(tm.and_(tm.ge(rows, tm.mk_int(0)), tm.le(rows, to_term(tp.shape[0]))))
            tpa = ex.symbolic_array('res_time', 1, REAL, 'ndarray')
            ex.assume_fact(tm.eq(to_term(tpa.shape[0]), rows))
            o.fields['timepoints'] = tpa
            vol = ex.symbolic_array('res_volume', 1, REAL, 'ndarray')
            ex.assume_fact(tm.eq(to_term(vol.shape[0]), rows))
            o.fields['volume'] = vol
            o.fields['cell_divided_flag'] = ex.fresh('divided', INT)
            o.fields['volume_object'] = fr.env.get('v')
        else:
            o.fields['timepoints'] = tp
        res = ex.symbolic_array('res_rows', 2, REAL, 'ndarray')
        ex.assume_fact(tm.eq(to_term(res.shape[0]), to_term(rows)))
        if nsp is not None:
            ex.assume_fact(tm.eq(to_term(res.shape[1]), to_term(nsp)))
        o.fields['simulation_result'] = res
        if with_queue:
            o.fields['final_delay_queue'] = fr.env.get('q')
        return o
    return build


C.lookup('simulator', 'SSASimulator.simulate').opt(use_on_concrete=True, result=_result_builder('SSAResult'))
C.lookup('simulator', 'DelaySSASimulator.delay_simulate').opt(use_on_concrete=True, result=_result_builder('DelaySSAResult', with_queue=True))
C.lookup('simulator', 'VolumeSSASimulator.volume_simulate').opt(use_on_concrete=True, result=_result_builder('VolumeSSAResult', with_volume=True))


@fuc('simulator', 'DeterministicSimulator._helper_simulate', props=['C07', 'C04'])
def _(c):
    # summary used at call sites from the entry point (the body is verified under the '' variant in simulator_deterministic)
    c.abstract = True
    c.verify_body = False
    c.opt(use_on_concrete=True, also_exact=True, result=_result_builder('SSAResult'))
    c.modifies()


@speclib.spec('is_frame')
def is_frame(ex, r):
    return isinstance(r, DataFrameVal)


@speclib.spec('frame_columns')
def frame_columns(ex, r):
    return list(r.order)


@speclib.spec('frame_column_is')
def frame_column_is(ex, r, name, arr):
    from bsvc import arrays
    v = r.extra.get(name)
    return isinstance(v, Arr) and isinstance(arr, Arr) and arrays.root_of(v) is arrays.root_of(arr)


@speclib.spec('frame_width')
def frame_width(ex, r):
    return r.data.shape[1]


@speclib.spec('frame_rows')
def frame_rows(ex, r):
    return r.data.shape[0]


@speclib.spec('species_in_order')
def species_in_order(ex, model):
    d = model.fields['species2index']
    out = [None] * len(d)
    for s, i in d.items():
        out[ex.concrete_int(i)] = s
    return out


MODEL = dict(species=['Z', 'X', 'Y'],
             reactions=[(['X'], ['Y'], 'massaction', {'k': 1.0}),
                        (['Y'], [], 'massaction', {'k': 0.5}, 'fixed', [], ['Z'], {'delay': 2.0})],
             rules=[('additive', {'equation': 'Z = X + Y'})],
             initial_condition_dict={'X': 10, 'Y': 0, 'Z': 0})


def entry_contract(variant, volume_kind, via_interface):
    c = Contract('simulator', 'py_simulate_model', ['C07'], variant=variant)
    c.array('timepoints', ndim=1, elem='Real')
    for b in ('stochastic', 'delay', 'safe', 'return_dataframe'):
        c.hints[b] = dict(sort=BOOL)
    c.hints['Model'] = dict(value=None)
    c.hints['Interface'] = dict(value=None)
    c.hints['volume'] = dict(value=None)

    def setup(ex, fr):
        ex.force_inline = True
        try:
            M = ex.instantiate(ex.program.find_class('Model'), [], dict(MODEL))
            fr.env['M'] = M
            if via_interface:
                fr.env['Interface'] = ex.instantiate(ex.program.find_class('ModelCSimInterface'), [M], {})
                fr.env['Model'] = None
            else:
                fr.env['Model'] = M
            if volume_kind == 'object':
                v = ex.instantiate(ex.program.find_class('Volume'), [], {})
                ex.call_method(v, ex.program.find_method(v.cls, 'py_set_volume'), [tm.mk_real(2)], {})
                fr.env['volume'] = v
            elif volume_kind == 'number':
                vv = ex.fresh('vol', REAL)
                ex.assume(tm.gt(vv, tm.mk_real(0)))
                fr.env['volume'] = vv
            else:
                fr.env['volume'] = (volume_kind == 'True')
        finally:
            ex.force_inline = False
    c.setup(setup)
    c.requires('len(timepoints) >= 2 and timepoints[1] > timepoints[0] and timepoints[0] == 0')      # grids starting at the initial time 0 (statement)
    uses_volume = '(stochastic or delay)' if volume_kind != 'False' else 'False'
    # with a pre-built interface and no Model the frame cannot carry names (documented: a warning is issued); then the claim is
    # one data column per species plus the time (and volume) columns
    cols = 'species_in_order(M)' if not via_interface else '[]'
    c.ensures('implies(return_dataframe, frame_width(result) == 3)', label='one-data-column-per-species')
    c.ensures('implies(return_dataframe, is_frame(result))', label='frame-when-asked')
    c.ensures('implies(return_dataframe and not (%s), frame_columns(result) == %s + ["time"])' % (uses_volume, cols), label='columns-in-model-order-plus-time')
    c.ensures('implies(return_dataframe and (%s), frame_columns(result) == %s + ["time", "volume"])' % (uses_volume, cols), label='columns-plus-volume')
    c.ensures('implies(return_dataframe and not (%s), frame_column_is(result, "time", timepoints) and frame_rows(result) == len(timepoints))' % uses_volume,
              label='time-axis-is-the-request-one-row-per-point')
    c.ensures('implies(not return_dataframe and not (%s), same_array(result.timepoints, timepoints) and '
              'result.simulation_result.shape[0] == len(timepoints) and result.simulation_result.shape[1] == 3)' % uses_volume,
              label='result-object-complete')
    c.ensures('implies(not return_dataframe and (%s), result.simulation_result.shape[0] == result.timepoints.shape[0] and '
              'result.simulation_result.shape[0] == result.volume.shape[0] and result.simulation_result.shape[1] == 3)' % uses_volume,
              label='volume-result-aligned')
    c.opt(verify_only=True)
    C.REGISTRY[c.key] = c
    C.ORDER.append(c.key)


for vk in ('False', 'True', 'number', 'object'):
    for via in (False, True):
        entry_contract('volume=%s,%s' % (vk, 'interface' if via else 'model'), vk, via)


def neither_contract():
    c = Contract('simulator', 'py_simulate_model', ['C07'], variant='neither-model-nor-interface')
    c.array('timepoints', ndim=1, elem='Real')
    for b in ('stochastic', 'delay', 'safe', 'return_dataframe'):
        c.hints[b] = dict(sort=BOOL)
    for nm in ('Model', 'Interface'):
        c.hints[nm] = dict(value=None)
    c.hints['volume'] = dict(value=False)
    c.raises('ValueError')
    c.ensures('False', label='explicit-option-error')
    c.opt(verify_only=True)
    C.REGISTRY[c.key] = c
    C.ORDER.append(c.key)


neither_contract()

from contracts import simulator_delayvolume as _dv      # noqa
C.lookup('simulator', 'DelayVolumeSSASimulator.delay_volume_simulate').opt(
    use_on_concrete=True, result=_result_builder('DelayVolumeSSAResult', with_volume=True, with_queue=True))
