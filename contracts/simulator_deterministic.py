"""Contracts: deterministic simulation (C04): what bioscrape hands to, and takes from, scipy.integrate.odeint.  The integrator's
accuracy is an assumed contract on the dependency (DESIGN 4.4); proved here: the right-hand side is (U + D) x rate of the
rule-updated state (via C03), x0 is a copy of the initial condition, the requested time points are passed unchanged, rules are
re-applied to every output row, a failed integration is reported as all-NaN, never as numbers."""
from bsvc.contracts import fuc, Contract
from bsvc import contracts as C, speclib, terms as tm, arrays
from bsvc.terms import REAL, INT, BOOL
from bsvc.values import Arr, Obj, FuncRef, to_term

from bsvc import axioms
PROPS = ['C04', 'C08']
I = 'CSimInterface.'
AS = tm.ArraySort(INT, REAL)


# pvh(sim, y, T, p0, m): the interface parameter vector before the rules are re-applied to output row m
# (parameters are reset to p0 once; rules that assign parameters then act row after row)
def _pvh_ax(t, ctx):
    sim, y, T_, p0, m = t.args[1:6]
    prev = tm.app('pvh', (sim, y, T_, p0, tm.sub(m, tm.mk_int(1))), AS)
    step = tm.app('rules_params', (sim, tm.select(y, tm.sub(m, tm.mk_int(1))), prev, tm.select(T_, tm.sub(m, tm.mk_int(1))), tm.mk_int(1)), AS)
    return [tm.implies(tm.le(m, tm.mk_int(0)), tm.eq(t, p0)), tm.implies(tm.gt(m, tm.mk_int(0)), tm.eq(t, step))]


axioms.register('pvh', _pvh_ax, 'pvh(..,0)=p0; pvh(..,m)=rules_params(sim, y[m-1], pvh(..,m-1), T[m-1], 1)')


@speclib.spec('pvh')
def pvh(ex, sim, y, T_, p0, m):
    return tm.app('pvh', (sim.ref, y if not isinstance(y, Arr) else y.term, T_.term if isinstance(T_, Arr) else T_,
                          p0.term if isinstance(p0, Arr) else p0, to_term(m)), AS)


@fuc('simulator', I + 'calculate_deterministic_derivative', props=PROPS)
def _(c):
    c.abstract = True
    c.verify_body = False
    c.ensures('arr(dxdt) == afun("ddt", self, old(arr(x)), ghost("pvals"), t)', label='derivative')
    c.modifies('dxdt[*]')
    c.note('abstract: the derivative is a function of (interface, state, parameters, time); it is (U+D) x rate by the C03 contracts')


@fuc('simulator', I + 'py_get_param_values', props=PROPS)
def _(c):
    c.abstract = True
    c.verify_body = False

    def res(ex, fr):
        g = ex.ghost.setdefault('g', {})
        if 'pvals' not in g:
            g['pvals'] = tm.var('ghost_pvals0', tm.ArraySort(INT, REAL))
        a = Arr(g['pvals'], [ex.fresh('pvals_len', INT)], REAL, 'ndarray', 'pvals')
        a.is_ghost_pvals = True
        return a
    c.opt(result=res)
    c.modifies()


@fuc('simulator', 'ModelCSimInterface.py_set_param_values', props=PROPS)
def _(c):
    c.abstract = True
    c.verify_body = False
    c.ensures('ghost("pvals") == arr(params)', label='parameters-replaced')
    c.modifies('ghost:pvals')
    c.opt(result_none=True)


@fuc('simulator', I + 'get_number_of_rules', props=PROPS)
def _(c):
    c.abstract = True
    c.verify_body = False
    c.ensures('result == ifun("nrules", self) and result >= 0')
    c.modifies()


@fuc('simulator', 'rhs_global', props=PROPS)
def _(c):
    c.array('state', ndim=1, elem='Real')

    def setup(ex, fr):
        sim = ex.symbolic_obj(ex.program.find_class('CSimInterface'), 'gsim', exact=False)
        buf = ex.symbolic_array('gbuf', 1, REAL, 'ndarray')
        g = ex.module_globals.setdefault('simulator', {})
        g['global_simulator'] = sim
        g['global_derivative_buffer'] = buf
        fr.env['gsim'] = sim
        fr.env['gbuf'] = buf
    c.setup(setup)
    c.requires('gsim.dt > 0 and len(state) >= gsim.num_species')
    RS = '(real(trunc(t / gsim.dt)) == t / gsim.dt)'
    c.ensures('same_array(result, gbuf)', label='returns-the-derivative-buffer')
    c.ensures('arr(gbuf) == afun("ddt", gsim, afun("rules_state", gsim, old(arr(state)), old(ghost("pvals")), t, ite(%s, 1, 0)), ghost("pvals"), t)' % RS,
              label='derivative-of-the-rule-updated-state')
    c.ensures('ghost("pvals") == afun("rules_params", gsim, old(arr(state)), old(ghost("pvals")), t, ite(%s, 1, 0))' % RS, label='rule-updated-parameters')


def helper_contract():
    c = Contract('simulator', 'DeterministicSimulator._helper_simulate', PROPS, variant='body')
    c.array('timepoints', ndim=1, elem='Real')
    c.hints['keywords'] = dict(value=lambda ex: {})

    def cself(ex, cls):
        ex.force_inline = True
        try:
            return ex.instantiate(cls, [], {})
        finally:
            ex.force_inline = False
    c.concrete_self = cself
    c.requires('wf_sim(sim) and len(timepoints) >= 1')
    c.loop(0).unroll_up_to(8)
    c.loop(1).invariant('forall(lambda m: implies(0 <= m and m < index, arr(results)[m] == afun("rules_state", sim, entry(arr(results), 1)[m], '
                        'pvh(sim, entry(arr(results), 1), timepoints, arr(p0), m), timepoints[m], 1)))', label='rows-done') \
             .invariant('ghost("pvals") == pvh(sim, entry(arr(results), 1), timepoints, arr(p0), index)', label='parameter-history') \
             .invariant('forall(lambda m: implies(m >= index, arr(results)[m] == entry(arr(results), 1)[m]))', label='rows-todo') \
             .also_modifies('results', 'ghost:pvals')

    def check(ex, fr, result):
        calls = ex.ghost.get('odeint_calls', [])
        ex.oblige('post', tm.mk_bool(len(calls) >= 1), label='integrator-called')
        sim = fr.env['sim']
        for k, cl in enumerate(calls):
            ex.oblige('post', tm.mk_bool(isinstance(cl['rhs'], FuncRef) and cl['rhs'].func.name == 'rhs_global'), label='rhs-is-rhs_global#%d' % k)
            init = ex.get_field(sim, 'initial_state')
            ex.oblige('post', tm.mk_bool(arrays.root_of(cl['x0']) is not arrays.root_of(init)), label='x0-is-a-copy#%d' % k,
                      note='the integrator works on a copy of the initial condition')
            ex.oblige('post', tm.eq(cl['x0_term'], ex.lazy_init[(sim.oid, 'initial_state')].term), label='x0-equals-initial-condition#%d' % k)
            ex.oblige('post', tm.mk_bool(arrays.root_of(cl['timepoints']) is arrays.root_of(fr.env['timepoints'])), label='requested-times-passed-unchanged#%d' % k)
            g = ex.module_globals.get('simulator', {})
            ex.oblige('post', tm.mk_bool(g.get('global_simulator') is sim), label='global-simulator-is-this-interface#%d' % k)
        if not isinstance(result, Obj):
            ex.oblige('post', tm.FALSE, label='returns-a-result')
            return
        ex.oblige('post', tm.mk_bool(arrays.root_of(result.fields.get('timepoints')) is arrays.root_of(fr.env['timepoints'])), label='time-axis-is-the-request')
        last = calls[-1]
        rows = result.fields.get('simulation_result')
        if getattr(rows, 'allnan', False):
            ex.oblige('post', tm.not_(last['ok']), label='all-nan-only-on-failure')
            # "solves the model's rate equations": giving up (an all-NaN result) is allowed only after the integrator was offered the FULL step
            # budget the simulator is configured with (self.mxstep) - seed C04-d never tried the last rung of the retry ladder
            mx = (last.get('kwargs') or {}).get('mxstep')
            budget = ex.get_field(fr.env['self'], 'mxstep')
            ok = mx is not None and budget is not None
            ex.oblige('post', tm.eq(to_term(mx), to_term(budget)) if ok else tm.FALSE, label='gives-up-only-after-the-full-step-budget',
                      note='last attempt ran with mxstep=%r, configured budget %r' % (mx, budget))
            return
        ex.oblige('post', last['ok'], label='numbers-only-on-success', note='a failed integration is never returned as finite numbers')
        m = ex.fresh('row', INT)
        nr = tm.app('nrules', (sim.ref,), INT)
        y = last['result_term']
        inr = tm.and_(tm.le(tm.mk_int(0), m), tm.lt(m, to_term(fr.env['timepoints'].shape[0])))
        p0 = calls[0]['kwargs'] and None
        p0t = ex.last_locals['p0'].term
        hist = tm.app('pvh', (sim.ref, y, fr.env['timepoints'].term, p0t, m), AS)
        with_rules = tm.eq(tm.select(rows.term, m), tm.app('rules_state', (sim.ref, tm.select(y, m), hist,
                                                                            tm.select(fr.env['timepoints'].term, m), tm.mk_int(1)), AS))
        without = tm.eq(tm.select(rows.term, m), tm.select(y, m))
        ex.oblige('post', tm.implies(inr, tm.ite(tm.gt(nr, tm.mk_int(0)), with_rules, without)), label='rows-are-integrator-output-with-rules-reapplied')
    c.after(check)
    c.opt(verify_only=True)
    C.REGISTRY[c.key] = c
    C.ORDER.append(c.key)


helper_contract()
