"""Contracts: Delay classes and ModelCSimInterface.compute_delay (C10)."""
from bsvc.contracts import fuc

PROPS = ['C10']


@fuc('types', 'Delay.get_delay', props=PROPS)
def _(c):
    c.abstract = True
    c.verify_body = False
    c.ensures('True')
    c.modifies('kappa')
    c.note('abstract: a delay is a function of (object, state, params) and of the random stream')


@fuc('types', 'NoDelay.get_delay', props=PROPS)
def _(c):
    c.ensures('result == 0.0', label='no-delay')
    c.modifies()


@fuc('types', 'FixedDelay.get_delay', props=PROPS)
def _(c):
    c.requires('self.delay_index < len(params)')
    c.ensures('result == params[self.delay_index]', label='fixed-value')
    c.modifies()


@fuc('types', 'GaussianDelay.get_delay', props=PROPS)
def _(c):
    c.requires('self.mean_index < len(params) and self.std_index < len(params)')
    c.requires('U(kappa()) > 0')
    c.ensures('result == sqrt_(-2 * ln(U(old(kappa())))) * ufun("cos", 2 * 3.141592653589793238462643383279502884 * U(old(kappa()) + 1)) '
              '* params[self.std_index] + params[self.mean_index]', label='gaussian(mean, std)')
    c.modifies('kappa')


@fuc('simulator', 'ModelCSimInterface.compute_delay', props=PROPS)
def _(c):
    c.requires('rxn_index < len(self.c_delays[0])')
    c.ensures('True')
    c.modifies('kappa')
    c.note('dispatches to the delay object of reaction rxn_index with the interface parameter vector (index in range is the obligation)')
