"""Contracts: DelayVolumeSSASimulator.delay_volume_simulate against R_dvol (C07, C10, C11, C06): race between the next reaction, the
delta clock of the volume and the delay queue; the step type decides which of the three happens; nothing happens on a pure
grid jump when no reaction can fire."""
from bsvc.contracts import fuc, field_hint
from bsvc.terms import REAL
from contracts import simulator_delay as _d, simulator_volume as _v      # noqa

XR = 'entry(c_current_state, 1)'
TH = 'head(c_timepoints[current_index])'
W = '(-ln(U(head(kappa()))) / Lambda)'
PROP = 'ite(Lambda == 0, %s, head(current_time) + %s)' % (TH, W)
NV = 'head(next_vol_time)'
NQ = 'head(q.next_queue_time)'
RXN = '(%s < %s and %s < %s)' % (PROP, NV, PROP, NQ)
VOL = '(not %s and %s < %s)' % (RXN, NV, NQ)
QUE = '(not %s and not %s)' % (RXN, VOL)
FIRE = '(%s and Lambda > 0)' % RXN


@fuc('simulator', 'DelayVolumeSSASimulator.delay_volume_simulate', props=['C07', 'C10', 'C11', 'C06', 'C09'])
def _(c):
    c.array('timepoints', ndim=1, elem='Real')
    c.hints['q'] = dict(cls='ArrayDelayQueue', exact=True)
    c.requires('wf_sim(sim) and wf_queue(q) and q.num_reactions == sim.num_reactions')
    c.requires('len(timepoints) >= 1')
    c.requires('sim.dt > 0 and timepoints[0] >= sim.initial_time and q.next_queue_time >= sim.initial_time and q.dt > 0')
    # the caller hands over a queue whose clock is the simulation clock (setup_queue starts it at time 0, as the interface does): see the invariant below
    c.requires('q.next_queue_time <= sim.initial_time + q.dt', label='queue-clock-starts-at-the-initial-time')
    c.assume('forall(lambda k: U(k) > 0)', 'uniform_rv() == 0 excluded')
    main = c.loop(0)
    main.also_modifies('kappa', 'ghost:pvals', 'c_current_state', 'c_propensity', 'c_results', 'c_volume_trace', 'c_delay_rxns',
                       'q.queue', 'q.next_queue_time', 'q.start_index', 'v.current_volume')
    main.invariant('current_index <= num_timepoints', label='index')
    main.invariant('num_species == sim.num_species and num_reactions == sim.num_reactions and len(c_timepoints) == num_timepoints '
                   'and len(c_volume_trace) == num_timepoints', label='sizes')
    main.invariant('wf_queue(q) and q.num_reactions == sim.num_reactions and q.dt == entry(q.dt, 0) and q.num_cols == entry(q.num_cols, 0)',
                   label='queue-wf')
    main.invariant('rule_step == 0 or rule_step == 1', label='rule-flag')
    main.invariant('cell_divided == 0', label='not-yet-divided')
    main.invariant('delta_t == sim.dt and current_time <= next_vol_time and next_vol_time <= current_time + delta_t', label='delta-clock-aligned-with-the-current-time')
    main.invariant('current_index == num_timepoints or c_timepoints[current_index] >= current_time', label='next-row-is-not-in-the-past')
    main.invariant('current_time <= q.next_queue_time', label='delay-queue-clock-is-not-in-the-past')
    # "at the firing time plus a delay, to the resolution of the time grid" (C10): the next delivery is never more than one slot ahead either
    main.invariant('q.next_queue_time <= current_time + q.dt', label='delay-queue-clock-is-the-simulation-clock')
    main.step('forall(lambda r: implies(0 <= r and r < num_reactions, c_propensity[r] == '
              'ufun("svprop", sim, r, %s, ghost("pvals"), head(current_volume), head(current_time))))' % XR, label='volume-scaled-propensities')
    main.step('Lambda == sum_(c_propensity, num_reactions)', label='total-propensity')
    main.step('current_time == ite(%s, %s, ite(%s, %s, %s))' % (RXN, PROP, VOL, NV, NQ), label='earliest-of-the-three-clocks')
    main.step('next_vol_time == ite(%s, %s + delta_t, %s)' % (VOL, NV, NV), label='delta-clock-advances-only-when-it-fires')
    main.step('implies(%s, current_volume == head(current_volume) + ufun("vstep", v, c_current_state, ghost("pvals"), current_time, '
              'head(current_volume), delta_t))' % VOL, label='volume-step-when-the-clock-fires')
    main.step('implies(not %s, current_volume == head(current_volume))' % VOL, label='no-volume-step-otherwise')
    main.step('implies(%s, 0 <= reaction_choice and reaction_choice < num_reactions and '
              'sum_(c_propensity, reaction_choice) < U(head(kappa()) + 1) * Lambda and '
              'U(head(kappa()) + 1) * Lambda <= sum_(c_propensity, reaction_choice + 1))' % FIRE, label='selection-interval')
    DEL = 'ufun("delay_of", sim, reaction_choice, %s, ghost("pvals"), head(kappa()) + 2)' % XR
    main.step('implies(%s and %s > 0, forall(lambda s: implies(0 <= s and s < num_species, c_current_state[s] == %s[s] + '
              'sim.update_array[s, reaction_choice])) and forall(lambda r, k: implies(in_view(q, r, k), pend(q, r, k) == head(pend(q, r, k)) + '
              'ite(r == reaction_choice and k == slot_of(q, current_time + %s), 1.0, 0.0))))' % (FIRE, DEL, XR, DEL),
              label='firing-queues-the-delayed-part-once')
    main.step('implies(%s and not %s > 0, forall(lambda s: implies(0 <= s and s < num_species, c_current_state[s] == %s[s] + '
              'sim.update_array[s, reaction_choice] + sim.delay_update_array[s, reaction_choice])))' % (FIRE, DEL, XR),
              label='non-positive-delay-acts-as-zero-delay')
    main.step('implies(%s, forall(lambda s: implies(0 <= s and s < num_species, c_current_state[s] == %s[s] + '
              'lin(c_delay_rxns, sim.delay_update_array, s, num_reactions))) and '
              'forall(lambda r: implies(0 <= r and r < num_reactions, c_delay_rxns[r] == head(pend(q, r, 0)))) and '
              'q.next_queue_time == %s + q.dt)' % (QUE, XR, NQ), label='delivery-applies-the-head-slot-and-advances-once')
    main.step('implies(not %s and not %s, forall(lambda s: implies(0 <= s and s < num_species, c_current_state[s] == %s[s])))' % (FIRE, QUE, XR),
              label='no-event-no-change')
    main.step('implies(not %s, forall(lambda r, k: implies(in_view(q, r, k), pend(q, r, k) == head(pend(q, r, k)))) or %s)' % (QUE, FIRE),
              label='queue-untouched-unless-delivery-or-firing')
    # C09: a dt / ode rule runs exactly once per elapsed delta step: the next pass is a rule step iff the delta (volume) clock fired
    main.step('rule_step == ite(step_type == 1, 1, 0)', label='rule-step-exactly-when-the-delta-clock-fires')
    # C11: after every volume step the volume model is asked; the loop goes on only without a reported division and is left early only on one, flagged
    DIV = 'ifun("vdivided", v, c_current_state, ghost("pvals"), current_time, current_volume, delta_t)'
    main.step('implies(%s, %s == 0)' % (VOL, DIV), label='the-loop-goes-on-after-a-volume-step-only-if-no-division-was-reported')
    main.at_break('cell_divided == 1 and %s == 1' % DIV, label='left-early-only-on-a-reported-division-and-flagged')
    main.step('forall(lambda m, s: implies(head(current_index) <= m and m < current_index and 0 <= s and s < num_species, '
              'c_results[m, s] == %s[s]))' % XR, label='rows-get-the-pre-event-state')
    main.step('forall(lambda m, s: implies((m < head(current_index) or m >= current_index), c_results[m, s] == head(c_results[m, s])))',
              label='earlier-rows-frozen')
    rec = c.loop(1)
    rec.invariant('entry(current_index, 1) <= current_index and current_index <= num_timepoints', label='index')
    rec.invariant('forall(lambda m, s: implies(entry(current_index, 1) <= m and m < current_index and 0 <= s and s < num_species, '
                  'c_results[m, s] == c_current_state[s]))', label='rows')
    rec.invariant('forall(lambda m, s: implies(m < entry(current_index, 1) or m >= current_index, c_results[m, s] == entry(c_results[m, s], 1)))',
                  label='frozen')
    cp = c.loop(2)
    cp.invariant('forall(lambda s: implies(0 <= s and s < species_index, c_results[current_index, s] == c_current_state[s]))', label='copied')
    cp.invariant('forall(lambda m, s: implies(m != current_index or s >= species_index, c_results[m, s] == entry(c_results[m, s], 2)))', label='rest')
    u1 = c.loop(3)
    u1.invariant('forall(lambda s: implies(0 <= s and s < species_index, c_current_state[s] == entry(c_current_state[s], 3) + '
                 'c_stoich[s, reaction_choice]))', label='updated')
    u1.invariant('forall(lambda s: implies(s >= species_index, c_current_state[s] == entry(c_current_state[s], 3)))', label='rest')
    u2 = c.loop(4)
    u2.invariant('forall(lambda s: implies(0 <= s and s < species_index, c_current_state[s] == entry(c_current_state[s], 4) + '
                 'c_delay_stoich[s, reaction_choice]))', label='updated')
    u2.invariant('forall(lambda s: implies(s >= species_index, c_current_state[s] == entry(c_current_state[s], 4)))', label='rest')
    dl = c.loop(5)
    dl.invariant('forall(lambda s: implies(0 <= s and s < num_species, c_current_state[s] == entry(c_current_state[s], 5) + '
                 'lin(c_delay_rxns, c_delay_stoich, s, reaction_index)))', label='delivered')
    dl.invariant('forall(lambda s: implies(s < 0 or s >= num_species, c_current_state[s] == entry(c_current_state[s], 5)))', label='rest')
    di = c.loop(6)
    di.invariant('forall(lambda s: implies(0 <= s and s < species_index, c_current_state[s] == entry(c_current_state[s], 5) + '
                 'lin(c_delay_rxns, c_delay_stoich, s, reaction_index + 1)))', label='done')
    di.invariant('forall(lambda s: implies(species_index <= s and s < num_species, c_current_state[s] == entry(c_current_state[s], 5) + '
                 'lin(c_delay_rxns, c_delay_stoich, s, reaction_index)))', label='todo')
    di.invariant('forall(lambda s: implies(s < 0 or s >= num_species, c_current_state[s] == entry(c_current_state[s], 5)))', label='rest')
    c.ensures('result.simulation_result.shape[0] == result.volume.shape[0] and result.simulation_result.shape[0] == result.timepoints.shape[0]',
              label='rows-volume-time-aligned')
    c.ensures('implies(result.cell_divided_flag == 0, result.simulation_result.shape[0] == len(timepoints))', label='all-rows-unless-divided')
    c.ensures('result.simulation_result.shape[1] == sim.num_species', label='one-column-per-species')
    c.ensures('arr(sim.initial_state) == old(arr(sim.initial_state))', label='initial-condition-untouched')
    c.ensures('arr(sim.update_array) == old(arr(sim.update_array)) and arr(sim.delay_update_array) == old(arr(sim.delay_update_array))',
              label='model-stoichiometry-untouched')
    c.opt(result_class='DelayVolumeSSAResult')
