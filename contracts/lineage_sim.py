"""Contracts: lineage/lineage.pyx :: LineageSSASimulator.SimulateSingleCell, simulate_daughter_cells, simulate_cell_list;
LineageCSimInterface.partition (dispatch to the splitter of the rule / event that divided the cell) (C19).

Abstract contracts of the LineageCSimInterface virtual methods the single-cell loop calls (uninterpreted functions of their
arguments; pinned per rule / event class elsewhere or left abstract - listed as assumed in evidence):
  lprop(iface, j, x, p, V, t) >= 0   lineage propensity vector (reactions, volume events, division events, death events)
  deathrule / divrule (iface, x, p, V, t, V0, t0) in [-1, number of rules)
  vrules_volume(iface, x, p, V, t, dt), vevent_volume(iface, k, x, p, V, t)
"""
from bsvc.contracts import fuc, field_hint
from bsvc import terms as tm
from bsvc.terms import REAL, INT
from bsvc.values import Arr, Obj

PROPS = ['C19', 'C09']
L = 'LineageCSimInterface.'

field_hint('CellState.state', ndim=1, elem=REAL)
field_hint('SingleCellSSAResult.timepoints', ndim=1, elem=REAL)
field_hint('SingleCellSSAResult.simulation_result', ndim=2, elem=REAL)
field_hint('SingleCellSSAResult.volume', ndim=1, elem=REAL)


@fuc('lineage', L + 'compute_lineage_propensities', props=PROPS)
def _(c):
    c.abstract = True
    c.verify_body = False
    c.requires('len(state) >= self.num_species')
    c.ensures('forall(lambda j: implies(0 <= j and j < self.num_reactions + self.num_lineage_propensities, propensity_destination[j] == '
              'ufun("lprop", self, j, state, ghost("pvals"), volume, time) and propensity_destination[j] >= 0))', label='values')
    c.modifies('propensity_destination[*]')
    c.note('abstract: propensities are non-negative functions of (interface, index, state, parameters, volume, time) (C01 for the classes)')


def rule_index(method, fname, count):
    @fuc('lineage', L + method, props=PROPS)
    def _(c):
        c.abstract = True
        c.verify_body = False
        c.ensures('-1 <= result and result < self.%s' % count, label='index-of-the-first-rule-that-fires-or--1')
        c.defines('result == ifun("%s", self, state, ghost("pvals"), volume, time, start_volume, start_time, old(kappa()))' % fname)
        c.modifies('kappa')       # rules with a noise term draw from the random stream


rule_index('apply_death_rules', 'deathrule', 'num_death_rules')
rule_index('apply_division_rules', 'divrule', 'num_division_rules')


@fuc('lineage', L + 'apply_volume_rules', props=PROPS)
def _(c):
    c.abstract = True
    c.verify_body = False
    c.defines('result == ufun("vrules_volume", self, state, ghost("pvals"), volume, time, dt, real(old(kappa())))')
    c.modifies('kappa')       # growth rules with a noise term draw from the random stream


@fuc('lineage', L + 'apply_volume_event', props=PROPS)
def _(c):
    c.abstract = True
    c.verify_body = False
    c.ensures('result == ufun("vevent_volume", self, event_index, state, ghost("pvals"), current_volume, current_time)')
    c.modifies()


# ------------------------------------------------------------------------------------------------ dispatch of the splitter
NR, NE = 2, 3


def _splitters(ex, kind, n):
    cls = ex.program.find_class('VolumeSplitter')
    out = [ex.symbolic_obj(cls, '%s_splitter%d' % (kind, i), exact=False) for i in range(n)]
    ex.frame.env['_%s_splitters' % kind] = out
    return out


@fuc('lineage', L + 'partition', props=PROPS)
def _(c):
    c.hints['self.division_event_volume_splitters'] = dict(value=lambda ex: _splitters(ex, 'event', NE))
    c.hints['self.division_rule_volume_splitters'] = dict(value=lambda ex: _splitters(ex, 'rule', NR))
    c.requires('self.num_division_rules == %d and self.num_division_events == %d' % (NR, NE))
    c.raises('ValueError', when='vsplit_ind < 0 or vsplit_ind >= self.num_division_rules + self.num_division_events')

    def check(ex, fr, result):
        from bsvc.values import to_term
        self_obj = fr.env['self']
        ev = ex.get_field(self_obj, 'division_event_volume_splitters')
        ru = ex.get_field(self_obj, 'division_rule_volume_splitters')
        code = to_term(ex.old_env['vsplit_ind']) if 'vsplit_ind' in ex.old_env else to_term(fr.env['vsplit_ind'])
        recs = [r for r in ex.ghost.get('partitions', []) if r['result'] is result]
        ok = len(recs) == 1
        ex.oblige('post', tm.mk_bool(ok), label='daughters-come-from-one-splitter-call')
        if not ok:
            return
        rec = recs[0]
        ex.oblige('post', tm.mk_bool(rec['parent'] is fr.env['parent']), label='the-mother-is-partitioned')
        for k in range(NR):
            ex.oblige('post', tm.implies(tm.eq(code, tm.mk_int(k)), tm.mk_bool(rec['splitter'] is ru[k])), label='division-rule-%d-uses-its-own-splitter' % k)
        for k in range(NE):
            ex.oblige('post', tm.implies(tm.eq(code, tm.mk_int(NR + k)), tm.mk_bool(rec['splitter'] is ev[k])), label='division-event-%d-uses-its-own-splitter' % k)
    c.after(check)
    c.opt(result=lambda ex, fr: _abstract_partition(ex, fr))      # at call sites: two fresh daughters of `parent` (ghost record; the splitter is the one named by the code)
    c.note('shape: 2 division rules, 3 division events (distinct splitter objects); partition_of(splitter, parent) is the abstract result of VolumeSplitter.partition')


def _abstract_partition(ex, fr):
    """two fresh daughter cell states; which splitter produced them from which mother is recorded in a ghost list"""
    from bsvc.values import to_term
    parent, me = fr.env['parent'], fr.env['self']
    cls = ex.program.find_class('LineageVolumeCellState')
    ds = []
    for nm in ('daughter_d', 'daughter_e'):
        d = ex.symbolic_obj(cls, nm, exact=True)
        st = ex.symbolic_array(nm + '_state', 1, REAL, 'ndarray')
        d.fields['state'] = st
        d.fields['state_set'] = 1
        pst = ex.get_field(parent, 'state')
        if isinstance(pst, Arr):
            ex.assume_fact(tm.eq(to_term(st.shape[0]), to_term(pst.shape[0])))
        ex.assume_fact(tm.eq(to_term(ex.get_field(d, 'time')), to_term(ex.get_field(parent, 'time'))))
        ex.assume_fact(tm.eq(to_term(ex.get_field(d, 'initial_time')), to_term(ex.get_field(parent, 'time'))))
        ex.assume_fact(tm.implies(tm.gt(to_term(ex.get_field(parent, 'volume')), tm.mk_real(0)), tm.gt(to_term(ex.get_field(d, 'volume')), tm.mk_real(0))))
        ds.append(d)
    arr = Arr(ex.fresh('daughters', tm.ArraySort(INT, INT)), [2], INT, 'ndarray', 'daughters')
    arr.objs = ds
    ex.ghost.setdefault('partitions', []).append(dict(splitter=me, parent=parent, daughters=ds, result=arr))
    return arr


@fuc('simulator', 'VolumeSplitter.partition', props=PROPS)
def _(c):
    c.abstract = True
    c.verify_body = False
    c.opt(result=_abstract_partition)
    c.modifies('kappa')
    c.note('abstract at dispatch sites: two fresh daughter states that start at the mother\'s time with as many species and positive volume '
           '(the per-class contracts in contracts/splitters.py prove this and the conservation clauses); which splitter partitioned which mother is a ghost record')


# ------------------------------------------------------------------------------------------------ the single-cell loop
WF_SIM = ('self.num_species == self.interface.num_species and self.num_reactions == self.interface.num_reactions and '
          'self.num_propensities == self.num_reactions + self.num_volume_events + self.num_death_events + self.num_division_events and '
          'self.interface.num_lineage_propensities == self.num_volume_events + self.num_death_events + self.num_division_events and '
          'self.num_division_rules == self.interface.num_division_rules and self.num_death_rules == self.interface.num_death_rules and '
          'len(self.c_propensity) >= self.num_propensities and self.c_stoich.shape[0] == self.num_species and self.c_stoich.shape[1] == self.num_reactions')


@fuc('lineage', 'LineageSSASimulator.SimulateSingleCell', props=PROPS)
def _(c):
    c.array('timepoints', ndim=1, elem='Real')
    c.hints['mode'] = dict(value=1)
    c.hints['v.state_set'] = dict(value=1)
    c.requires(WF_SIM)
    c.requires('mode == 1')
    c.requires('len(timepoints) >= 2 and timepoints[0] <= timepoints[len(timepoints) - 1] and timepoints[1] > timepoints[0]')
    c.requires('forall(lambda j: implies(0 <= j and j < len(timepoints) - 1, timepoints[j] <= timepoints[j + 1]))')
    c.requires('v.volume > 0 and len(v.state) == self.num_species')      # the cell state carries a state vector (v.state_set == 1: hint)
    c.assume('forall(lambda k: U(k) > 0)', 'uniform_rv() == 0 excluded')
    main = c.loop(2)
    main.also_modifies('kappa', 'ghost:pvals', 'self.c_current_state', 'self.c_propensity', 'self.c_results', 'self.c_volume_trace', 'self.interface.c_param_values')
    main.invariant('current_index <= num_timepoints and num_timepoints == len(timepoints) and len(self.c_volume_trace) == num_timepoints and '
                   'self.c_results.shape[0] == num_timepoints and self.c_results.shape[1] == self.num_species and len(self.c_current_state) == self.num_species',
                   label='sizes')
    main.invariant(WF_SIM, label='wf')
    main.invariant('current_volume > 0', label='volume-positive')
    main.invariant('final_time == timepoints[num_timepoints - 1]', label='final-time')
    main.invariant('cell_divided == -1 and cell_dead == -1', label='alive-at-the-loop-head')
    main.invariant('rule_step == 0 or rule_step == 1', label='rule-flag')
    main.invariant('forall(lambda m: implies(0 <= m and m < current_index, self.c_volume_trace[m] > 0))', label='recorded-rows-have-positive-volume')
    # ---- C09 for lineage cells: the rules see the grid step, run first, once per elapsed step
    main.invariant('delta_t == timepoints[1] - timepoints[0] and self.interface.dt == delta_t', label='rules-use-the-grid-step')
    XR = 'entry(self.c_current_state, 3)'
    main.step('arr(%s) == vrfoldS(self.interface.c_repeat_rules[0], len(self.interface.c_repeat_rules[0]), head(arr(self.c_current_state), 2), '
              'head(arr(self.interface.c_param_values), 2), head(current_volume, 2), head(current_time, 2), delta_t, real(head(rule_step, 2)))' % XR,
              label='rules-first-in-declaration-order-with-the-grid-step')
    main.step('forall(lambda m, s: implies(head(current_index, 2) <= m and m < current_index and 0 <= s and s < self.num_species, '
              'self.c_results[m, s] == %s[s]))' % XR, label='rows-get-the-rule-updated-pre-event-state')
    main.step('rule_step == ite(move_to_queued_time == 1, 1, 0)', label='rule-step-flag')
    # a code in the rule range comes from a pass of the loop that stopped at the rule checks: nothing was sampled in that pass
    NOSAMPLE = '(reaction_choice == head(reaction_choice, 2) and Lambda == head(Lambda, 2) and current_time == head(current_time, 2))'
    EV = '(reaction_choice - self.num_reactions - self.num_volume_events)'
    main.at_break('(cell_divided >= 0 or cell_dead >= 0) and not (cell_divided >= 0 and cell_dead >= 0)', label='exactly-one-of-division-and-death')
    main.at_break('-1 <= cell_divided and cell_divided < self.num_division_rules + self.num_division_events', label='division-code-range')
    main.at_break('implies(0 <= cell_divided and cell_divided < self.num_division_rules, %s)' % NOSAMPLE,
                  label='a-code-below-the-number-of-division-rules-comes-from-the-rule-checks-not-from-a-sampled-event')
    main.at_break('implies(cell_divided >= self.num_division_rules, cell_divided - self.num_division_rules == %s and 0 <= %s and %s < self.num_division_events '
                  'and self.c_propensity[reaction_choice] > 0)' % (EV, EV, EV), label='a-higher-code-is-the-sampled-division-event')
    main.at_break('implies(0 <= cell_dead and cell_dead < self.num_death_rules, %s)' % NOSAMPLE,
                  label='a-code-below-the-number-of-death-rules-comes-from-the-rule-checks-not-from-a-sampled-event')
    main.at_break('implies(cell_dead >= self.num_death_rules, cell_dead - self.num_death_rules == %s - self.num_division_events and %s >= self.num_division_events '
                  'and self.c_propensity[reaction_choice] > 0)' % (EV, EV), label='a-higher-code-is-the-sampled-death-event')
    rec = c.loop(3)
    rec.invariant('entry(current_index, 3) <= current_index and current_index <= num_timepoints', label='index')
    rec.invariant('forall(lambda m: implies(entry(current_index, 3) <= m and m < current_index, timepoints[m] <= current_time))', label='recorded-rows-are-due')
    rec.invariant('forall(lambda m: implies(0 <= m and m < current_index, self.c_volume_trace[m] > 0))', label='recorded-rows-have-positive-volume')
    rec.invariant('len(self.c_volume_trace) == num_timepoints and self.c_results.shape[0] == num_timepoints and self.c_results.shape[1] == self.num_species', label='sizes')
    rec.invariant('forall(lambda m, s: implies(entry(current_index, 3) <= m and m < current_index and 0 <= s and s < self.num_species, '
                  'self.c_results[m, s] == self.c_current_state[s]))', label='rows')
    cp = c.loop(4)
    cp.invariant('self.c_results.shape[0] == num_timepoints and self.c_results.shape[1] == self.num_species', label='sizes')
    cp.invariant('forall(lambda s: implies(0 <= s and s < species_index, self.c_results[current_index, s] == self.c_current_state[s]))', label='copied')
    cp.invariant('forall(lambda m, s: implies(m != current_index or s >= species_index, self.c_results[m, s] == entry(self.c_results[m, s], 4)))', label='rest')
    up = c.loop(5)
    up.invariant('len(self.c_current_state) == self.num_species', label='sizes')
    ps = c.loop(6)
    ps.invariant('self.c_results.shape[0] == num_timepoints and self.c_results.shape[1] == self.num_species', label='sizes')
    c.ensures('len(result.volume) == len(result.timepoints) and result.simulation_result.shape[0] == len(result.volume)', label='rows-volume-time-aligned')
    c.ensures('len(result.volume) >= 1', label='at-least-one-row')
    c.ensures('len(result.timepoints) <= len(timepoints) and forall(lambda m: implies(0 <= m and m < len(result.timepoints), result.timepoints[m] == old(timepoints[m])))',
              label='reported-times-are-a-prefix-of-the-requested-grid')
    c.ensures('result.simulation_result.shape[1] == self.num_species', label='one-column-per-species')
    c.ensures('forall(lambda m: implies(0 <= m and m < len(result.volume), result.volume[m] > 0))', label='every-reported-row-has-positive-volume')
    c.raises('ValueError')
    c.opt(result_class='SingleCellSSAResult')


# ------------------------------------------------------------------------------------------------ one division in the lineage
@fuc('types', 'Lineage.add_schnitz', props=PROPS)
def _(c):
    c.abstract = True
    c.verify_body = False
    c.opt(result=lambda ex, fr: ex.ghost.setdefault('lineage_added', []).append(fr.env['s']))
    c.modifies()
    c.note('abstract: appends the Schnitz to the lineage (recorded in a ghost list)')


def _objs(ex, clsname, base, n):
    cls = ex.program.find_class(clsname)
    return [ex.symbolic_obj(cls, '%s%d' % (base, i), exact=True) for i in range(n)]


@fuc('lineage', 'LineageSSASimulator.simulate_daughter_cells', props=PROPS)
def _(c):
    c.array('timepoints', ndim=1, elem='Real')
    c.hints['add_to_lineage'] = dict(value=1)
    c.hints['create_schnitzes'] = dict(value=1)
    c.hints['self.old_cell_states'] = dict(value=lambda ex: _objs(ex, 'LineageVolumeCellState', 'queued_state', 2))
    c.hints['self.old_schnitzes'] = dict(value=lambda ex: _objs(ex, 'Schnitz', 'queued_schnitz', 2))
    c.hints['self.d1.state_set'] = dict(value=1)
    c.hints['self.d2.state_set'] = dict(value=1)
    c.requires(WF_SIM)
    c.requires('len(timepoints) >= 2 and timepoints[0] <= timepoints[len(timepoints) - 1] and timepoints[1] > timepoints[0]')
    c.requires('forall(lambda j: implies(0 <= j and j < len(timepoints) - 1, timepoints[j] <= timepoints[j + 1]))')
    c.requires('self.d1.volume > 0 and len(self.d1.state) == self.num_species and self.d2.volume > 0 and len(self.d2.state) == self.num_species')
    c.assume('forall(lambda k: U(k) > 0)', 'uniform_rv() == 0 excluded')

    def check(ex, fr, result):
        me = fr.env['self']
        ocs, osz = ex.get_field(me, 'old_cell_states'), ex.get_field(me, 'old_schnitzes')
        s = ex.get_field(me, 's')
        ds1, ds2 = ex.get_field(me, 'daughter_schnitz1'), ex.get_field(me, 'daughter_schnitz2')
        f1, f2 = ex.get_field(me, 'd1final'), ex.get_field(me, 'd2final')
        ex.oblige('post', tm.mk_bool(len(ocs) == len(osz)), label='work-lists-stay-aligned',
                  note='old_cell_states has %d entries, old_schnitzes %d' % (len(ocs), len(osz)))
        pairs_ok = all((ocs[k] is f1 and osz[k] is ds1) or (ocs[k] is f2 and osz[k] is ds2) for k in range(2, min(len(ocs), len(osz))))
        ex.oblige('post', tm.mk_bool(pairs_ok), label='each-queued-state-is-paired-with-its-own-record')
        ok = isinstance(ds1, Obj) and isinstance(ds2, Obj) and ds1 is not ds2
        ex.oblige('post', tm.mk_bool(ok), label='two-daughter-records')
        if ok:
            ex.oblige('post', tm.mk_bool(ex.get_field(ds1, 'parent') is s and ex.get_field(ds2, 'parent') is s), label='daughters-point-to-the-mother')
            ex.oblige('post', tm.mk_bool(ex.get_field(s, 'daughter1') is ds1 and ex.get_field(s, 'daughter2') is ds2), label='mother-points-to-the-daughters')
            added = ex.ghost.get('lineage_added', [])
            ex.oblige('post', tm.mk_bool(len(added) == 2 and added[0] is ds1 and added[1] is ds2), label='both-daughters-added-to-the-lineage-once')
    c.after(check)
    c.raises('ValueError')


# ------------------------------------------------------------------------------------------------ bodies of the lineage interface
# (verify_only variants: the loops over the C pointer vectors are proved against the abstract symbols of the virtual rule /
#  event / propensity methods; the abstract contracts above stay in force at the call sites of the single-cell loop)
from bsvc.contracts import Contract
from bsvc import contracts as C


def _abstract(module, qualname, ensures, modifies=()):
    @fuc(module, qualname, props=PROPS)
    def _(c):
        c.abstract = True
        c.verify_body = False
        c.ensures(ensures)
        c.modifies(*modifies)
        c.note('abstract contract of a virtual lineage rule / event method: a function of its arguments')


_abstract('lineage', 'DeathRule.check_dead', 'result == ifun("check_dead", self, state, params, time, volume, initial_time, initial_volume, old(kappa()))', ('kappa',))
_abstract('lineage', 'DivisionRule.check_divide', 'result == ifun("check_divide", self, state, params, time, volume, initial_time, initial_volume, old(kappa()))', ('kappa',))
_abstract('lineage', 'VolumeRule.get_volume', 'result == ufun("rule_volume", self, state, params, volume, time, dt, real(old(kappa())))', ('kappa',))
_abstract('lineage', 'VolumeEvent.get_volume', 'result == ufun("event_volume", self, state, params, volume, time)')


def body(qualname, fn):
    c = Contract('lineage', L + qualname, PROPS, variant='body')
    fn(c)
    c.opt(verify_only=True)
    C.REGISTRY[c.key] = c
    C.ORDER.append(c.key)


def _props(c):
    c.requires('len(propensity_destination) >= self.num_reactions + self.num_lineage_propensities and len(self.c_propensities[0]) >= self.num_reactions '
               'and len(self.c_lineage_propensities[0]) >= self.num_lineage_propensities')
    R = 'ufun("rate_STOVOL", self.c_propensities[0][%s], state, self.c_param_values, volume, time)'
    E = 'ufun("rate_STOVOL", self.c_lineage_propensities[0][%s], state, self.c_param_values, volume, time)'
    c.loop(0).invariant('forall(lambda q: implies(0 <= q and q < ind, propensity_destination[q] == %s))' % (R % 'q'), label='reactions') \
             .invariant('forall(lambda q: implies(q >= ind, propensity_destination[q] == old(propensity_destination[q])))', label='rest')
    c.loop(1).invariant('forall(lambda q: implies(0 <= q and q < self.num_reactions, propensity_destination[q] == %s))' % (R % 'q'), label='reactions-kept') \
             .invariant('forall(lambda q: implies(0 <= q and q < ind, propensity_destination[self.num_reactions + q] == %s))' % (E % 'q'), label='events') \
             .invariant('forall(lambda q: implies(q >= self.num_reactions + ind, propensity_destination[q] == old(propensity_destination[q])))', label='rest')
    c.ensures('forall(lambda q: implies(0 <= q and q < self.num_reactions, propensity_destination[q] == %s))' % (R % 'q'),
              label='reactions-first-in-stochastic-volume-form')
    c.ensures('forall(lambda q: implies(0 <= q and q < self.num_lineage_propensities, propensity_destination[self.num_reactions + q] == %s))' % (E % 'q'),
              label='then-the-event-propensities-in-registration-order')
    c.modifies('propensity_destination')


body('compute_lineage_propensities', _props)


def _first(method, field, count, sym, callee):
    def f(c):
        c.requires('len(self.%s[0]) >= self.%s' % (field, count))
        # (a rule with a noise term draws from the random stream, so "the value rule q returns" depends on the stream position of its
        #  call; the contract states the scan structure: rules are asked in registration order and the first positive answer wins)
        c.loop(0).invariant('0 <= ind', label='scan-in-registration-order').also_modifies('kappa')
        c.ensures('-1 <= result and result < self.%s' % count, label='index-in-range')
        c.modifies('kappa')
    body(method, f)


_first('apply_death_rules', 'c_death_rules', 'num_death_rules', 'check_dead', 'check_dead')
_first('apply_division_rules', 'c_division_rules', 'num_division_rules', 'check_divide', 'check_divide')


def _vevent(c):
    c.requires('0 <= event_index and event_index < len(self.c_volume_events[0])')
    c.ensures('result == ufun("event_volume", self.c_volume_events[0][event_index], state, self.c_param_values, current_volume, current_time)',
              label='the-event-named-by-the-index')
    c.modifies()


body('apply_volume_event', _vevent)


# volume rules are chained: vfold(rules, 0, ..) = the volume at entry; vfold(rules, n, ..) = rule n-1 applied to vfold(rules, n-1, ..)
from bsvc import axioms, speclib
from bsvc.values import to_term

_I0, _I1 = tm.mk_int(0), tm.mk_int(1)


def _vfold_ax(t, ctx):
    rules, n, st, pa, v0, time, dt = t.args[1:8]
    prev = tm.app('vfold', (rules, tm.sub(n, _I1), st, pa, v0, time, dt), REAL)
    step = tm.app('rule_volume', (tm.select(rules, tm.sub(n, _I1)), st, pa, prev, time, dt), REAL)
    return [tm.implies(tm.le(n, _I0), tm.eq(t, v0)), tm.implies(tm.gt(n, _I0), tm.eq(t, step))]


axioms.register('vfold', _vfold_ax, 'vfold(rules,0,..,v,..)=v; vfold(rules,n,..)=rule_volume(rules[n-1], .., vfold(rules,n-1,..), ..)')


@speclib.spec('vfold')
def _vfold(ex, rules, n, st, pa, v0, time, dt):
    g = lambda a: a.term if isinstance(a, Arr) else to_term(a)
    return tm.app('vfold', (g(rules), to_term(n), g(st), g(pa), tm.to_real(to_term(v0)), tm.to_real(to_term(time)), tm.to_real(to_term(dt))), REAL)


def _vrules(c):
    c.requires('len(self.c_volume_rules[0]) >= self.num_volume_rules')
    # each rule sees the volume its predecessor returned (chained in registration order, with the dt it was given); a rule with a noise
    # term draws from the stream, so the chain is stated per step: the value after rule `ind-1` is that rule's answer to the value before
    c.loop(0).invariant('0 <= ind and implies(ind == 0, volume == old(volume))', label='scan-in-registration-order').also_modifies('kappa')
    c.ensures('implies(self.num_volume_rules == 0, result == old(volume))', label='no-rule-no-change')
    c.modifies('kappa')


body('apply_volume_rules', _vrules)


# ------------------------------------------------------------------------------------------------ the daughters' time grid
@fuc('lineage', 'LineageSSASimulator.truncate_timepoints_less_than', props=['C19'])
def _(c):
    c.array('array', ndim=1, elem='Real')
    c.loop(0).invariant('forall(lambda k: implies(0 <= k and k < j, array[k] < value))', label='earlier-points-are-before-the-division')
    c.ensures('len(result) <= len(array)', label='a-suffix')
    c.ensures('forall(lambda m: implies(0 <= m and m < len(result), result[m] == array[len(array) - len(result) + m]))', label='same-points-in-order')
    c.ensures('forall(lambda k: implies(0 <= k and k < len(array) - len(result), array[k] < value))', label='dropped-points-are-before-the-division-time')
    c.ensures('implies(len(result) > 0, result[0] >= value)', label='first-kept-point-is-not-before-the-division-time')
    c.ensures('forall(lambda k: implies(0 <= k and k < len(array) and array[k] >= value, len(result) >= len(array) - k))', label='every-point-from-the-division-time-on-is-kept')
    c.ensures('implies(len(result) == 0, forall(lambda k: implies(0 <= k and k < len(array), array[k] < value)))', label='empty-only-if-every-point-is-earlier')
    c.modifies()


# The work-list loop of SimulateCellLineage is NOT under contract: a bounded exploration (one root, three processed cells, helpers
# inlined) was tried and took more than 45 minutes of path replay, so it was withdrawn.  Its loop body consists of the calls proved
# here: interface.partition (dispatch), truncate_timepoints_less_than, simulate_daughter_cells (links, list alignment), and
# simulate_cell_list for the roots.


# ------------------------------------------------------------------------------------------------ one GENERIC pass of the work list
# The work list starts with one arbitrary queued cell (final state of some simulated cell: a grid time, positive volume, a state of
# the right length, any divided / dead code) and no root cells; the loop is followed for that one entry and cut afterwards.  What is
# proved are the obligations met in that pass: the preconditions of interface.partition, truncate_timepoints_less_than and
# simulate_daughter_cells AT THEIR CALL SITES (a mother that already sits at the final time must not be divided again: her daughters
# would get a one-point grid), for every queued cell whatever.
@fuc('lineage', 'LineageSSASimulator.SimulateCellLineage', props=['C19'], variant='one-generic-pass-of-the-work-list')
def _(c):
    c.array('timepoints', ndim=1, elem='Real')
    c.hints['initial_cell_states'] = dict(value=lambda ex: [])
    c.hints['self.lineage'] = dict(value=lambda ex: ex.symbolic_obj(ex.program.find_class('Lineage'), 'the_lineage', exact=True))
    c.hints['self.old_cell_states'] = dict(value=lambda ex: _objs(ex, 'LineageVolumeCellState', 'queued_state', 1))
    c.hints['self.old_schnitzes'] = dict(value=lambda ex: _objs(ex, 'Schnitz', 'queued_schnitz', 1))
    c.hints['queued_state0.state_set'] = dict(value=1)
    c.hints['self.interface.division_event_volume_splitters'] = dict(value=lambda ex: _splitters(ex, 'event', NE))
    c.hints['self.interface.division_rule_volume_splitters'] = dict(value=lambda ex: _splitters(ex, 'rule', NR))
    c.requires(WF_SIM)
    c.requires('self.interface.num_division_rules == %d and self.interface.num_division_events == %d' % (NR, NE))
    c.requires('len(timepoints) >= 2')
    c.requires('forall(lambda i, j: implies(0 <= i and i < j and j < len(timepoints), timepoints[i] < timepoints[j]))')       # a strictly increasing grid
    Q = 'self.old_cell_states[0]'
    c.requires('%s.volume > 0 and len(%s.state) == self.num_species and %s.initial_time <= %s.time' % (Q, Q, Q, Q))
    c.requires('0 <= ifun("J", self) and ifun("J", self) < len(timepoints) and %s.time == timepoints[ifun("J", self)]' % Q)     # a queued cell ends at a grid time
    c.requires('-1 <= %s.divided and %s.divided < %d and -1 <= %s.dead' % (Q, Q, NR + NE, Q))
    c.assume('forall(lambda k: U(k) > 0)', 'uniform_rv() == 0 excluded')
    c.loop(1).cut_after(1)
    c.raises('ValueError')
    c.raises('RuntimeError')
    c.note('one generic pass: the obligations are the call-site preconditions met while one arbitrary queued cell is processed')
