"""Contracts: bioscrape/inference.pyx :: DeterministicLikelihood.get_log_likelihood (C15), shape class N = 2 trajectories,
M = 2 measured species, T = 2 time points per trajectory (own grids), norm orders 1..3, per-trajectory initial and parameter
conditions with DIFFERENT key sets; everything numeric symbolic.

detsim(x0, p, T) is the (uninterpreted) deterministic trajectory for initial state x0, parameter vector p and grid T (C04).
Oracle: value == -( sum_n sum_t sum_m |data[n,t,m] - detsim(x0_n, P_n, T_n)[t, idx(name_m)]|^p )^(1/p), with
x0_n = defaults overridden by the n-th initial condition, P_n = parameters at entry overridden by the n-th condition ONLY."""
from bsvc.contracts import Contract
from bsvc import contracts as C, terms as tm, arrays
from bsvc.terms import REAL, INT
from bsvc.values import Arr, Obj, to_term
from contracts import simulator_entry as _se       # summary contract of the deterministic simulator

SPECIES = ['X', 'Y', 'Z']
PARAMS = ['a', 'b', 'c']
A2 = tm.ArraySort(INT, tm.ArraySort(INT, REAL))


def detsim(x0, p, T):
    return tm.app('detsim', (x0, p, T), A2)


def _summary_result(ex, fr):
    o = _se._result_builder('SSAResult')(ex, fr)
    sim = fr.env['sim']
    x0 = ex.get_field(sim, 'initial_state')
    pv = ex.get_field(sim, 'np_param_values') if isinstance(sim, Obj) and 'np_param_values' in ex.program.all_fields(sim.cls) else None
    if isinstance(x0, Arr) and isinstance(pv, Arr):
        ex.assume_fact(tm.eq(o.fields['simulation_result'].term, detsim(x0.term, pv.term, fr.env['timepoints'].term)))
    return o


C.lookup('simulator', 'DeterministicSimulator._helper_simulate').opt(result=_summary_result)


def stosim(x0, p, T, k):
    return tm.app('stosim', (x0, p, T, k), A2)


def _summary_ssa(ex, fr):
    """summary of SSASimulator.simulate at the call sites of the stochastic likelihood: the reported rows are a function of the interface's
    initial state, its parameter values, the time grid and the random stream from the current position (C05 / C08)"""
    o = _se._result_builder('SSAResult')(ex, fr)
    sim = fr.env['sim']
    x0 = ex.get_field(sim, 'initial_state')
    pv = ex.get_field(sim, 'np_param_values') if isinstance(sim, Obj) and 'np_param_values' in ex.program.all_fields(sim.cls) else None
    if isinstance(x0, Arr) and isinstance(pv, Arr):
        ex.assume_fact(tm.eq(o.fields['simulation_result'].term, stosim(x0.term, pv.term, fr.env['timepoints'].term, ex.kappa)))
    ex.ghost.setdefault('ssa_kappas', []).append(ex.kappa)
    ex.kappa = ex.fresh('kappa_after_ssa', INT)
    return o


from contracts import simulator_ssa as _ssa        # noqa: the SSA contract whose call-site result is summarised here
C.lookup('simulator', 'SSASimulator.simulate').opt(result=_summary_ssa)


def likelihood_contract(norm, same_keys, stochastic=False):
    c = Contract('inference', ('StochasticTrajectoriesLikelihood' if stochastic else 'DeterministicLikelihood') + '.get_log_likelihood', ['C15'],
                 variant='norm=%d,%s' % (norm, {True: 'same-condition-keys', False: 'different-condition-keys', 'empty': 'second-condition-empty'}[same_keys]))

    def cself(ex, cls):
        fr = ex.frame
        ex.force_inline = True
        try:
            x0d = {s: ex.fresh('x0def_' + s, REAL) for s in SPECIES}
            for v in x0d.values():
                ex.assume(tm.ge(v, tm.mk_real(0)))       # default initial conditions are set (not the -1 'unset' marker)
            M = ex.instantiate(ex.program.find_class('Model'), [], dict(
                species=list(SPECIES), reactions=[(['X'], ['Y'], 'massaction', {'k': 'a'}), (['Y'], ['Z'], 'massaction', {'k': 'b'}),
                                                  (['Z'], [], 'massaction', {'k': 'c'})],
                parameters=[(p, ex.fresh('def_' + p, REAL)) for p in PARAMS], initial_condition_dict=x0d))
            nT = 3 if stochastic else 2        # (N == T would be read as one shared grid by StochasticTrajectories.set_data)
            data = Arr(ex.fresh('data', tm.ArraySort(INT, A2)), [2, nT, 2], REAL, 'ndarray', 'data')
            tps = Arr(ex.fresh('grids', A2), [2, nT], REAL, 'ndarray', 'grids')
            bd = ex.instantiate(ex.program.find_class('StochasticTrajectories' if stochastic else 'BulkData'), [tps, data, ['Z', 'X'], 2], {})
            ic = [{'X': ex.fresh('icX0', REAL)}, {'Y': ex.fresh('icY1', REAL), 'X': ex.fresh('icX1', REAL)}]
            if same_keys == 'empty':          # a control trajectory without parameter condition after one with a condition
                pc = [{'a': ex.fresh('a0', REAL)}, {}]
            elif same_keys:
                pc = [{'a': ex.fresh('a0', REAL)}, {'a': ex.fresh('a1', REAL)}]
            else:
                pc = [{'a': ex.fresh('a0', REAL)}, {'b': ex.fresh('b1', REAL)}]
            kw = dict(model=M, init_state=ic, init_params=pc, data=bd, norm_order=norm)
            if stochastic:
                kw['N_simulations'] = 1
            LL = ex.instantiate(cls, [], kw)
        finally:
            ex.force_inline = False
        LL.name = 'self'
        fr.env.update(dict(M=M, data=data, grids=tps, ic=ic, pc=pc))
        # parameters in force at entry (defaults overridden by theta - whatever the caller set): snapshot of the shared array
        fr.env['P_entry'] = M.fields['params_values'].term
        fr.env['X_default'] = LL.fields['default_species'].term
        return LL
    c.concrete_self = cself

    def check(ex, fr, result):
        M = fr.env['M']
        s2i, p2i = M.fields['species2index'], M.fields['params2index']
        total = tm.mk_real(0)
        for n in range(2):
            x0 = tm.constarr(tm.ArraySort(INT, REAL), tm.mk_real(0))
            for s in SPECIES:      # species not listed keep the model default (same representation as np.zeros + item writes)
                j = to_term(s2i[s])
                x0 = tm.store(x0, j, fr.env['ic'][n][s] if s in fr.env['ic'][n] else tm.select(fr.env['X_default'], j))
            pn = fr.env['P_entry']
            for k, v in fr.env['pc'][n].items():
                pn = tm.store(pn, to_term(p2i[k]), v)
            Tn = tm.select(fr.env['grids'].term, tm.mk_int(n))
            if stochastic:
                ks = ex.ghost.get('ssa_kappas', [])
                kap = ks[n] if n < len(ks) else ex.fresh('kappa_unknown', INT)
                traj = stosim(x0, pn, Tn, kap)
            else:
                traj = detsim(x0, pn, Tn)
            for m, nm in enumerate(['Z', 'X']):
                for t in range(3 if stochastic else 2):
                    d = tm.sub(tm.select(tm.select(tm.select(fr.env['data'].term, tm.mk_int(n)), tm.mk_int(t)), tm.mk_int(m)),
                               tm.select(tm.select(traj, tm.mk_int(t)), to_term(s2i[nm])))
                    ad = tm.ite(tm.lt(d, tm.mk_real(0)), tm.neg(d), d)
                    pw = ad
                    for _ in range(norm - 1):
                        pw = tm.mul(pw, ad)
                    total = tm.add(total, pw)
        want = tm.neg(tm.app('rpow', (total, tm.rdiv(tm.mk_real(1), tm.mk_real(norm))), REAL)) if norm != 1 else None
        if isinstance(result, float):
            ex.oblige('post', tm.FALSE, label='value', note='returned a non-finite constant')
            return
        if norm == 1:
            ex.oblige('post', tm.or_(tm.eq(result, tm.neg(total)), tm.eq(result, tm.neg(tm.app('rpow', (total, tm.mk_real(1)), REAL)))), label='value',
                      note='-(sum |data - simulation|^p)^(1/p), each trajectory under its own initial and parameter condition')
        else:
            ex.oblige('post', tm.eq(result, want), label='value',
                      note='-(sum |data - simulation|^p)^(1/p), each trajectory under its own initial and parameter condition')
    c.after(check)
    c.opt(verify_only=True)
    C.REGISTRY[c.key] = c
    C.ORDER.append(c.key)


for norm in (1, 2, 3):
    likelihood_contract(norm, False, stochastic=True)
    likelihood_contract(norm, 'empty', stochastic=True)
    likelihood_contract(norm, True)
    likelihood_contract(norm, False)
    likelihood_contract(norm, 'empty')
