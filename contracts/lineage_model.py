"""Contracts: lineage/lineage.pyx :: LineageModel registration of rules (C09 "for plain and for lineage models alike"; C08)."""
from bsvc.contracts import Contract
from bsvc import contracts as C, speclib

ARGS = ('filename', 'species', 'reactions', 'parameters', 'rules', 'events', 'sbml_filename', 'initial_condition_dict',
        'input_printout', 'initialize_model')


@speclib.spec('reinitialise')
def reinitialise(ex, model):
    f = ex.program.find_method(model.cls, '_initialize')
    was = ex.in_spec
    ex.in_spec = False
    ex.force_inline = True
    try:
        ex.call_method(model, f, [], {})
    finally:
        ex.in_spec = was
        ex.force_inline = False
    return True


def lineage_contract(variant, cls, rules, props):
    c = Contract('lineage' if cls == 'LineageModel' else 'types', cls + '.__init__', props, variant=variant)
    c.concrete_self = lambda ex, k: ex.allocate(k)

    def setup(ex, fr):
        fr.env.update(dict(filename=None, species=['A', 'B', 'C'], reactions=[(['A'], ['B'], 'massaction', {'k': 1.0})], parameters=[],
                           rules=list(rules), sbml_filename=None, initial_condition_dict={'A': 1, 'B': 2, 'C': 0},
                           input_printout=False, initialize_model=True))
        if cls == 'LineageModel':
            fr.env['events'] = []
    for nm in ARGS:
        c.hints[nm] = dict(value=None)
    c.setup(setup)
    n = len(rules)
    c.ensures('len(self.repeat_rules) == %d and len(self.c_repeat_rules) == %d' % (n, n), label='each-rule-registered-once')
    c.ensures('reinitialise(self) and len(self.c_repeat_rules) == %d and len(self.c_propensities) == 1 and len(self.c_delays) == 1' % n,
              label='re-initialisation-does-not-duplicate')
    c.opt(verify_only=True)
    C.REGISTRY[c.key] = c
    C.ORDER.append(c.key)


R1 = [('additive', {'equation': 'C = A + B'})]
R2 = [('additive', {'equation': 'C = A + B'}), ('additive', {'equation': 'B = A + A'}, 'dt')]
for cls in ('Model', 'LineageModel'):
    lineage_contract('rules-registered:1', cls, R1, ['C09', 'C08'])
    lineage_contract('rules-registered:2', cls, R2, ['C09', 'C08'])
