"""Contracts: lineage/lineage.pyx :: LineageModel registration of rules (C09 "for plain and for lineage models alike"; C08)."""
from bsvc.contracts import Contract
from bsvc import contracts as C, speclib

ARGS = ('filename', 'species', 'reactions', 'parameters', 'rules', 'events', 'sbml_filename', 'initial_condition_dict',
        'input_printout', 'initialize_model')


@speclib.spec('reinitialise')
def reinitialise(ex, model):
    f = ex.program.find_method(model.cls, '_initialize')
    was = ex.in_spec
    ex.in_spec = False
    ex.force_inline = True
    try:
        ex.call_method(model, f, [], {})
    finally:
        ex.in_spec = was
        ex.force_inline = False
    return True


def lineage_contract(variant, cls, rules, props):
    c = Contract('lineage' if cls == 'LineageModel' else 'types', cls + '.__init__', props, variant=variant)
    c.concrete_self = lambda ex, k: ex.allocate(k)

    def setup(ex, fr):
        fr.env.update(dict(filename=None, species=['A', 'B', 'C'], reactions=[(['A'], ['B'], 'massaction', {'k': 1.0})], parameters=[],
                           rules=list(rules), sbml_filename=None, initial_condition_dict={'A': 1, 'B': 2, 'C': 0},
                           input_printout=False, initialize_model=True))
        if cls == 'LineageModel':
            fr.env['events'] = []
    for nm in ARGS:
        c.hints[nm] = dict(value=None)
    c.setup(setup)
    n = len(rules)
    c.ensures('len(self.repeat_rules) == %d and len(self.c_repeat_rules) == %d' % (n, n), label='each-rule-registered-once')
    # each rule carries ITS OWN frequency: the one written in its tuple, "repeated" (flag -1) when the tuple has none - whatever the
    # frequencies of the rules listed before it (seed C09-d let a 2-tuple inherit the frequency of the preceding 3-tuple)
    FLAG = {'repeated': -1.0, 'repeat': -1.0, 'dt': -2.0, 'start': 0.0}
    for i, r in enumerate(rules):
        want = FLAG.get(r[2], None) if len(r) == 3 else -1.0
        if want is None:
            want = float(r[2])
        c.ensures('self.repeat_rules[%d].frequency_flag == %r' % (i, want), label='rule-%d-has-its-own-frequency' % i)
    c.ensures('reinitialise(self) and len(self.c_repeat_rules) == %d and len(self.c_propensities) == 1 and len(self.c_delays) == 1' % n,
              label='re-initialisation-does-not-duplicate')
    c.opt(verify_only=True)
    C.REGISTRY[c.key] = c
    C.ORDER.append(c.key)


R1 = [('additive', {'equation': 'C = A + B'})]
R2 = [('additive', {'equation': 'C = A + B'}), ('additive', {'equation': 'B = A + A'}, 'dt')]
R3 = [('additive', {'equation': 'B = A + A'}, 'dt'), ('additive', {'equation': 'C = A + B'})]
R4 = [('additive', {'equation': 'B = A + A'}, '1.5'), ('additive', {'equation': 'C = A + B'}), ('additive', {'equation': 'B = A + A + A'}, 'start'),
      ('additive', {'equation': 'C = A'})]
for cls in ('Model', 'LineageModel'):
    lineage_contract('rules-registered:1', cls, R1, ['C09', 'C08'])
    lineage_contract('rules-registered:2', cls, R2, ['C09', 'C08'])
    lineage_contract('rules-registered:scheduled-then-default', cls, R3, ['C09', 'C08'])
    lineage_contract('rules-registered:mixed-frequencies', cls, R4, ['C09', 'C08'])


# ---- lineage features (events, rules, splitters) are registered exactly once, in registration order, whatever the history of
# initialisations (C08: the model reached by edits and repeated initialisations equals the model built at once; C19: the propensity
# slot of an event is the event's own)
from bsvc import terms as tm


def lineage_reinit_contract(variant, edit_between):
    c = Contract('types', 'Model._initialize', ['C08', 'C19'], variant='LineageModel:' + variant)
    c.self_class = 'LineageModel'

    def cself(ex, cls):
        from contracts import pickling
        ex.force_inline = True
        try:
            m = pickling.build_lineage_full(ex)        # growth event, division rule + splitter, death event, division event, volume rule, death rule; initialised
            if edit_between:
                ex.call_method(m, ex.program.find_method(m.cls, 'create_volume_event'),
                               ['linear volume', {'growth_rate': 0.25}, 'massaction', {'k': 0.7, 'species': ''}], {})
        finally:
            ex.force_inline = False
        m.name = 'self'
        return m
    c.concrete_self = cself

    def check(ex, fr, result):
        m = fr.env['self']
        f = m.fields
        nv = 2 if edit_between else 1
        want = dict(volume_events=nv, division_events=1, death_events=1, volume_rules=1, death_rules=1, division_rules=1,
                    lineage_propensities=nv + 2)
        for name, n in want.items():
            lst, cv = f.get(name), f.get('c_' + name)
            ex.oblige('post', tm.mk_bool(isinstance(lst, list) and len(lst) == n), label='%s-registered-once' % name,
                      note='%s has %s entries, expected %d' % (name, len(lst) if isinstance(lst, list) else lst, n))
            ok = isinstance(cv, list) and isinstance(lst, list) and len(cv) == len(lst) and all(a is b for a, b in zip(cv, lst))
            ex.oblige('post', tm.mk_bool(bool(ok)), label='c_%s-mirrors-the-list' % name,
                      note='C vector has %s entries' % (len(cv) if isinstance(cv, list) else cv))
        # propensity slots: volume events, then division events, then death events (the order the single-cell loop decodes)
        lp = f.get('lineage_propensities')
        evs = [t[1] for t in f.get('volume_events_list', [])] + [t[1] for t in f.get('division_events_list', [])] + [t[1] for t in f.get('death_events_list', [])]
        ex.oblige('post', tm.mk_bool(isinstance(lp, list) and len(lp) == len(evs) and all(a is b for a, b in zip(lp, evs))),
                  label='propensity-slots-in-the-order-volume-division-death')
        ex.oblige('post', tm.mk_bool(len(f.get('rule_volume_splitters', [])) == 1 and len(f.get('event_volume_splitters', [])) == 1), label='splitters-registered-once')
    c.after(check)
    c.opt(verify_only=True)
    C.REGISTRY[c.key] = c
    C.ORDER.append(c.key)


lineage_reinit_contract('initialised-again', False)
lineage_reinit_contract('event-added-then-initialised-again', True)
