"""Contracts: the MT19937-64 generator in bioscrape/random.pyx (C08 seeding; C05 range of uniform_rv).

Bit operations are uninterpreted (congruence is enough for determinism).  mtseq(seed, k) is the k-th state word after
seeding, defined by the published recurrence; the contract of mt_seed says the whole generator state after seeding is a
function of the seed alone -- nothing of the previous state survives."""
from bsvc.contracts import fuc
from bsvc import axioms, speclib, terms as tm
from bsvc.terms import INT, REAL
from bsvc.values import Arr, to_term

I0, I1 = tm.mk_int(0), tm.mk_int(1)
MULT = tm.mk_int(6364136223846793005)


def _mtseq_ax(t, ctx):
    s, k = t.args[1], t.args[2]
    prev = tm.app('mtseq', (s, tm.sub(k, I1)), INT)
    nxt = tm.add(tm.mul(MULT, tm.app('bxor', (prev, tm.idiv_floor(prev, tm.mk_int(1 << 62))), INT)), k)
    return [tm.implies(tm.le(k, I0), tm.eq(t, s)), tm.implies(tm.gt(k, I0), tm.eq(t, nxt))]


axioms.register('mtseq', _mtseq_ax, 'mtseq(s,0)=s; mtseq(s,k)=6364136223846793005*(mtseq(s,k-1) xor (mtseq(s,k-1)>>62))+k (machine wrap-around not modelled)')


@speclib.spec('mtseq')
def mtseq(ex, s, k):
    return tm.app('mtseq', (to_term(s), to_term(k)), INT)


def gen_state(ex, fr):
    g = ex.module_globals.setdefault('random', {})
    mt = ex.symbolic_array('mt', 1, INT, 'ptr')
    ex.assume_fact(tm.eq(to_term(mt.shape[0]), tm.mk_int(312)))
    mag = ex.symbolic_array('mag01', 1, INT, 'ptr')
    ex.assume_fact(tm.eq(to_term(mag.shape[0]), tm.mk_int(2)))
    mti = ex.fresh('mti', INT)
    ex.assume_fact(tm.and_(tm.ge(mti, I0), tm.le(mti, tm.mk_int(313))))
    k = ex.fresh('k_ty', INT)
    ex.assume_fact(tm.forall([k], tm.and_(tm.ge(tm.select(mt.term, k), I0), tm.ge(tm.select(mag.term, k), I0))))   # unsigned element type
    g['mt'], g['mag01'], g['mti'] = mt, mag, mti
    fr.env['g_mt'], fr.env['g_mag01'] = mt, mag


@speclib.spec('g_mti')
def g_mti(ex):
    return ex.module_globals['random']['mti']


@speclib.spec('g_arr')
def g_arr(ex, name):
    return ex.module_globals['random'][name]


@fuc('random', 'mt_seed', props=['C08'])
def _(c):
    c.setup(gen_state)
    c.loop(0).invariant('1 <= g_mti() and g_mti() <= 312 and forall(lambda k: implies(0 <= k and k < g_mti(), g_arr("mt")[k] == mtseq(seed, k)))')
    c.ensures('forall(lambda k: implies(0 <= k and k < 312, g_arr("mt")[k] == mtseq(seed, k)))', label='state-words-are-a-function-of-the-seed')
    c.ensures('g_mti() == 312', label='position-reset')
    c.ensures('g_arr("mag01")[0] == 0 and g_arr("mag01")[1] == 13043109905998158313', label='tempering-constants')
    c.opt(result_none=True)
    c.note('relational corollary: two runs from arbitrary generator states with the same seed end in equal (mt, mti, mag01)')


@fuc('random', 'genrand64', props=['C08', 'C05'])
def _(c):
    c.setup(gen_state)
    c.loop(0).invariant('forall(lambda k: g_arr("mt")[k] >= 0)', label='unsigned-words')
    c.loop(1).invariant('forall(lambda k: g_arr("mt")[k] >= 0)', label='unsigned-words')
    c.ensures('1 <= g_mti() and g_mti() <= 312', label='position-in-range')
    c.note('memory safety: every mt[...] / mag01[...] index is inside the arrays (bounds obligations); output and new state are functions '
           'of the old state only (no other reads); uniformity of the output is cited')


@fuc('random', 'uniform_rv', props=['C05', 'C08'], variant='range')
def _(c):
    c.setup(gen_state)
    c.ensures('0 <= result and result <= 1', label='in-the-unit-interval')
    c.opt(verify_only=True)


@fuc('random', 'seed_random', props=['C08'])
def _(c):
    c.setup(gen_state)
    c.requires('seed != 0')
    c.ensures('forall(lambda k: implies(0 <= k and k < 312, g_arr("mt")[k] == mtseq(seed, k))) and g_mti() == 312', label='non-zero-seed-determines-the-state')
    c.opt(result_none=True)
    c.note('seed 0 means "time of day" (excluded by the statement: "seeding")')
