"""C03/C04: the time derivative reported by the interface equals (immediate + delayed stoichiometry) x rate.

Shape-class contracts: model -> ModelCSimInterface / SafeModelCSimInterface -> prep_deterministic_simulation ->
calculate_deterministic_derivative, all executed from the real source for a concrete network shape with symbolic state,
parameters; compared with the oracle sum over reactions built from the reaction list itself."""
from bsvc.contracts import Contract
from bsvc import contracts as C, speclib, terms as tm
from bsvc.terms import REAL, INT
from bsvc.values import to_term

NETWORKS = {
    'chain+delay+hill': dict(
        species=['C', 'A', 'B'],
        reactions=[(['A', 'B'], ['C'], 'massaction', {'k': '$k1'}),
                   (['C'], ['A', 'A'], 'massaction', {'k': '$k2'}, 'fixed', ['A'], ['B', 'B'], {'delay': 1.5}),
                   ([], ['A'], 'hillpositive', {'k': '$k3', 'K': '$K', 'n': '$n', 's1': 'B'}),
                   (['B', 'B', 'A'], ['B'], 'massaction', {'k': '$k1'})]),
    'catalyst+empty': dict(
        species=['X', 'Y'],
        reactions=[(['X', 'Y'], ['X', 'Y', 'Y'], 'massaction', {'k': '$k1'}),
                   (['Y'], [], 'massaction', {'k': '$k2'}),
                   ([], ['X'], 'massaction', {'k': '$k3'}, 'gamma', [], ['Y'], {'k': 2.0, 'theta': 0.5})]),
    # a reversible reaction written as ONE net-rate general propensity (what a reversible SBML reaction becomes): its rate takes either sign,
    # and so do rates at arbitrary real states / parameters - the derivative is S x rate whatever the signs (seed C03-d dropped negative rates)
    'signed-net-rate': dict(
        signed=True,
        species=['B', 'A'],
        parameters=['kf', 'kr'],
        reactions=[(['A'], ['B'], 'general', {'rate': 'kf*A - kr*B'}),
                   (['B'], [], 'massaction', {'k': '$k2'}),
                   (['A', 'A'], ['B'], 'massaction', {'k': '$k1'}, 'fixed', [], ['A'], {'delay': 0.5})]),
}


def net_stoich(net):
    sp = set(net['species'])
    for r in net['reactions']:
        sp |= set(r[0]) | set(r[1])
        if len(r) == 8:
            sp |= set(r[5]) | set(r[6])
    out = {}
    for s in sp:
        row = []
        for r in net['reactions']:
            v = r[1].count(s) - r[0].count(s)
            if len(r) == 8:
                v += r[6].count(s) - r[5].count(s)
            row.append(v)
        out[s] = row
    return out


def derivative_contract(name, net, safe, prepared=1):
    cls = 'SafeModelCSimInterface' if safe else 'ModelCSimInterface'
    c = Contract('simulator', 'CSimInterface.calculate_deterministic_derivative', ['C03', 'C04', 'C08'],
                 variant='%s:%s%s' % (cls, name, '' if prepared == 1 else ':interface-prepared-%d-times' % prepared))
    c.self_class = cls

    def build(ex, klass):
        fr = ex.frame
        vals = {}
        for nm in ('k1', 'k2', 'k3', 'K', 'n'):
            vals[nm] = ex.fresh(nm, REAL)
            fr.env[nm] = vals[nm]
            if not net.get('signed'):
                ex.assume(tm.gt(vals[nm], tm.mk_real(0)))
        rx = []
        for r in net['reactions']:
            d = {k: (vals[v[1:]] if isinstance(v, str) and v.startswith('$') else (tm.mk_real(v) if isinstance(v, float) else v))
                 for k, v in r[3].items()}
            r2 = [list(r[0]), list(r[1]), r[2], d]
            if len(r) == 8:
                r2 += [r[4], list(r[5]), list(r[6]), {k: tm.mk_real(v) for k, v in r[7].items()}]
            rx.append(tuple(r2))
        ex.force_inline = True
        try:
            kw = dict(species=list(net['species']), reactions=rx, initial_condition_dict={s: 0 for s in net['species']})
            if net.get('parameters'):
                kw['parameters'] = [(nm, ex.fresh(nm, REAL)) for nm in net['parameters']]
            M = ex.instantiate(ex.program.find_class('Model'), [], kw)
            itf = ex.instantiate(klass, [M], {})
            for _ in range(prepared):       # an interface reused for a further deterministic simulation is prepared again
                ex.call_method(itf, ex.program.find_method(klass, 'prep_deterministic_simulation'), [], {})
        finally:
            ex.force_inline = False
        fr.env['M'] = M
        itf.name = 'self'
        return itf
    c.concrete_self = build
    c.requires('len(x) >= %d and len(dxdt) >= %d' % (len(net_stoich(net)), len(net_stoich(net))))
    if not net.get('signed'):
        c.requires(' and '.join('x[%d] > 0' % i for i in range(len(net_stoich(net)))))
    N = net_stoich(net)
    for s, row in sorted(N.items()):
        terms = ['%d * prop_rate(M, %d, "DET", x, 1.0)' % (v, r) for r, v in enumerate(row) if v != 0]
        c.ensures('dxdt[M.species2index["%s"]] == %s' % (s, ' + '.join(terms) or '0.0'), label='d%s/dt' % s)
    c.opt(verify_only=True)
    C.REGISTRY[c.key] = c
    C.ORDER.append(c.key)


for name, net in NETWORKS.items():
    derivative_contract(name, net, False)
    if net.get('signed'):
        continue          # the safe interface's derivative drops consumption at empty species by design: stated for non-negative states only
    derivative_contract(name, net, True)
    derivative_contract(name, net, False, prepared=3)
    derivative_contract(name, net, True, prepared=2)
