"""Contracts: volume splitters (C19): bioscrape/simulator.pyx :: PerfectBinomialVolumeSplitter.partition,
GeneralVolumeSplitter.partition / py_set_partitioning; lineage/lineage.pyx :: LineageVolumeSplitter.__init__ / partition.

Random stream explicit (contracts/random_.py): U(k), kappa(); bcount(k0, n, p) = #{i < n : U(k0+i) < p}, so
"d[s] == bcount(k, round(x[s]), p)" over pairwise disjoint stream segments IS "d[s] ~ Binomial(round(x[s]), p), independent
across species" (that the stream is i.i.d. uniform is the cited assumption on the generator, C08).

rsum(a, n) = sum_{j<n} trunc(a[j] + 0.5): stream elements consumed by the first n binomial draws.
"""
from bsvc.contracts import Contract, fuc, field_hint
from bsvc import contracts as C, axioms, speclib, terms as tm
from bsvc.terms import REAL, INT
from bsvc.values import Arr, Obj, to_term

PROPS = ['C19']
R0, I0, I1 = tm.mk_real(0), tm.mk_int(0), tm.mk_int(1)
HALF = tm.mk_real('0.5')

field_hint('CellState.state', ndim=1, elem=REAL)


def _rsum_ax(t, ctx):
    a, n = t.args[1], t.args[2]
    prev = tm.app('rsum', (a, tm.sub(n, I1)), INT)
    last = tm.trunc(tm.add(tm.select(a, tm.sub(n, I1)), HALF))
    return [tm.implies(tm.le(n, I0), tm.eq(t, I0)),
            tm.implies(tm.gt(n, I0), tm.eq(t, tm.add(prev, last)))]


axioms.register('rsum', _rsum_ax, 'rsum(a,0)=0; rsum(a,n)=rsum(a,n-1)+trunc(a[n-1]+0.5)')


@speclib.spec('rsum')
def rsum(ex, a, n):
    return tm.app('rsum', (a.term if isinstance(a, Arr) else to_term(a), to_term(n)), INT)


# ------------------------------------------------------------------------------------------------ perfect-binomial splitter
@fuc('simulator', 'PerfectBinomialVolumeSplitter.partition', props=PROPS)
def _(c):
    c.requires('forall(lambda j: implies(0 <= j and j < len(parent.state), parent.state[j] >= 0))')
    lp = c.loop(0)
    lp.also_modifies('kappa')
    lp.invariant('length == len(parent.state) and len(dstate) == length and len(estate) == length and i <= length', label='sizes')
    lp.invariant('forall(lambda j: implies(0 <= j and j < i, dstate[j] == bcount(old(kappa()) + rsum(parent.state, j), '
                 'trunc(parent.state[j] + 0.5), 0.5) and estate[j] == parent.state[j] - dstate[j]))', label='done')
    lp.invariant('forall(lambda j: implies(i <= j and j < length, dstate[j] == parent.state[j] and estate[j] == parent.state[j]))',
                 label='to-do')
    lp.invariant('kappa() == old(kappa()) + rsum(parent.state, i)', label='stream')
    c.ensures('result[0].time == parent.time and result[1].time == parent.time', label='daughters-start-at-the-division-time')
    c.ensures('result[0].volume + result[1].volume == parent.volume', label='volume-conserved')
    c.ensures('result[0].volume > 0 or parent.volume <= 0', label='volume-positive')
    c.ensures('len(result[0].state) == len(parent.state) and len(result[1].state) == len(parent.state)', label='one-entry-per-species')
    c.ensures('forall(lambda j: implies(0 <= j and j < len(parent.state), result[0].state[j] + result[1].state[j] == parent.state[j]))',
              label='molecules-conserved')
    c.ensures('forall(lambda j: implies(0 <= j and j < len(parent.state), result[0].state[j] == bcount(old(kappa()) + rsum(parent.state, j), '
              'trunc(parent.state[j] + 0.5), 0.5)))', label='binomial-half')
    c.ensures('forall(lambda j: implies(0 <= j and j < len(parent.state), 0 <= result[0].state[j] and result[0].state[j] <= trunc(parent.state[j] + 0.5)))',
              label='daughter-count-in-range')
    c.ensures('arr(parent.state) == old(arr(parent.state)) and parent.volume == old(parent.volume) and parent.time == old(parent.time)',
              label='mother-untouched')
    c.ensures('not same_array(result[0].state, result[1].state) and not same_array(result[0].state, parent.state)', label='daughters-do-not-share-storage')


# ------------------------------------------------------------------------------------------------ general splitter
def _rsumi_ax(t, ctx):
    a, idx, n = t.args[1], t.args[2], t.args[3]
    prev = tm.app('rsumi', (a, idx, tm.sub(n, I1)), INT)
    last = tm.trunc(tm.add(tm.select(a, tm.select(idx, tm.sub(n, I1))), HALF))
    return [tm.implies(tm.le(n, I0), tm.eq(t, I0)),
            tm.implies(tm.gt(n, I0), tm.eq(t, tm.add(prev, last)))]


axioms.register('rsumi', _rsumi_ax, 'rsumi(a,idx,0)=0; rsumi(a,idx,n)=rsumi(a,idx,n-1)+trunc(a[idx[n-1]]+0.5)')


@speclib.spec('rsumi')
def rsumi(ex, a, idx, n):
    return tm.app('rsumi', (a.term if isinstance(a, Arr) else to_term(a), idx.term if isinstance(idx, Arr) else to_term(idx), to_term(n)), INT)


# well-formed partition tables: indices in range; the perfect and the binomial list are duplicate-free (witnessed by the
# position maps posP / posB: pos(list[k]) == k) and disjoint
IS_P = '(0 <= ifun("posP", self, %s) and ifun("posP", self, %s) < len(self.perfect_indices) and self.perfect_indices[ifun("posP", self, %s)] == %s)'
IS_B = '(0 <= ifun("posB", self, %s) and ifun("posB", self, %s) < len(self.binomial_indices) and self.binomial_indices[ifun("posB", self, %s)] == %s)'


def is_p(s):
    return IS_P % (s, s, s, s)


def is_b(s):
    return IS_B % (s, s, s, s)


WF_TABLES = ['forall(lambda k: implies(0 <= k and k < len(self.perfect_indices), 0 <= self.perfect_indices[k] and '
             'self.perfect_indices[k] < len(parent.state) and ifun("posP", self, self.perfect_indices[k]) == k))',
             'forall(lambda k: implies(0 <= k and k < len(self.binomial_indices), 0 <= self.binomial_indices[k] and '
             'self.binomial_indices[k] < len(parent.state) and ifun("posB", self, self.binomial_indices[k]) == k))',
             'forall(lambda k: implies(0 <= k and k < len(self.binomial_indices), not %s))' % is_p('self.binomial_indices[k]')]
PFRAC = '(0.5 - U(old(kappa())) * self.partition_noise)'
PERFECT_PARTS = [('conserved', 'dstate[{s}] + estate[{s}] == parent.state[{s}]'), ('nonneg', 'dstate[{s}] >= 0'),
                 ('within-one-of-the-volume-share', '{p} * parent.state[{s}] - 1 < dstate[{s}] and dstate[{s}] < {p} * parent.state[{s}] + 1')]
PERFECT_D = ('(dstate[{s}] + estate[{s}] == parent.state[{s}] and dstate[{s}] >= 0 and '
             '{p} * parent.state[{s}] - 1 < dstate[{s}] and dstate[{s}] < {p} * parent.state[{s}] + 1 and dstate[{s}] == real(trunc(dstate[{s}])))')


@fuc('simulator', 'GeneralVolumeSplitter.partition', props=PROPS)
def _(c):
    c.requires('forall(lambda j: implies(0 <= j and j < len(parent.state), parent.state[j] >= 0))')
    c.requires('0 <= self.partition_noise and self.partition_noise < 0.5')
    for w in WF_TABLES:
        c.requires(w)
    pl = c.loop(0)
    pl.also_modifies('kappa')
    pl.invariant('len(dstate) == len(parent.state) and len(estate) == len(parent.state) and loop_index <= len(self.perfect_indices)', label='sizes')
    pl.invariant('p == %s and q == 1 - p and kappa() >= old(kappa()) + 1' % PFRAC, label='fraction')
    for lbl, part in PERFECT_PARTS:
        pl.invariant('forall(lambda k: implies(0 <= k and k < loop_index, %s))' % part.format(s='self.perfect_indices[k]', p='p'), label='done-' + lbl)
    pl.invariant('forall(lambda s: implies(0 <= s and s < len(parent.state) and not (%s and ifun("posP", self, s) < loop_index), '
                 'dstate[s] == parent.state[s] and estate[s] == parent.state[s]))' % is_p('s'), label='untouched')
    bl = c.loop(1)
    bl.also_modifies('kappa')
    bl.invariant('len(dstate) == len(parent.state) and len(estate) == len(parent.state) and loop_index <= len(self.binomial_indices)', label='sizes')
    bl.invariant('p == %s' % PFRAC, label='fraction')
    bl.invariant('kappa() == entry(kappa(), 1) + rsumi(parent.state, self.binomial_indices, loop_index)', label='stream')
    for lbl, part in PERFECT_PARTS:
        bl.invariant('forall(lambda k: implies(0 <= k and k < len(self.perfect_indices), %s))' % part.format(s='self.perfect_indices[k]', p='p'),
                     label='perfect-part-kept-' + lbl)
    bl.invariant('forall(lambda k: implies(0 <= k and k < loop_index, dstate[self.binomial_indices[k]] == '
                 'bcount(entry(kappa(), 1) + rsumi(parent.state, self.binomial_indices, k), trunc(parent.state[self.binomial_indices[k]] + 0.5), p) and '
                 'estate[self.binomial_indices[k]] == parent.state[self.binomial_indices[k]] - dstate[self.binomial_indices[k]]))', label='done')
    bl.invariant('forall(lambda s: implies(0 <= s and s < len(parent.state) and not %s and not (%s and ifun("posB", self, s) < loop_index), '
                 'dstate[s] == parent.state[s] and estate[s] == parent.state[s]))' % (is_p('s'), is_b('s')), label='untouched')
    D, E = 'result[0].state', 'result[1].state'
    c.ensures('result[0].time == parent.time and result[1].time == parent.time', label='daughters-start-at-the-division-time')
    c.ensures('result[0].volume == parent.volume * %s and result[1].volume == parent.volume * (1 - %s)' % (PFRAC, PFRAC), label='volume-fractions')
    c.ensures('result[0].volume + result[1].volume == parent.volume', label='volume-conserved')
    c.ensures('implies(parent.volume > 0, result[0].volume > 0 and result[1].volume > 0)', label='volume-positive')
    c.ensures('len(%s) == len(parent.state) and len(%s) == len(parent.state)' % (D, E), label='one-entry-per-species')
    for lbl, part in PERFECT_PARTS:
        c.ensures('forall(lambda s: implies(0 <= s and s < len(parent.state) and %s, %s))'
                  % (is_p('s'), part.format(s='s', p=PFRAC).replace('dstate', D).replace('estate', E)), label='perfect-species-' + lbl)
    c.ensures('forall(lambda s: implies(0 <= s and s < len(parent.state) and %s, %s[s] + %s[s] == parent.state[s] and '
              '%s[s] == bcount(entry(kappa(), 1) + rsumi(parent.state, self.binomial_indices, ifun("posB", self, s)), trunc(parent.state[s] + 0.5), %s)))'
              % (is_b('s'), D, E, D, PFRAC), label='binomial-species')
    c.ensures('forall(lambda s: implies(0 <= s and s < len(parent.state) and not %s and not %s, %s[s] == parent.state[s] and %s[s] == parent.state[s]))'
              % (is_p('s'), is_b('s'), D, E), label='duplicated-species')
    c.ensures('arr(parent.state) == old(arr(parent.state)) and parent.volume == old(parent.volume) and parent.time == old(parent.time)',
              label='mother-untouched')
    c.ensures('not same_array(result[0].state, result[1].state) and not same_array(result[0].state, parent.state)', label='daughters-do-not-share-storage')


# ------------------------------------------------------------------------------------------------ lineage splitter
LPFRAC = ('ite(self.how_to_split_v == 0, 0.5 - U(old(kappa())) * self.partition_noise / 2., ite(self.how_to_split_v == 1, 1.0, 0.5))')


@fuc('lineage', 'LineageVolumeSplitter.partition', props=PROPS)
def _(c):
    c.requires('len(parent.state) >= 1')
    c.requires('forall(lambda j: implies(0 <= j and j < len(parent.state), parent.state[j] >= 0))')
    c.requires('0 <= self.partition_noise and self.partition_noise < 1')   # noise == 1 with U == 1 exactly gives a zero-volume daughter (probability 2^-53)
    c.requires('0 <= self.how_to_split_v and self.how_to_split_v <= 2 and len(self.custom_indices) == 0',
               )
    for w in WF_TABLES:
        c.requires(w)
    pl = c.loop(0)
    pl.also_modifies('kappa')
    pl.invariant('len(dstate) == len(parent.state) and len(estate) == len(parent.state) and loop_index <= len(self.perfect_indices)', label='sizes')
    pl.invariant('p == %s and kappa() >= old(kappa())' % LPFRAC, label='fraction')
    pl.invariant('implies(self.how_to_split_v != 1, q == 1 - p and v0d == parent.volume * p and v0e == parent.volume * q)', label='volume-shares')
    pl.invariant('implies(self.how_to_split_v == 1, v0d == parent.volume and v0e == parent.volume)', label='volume-duplicated')
    for lbl, part in PERFECT_PARTS:
        pl.invariant('forall(lambda k: implies(0 <= k and k < loop_index, %s))' % part.format(s='self.perfect_indices[k]', p='p'), label='done-' + lbl)
    pl.invariant('forall(lambda s: implies(0 <= s and s < len(parent.state) and not (%s and ifun("posP", self, s) < loop_index), '
                 'dstate[s] == parent.state[s] and estate[s] == parent.state[s]))' % is_p('s'), label='untouched')
    bl = c.loop(1)
    bl.also_modifies('kappa')
    bl.invariant('len(dstate) == len(parent.state) and len(estate) == len(parent.state) and loop_index <= len(self.binomial_indices)', label='sizes')
    bl.invariant('p == %s' % LPFRAC, label='fraction')
    bl.invariant('implies(self.how_to_split_v != 1, v0d == parent.volume * p and v0e == parent.volume * (1 - p))', label='volume-shares')
    bl.invariant('implies(self.how_to_split_v == 1, v0d == parent.volume and v0e == parent.volume)', label='volume-duplicated')
    bl.invariant('kappa() == entry(kappa(), 1) + rsumi(parent.state, self.binomial_indices, loop_index)', label='stream')
    for lbl, part in PERFECT_PARTS:
        bl.invariant('forall(lambda k: implies(0 <= k and k < len(self.perfect_indices), %s))' % part.format(s='self.perfect_indices[k]', p='p'),
                     label='perfect-part-kept-' + lbl)
    bl.invariant('forall(lambda k: implies(0 <= k and k < loop_index, dstate[self.binomial_indices[k]] == '
                 'bcount(entry(kappa(), 1) + rsumi(parent.state, self.binomial_indices, k), trunc(parent.state[self.binomial_indices[k]] + 0.5), p) and '
                 'estate[self.binomial_indices[k]] == parent.state[self.binomial_indices[k]] - dstate[self.binomial_indices[k]]))', label='done')
    bl.invariant('forall(lambda s: implies(0 <= s and s < len(parent.state) and not %s and not (%s and ifun("posB", self, s) < loop_index), '
                 'dstate[s] == parent.state[s] and estate[s] == parent.state[s]))' % (is_p('s'), is_b('s')), label='untouched')
    c.hints['self.custom_partition_functions'] = dict(value={})
    c.hints['self.ind2customsplitter'] = dict(value={})
    cl = c.loop(2)      # custom partition functions: excluded by the precondition (no custom species), the loop does not run
    cl.invariant('len(self.custom_indices) == 0 and loop_index == 0', label='no-custom-species')
    cl.invariant('arr(dstate) == entry(arr(dstate), 2) and arr(estate) == entry(arr(estate), 2) and len(dstate) == len(parent.state) and len(estate) == len(parent.state)',
                 label='states-kept')
    D, E = 'result[0].state', 'result[1].state'
    c.ensures('result[0].time == parent.time and result[1].time == parent.time and result[0].initial_time == parent.time and result[1].initial_time == parent.time',
              label='daughters-start-at-the-division-time')
    c.ensures('implies(self.how_to_split_v != 1, result[0].volume + result[1].volume == parent.volume)', label='volume-conserved-unless-duplicated')
    c.ensures('implies(self.how_to_split_v != 1, result[0].volume == parent.volume * %s)' % LPFRAC, label='volume-fraction')
    c.ensures('implies(self.how_to_split_v == 1, result[0].volume == parent.volume and result[1].volume == parent.volume)', label='volume-duplicated')
    c.ensures('result[0].initial_volume == result[0].volume and result[1].initial_volume == result[1].volume', label='birth-volume-recorded')
    c.ensures('implies(parent.volume > 0, result[0].volume > 0 and result[1].volume > 0)', label='volume-positive')
    c.ensures('result[0].divided == -1 and result[1].divided == -1 and result[0].dead == -1 and result[1].dead == -1', label='daughters-neither-divided-nor-dead')
    c.ensures('len(%s) == len(parent.state) and len(%s) == len(parent.state)' % (D, E), label='one-entry-per-species')
    for lbl, part in PERFECT_PARTS:
        c.ensures('forall(lambda s: implies(0 <= s and s < len(parent.state) and %s, %s))'
                  % (is_p('s'), part.format(s='s', p=LPFRAC).replace('dstate', D).replace('estate', E)), label='perfect-species-' + lbl)
    c.ensures('forall(lambda s: implies(0 <= s and s < len(parent.state) and %s, %s[s] + %s[s] == parent.state[s] and '
              '%s[s] == bcount(entry(kappa(), 1) + rsumi(parent.state, self.binomial_indices, ifun("posB", self, s)), trunc(parent.state[s] + 0.5), %s)))'
              % (is_b('s'), D, E, D, LPFRAC), label='binomial-species')
    c.ensures('forall(lambda s: implies(0 <= s and s < len(parent.state) and not %s and not %s, %s[s] == parent.state[s] and %s[s] == parent.state[s]))'
              % (is_p('s'), is_b('s'), D, E), label='duplicated-species')
    c.ensures('arr(parent.state) == old(arr(parent.state)) and parent.volume == old(parent.volume) and parent.time == old(parent.time)',
              label='mother-untouched')
    c.ensures('not same_array(result[0].state, result[1].state) and not same_array(result[0].state, parent.state)', label='daughters-do-not-share-storage')
    c.raises('ValueError')


# ------------------------------------------------------------------------------------------------ partition tables from options
MODE_FIELD = {'binomial': 'binomial_indices', 'perfect': 'perfect_indices', 'duplicate': 'duplicate_indices'}
VMODE = {'binomial': 0, 'duplicate': 1, 'perfect': 2}
SPECIES4 = ['A', 'B', 'Cc', 'D']


def _vec(v):
    if isinstance(v, Arr):
        return None
    return list(v) if isinstance(v, (list, tuple)) else None


def lineage_splitter_init(variant, options, noise=None):
    c = Contract('lineage', 'LineageVolumeSplitter.__init__', PROPS, variant=variant)
    c.concrete_self = lambda ex, cls: ex.allocate(cls)

    def setup(ex, fr):
        ex.force_inline = True
        M = ex.instantiate(ex.program.find_class('LineageModel'), [], dict(
            species=list(SPECIES4), reactions=[(['A'], ['B'], 'massaction', {'k': 1.0})], initial_condition_dict={s: 1 for s in SPECIES4}))
        fr.env['M'] = M
        fr.env['options'] = dict(options)
        fr.env['custom_partition_functions'] = {}
        fr.env['partition_noise'] = ex.fresh('noise', REAL) if noise is None else noise
    for nm in ('M', 'options', 'custom_partition_functions', 'partition_noise'):
        c.hints[nm] = dict(value=None)
    c.setup(setup)

    def check(ex, fr, result):
        ex.force_inline = False
        me, M = fr.env['self'], fr.env['M']
        s2i = M.fields['species2index']
        default = options.get('default', 'binomial')
        want = {f: [] for f in MODE_FIELD.values()}
        for s in SPECIES4:
            want[MODE_FIELD[options.get(s, default)]].append(ex.concrete_int(s2i[s]))
        for f, idxs in want.items():
            got = me.fields.get(f)
            if isinstance(got, Arr):
                n = got.shape[0]
                ok = (isinstance(n, int) or n.is_const()) and ex.concrete_int(n) == len(idxs)
                ex.oblige('post', tm.mk_bool(bool(ok)), label='%s-count' % f, note='expected %d entries' % len(idxs))
                if ok:
                    for k in range(len(idxs)):
                        ex.oblige('post', tm.or_(*[tm.eq(tm.select(got.term, tm.mk_int(k)), tm.mk_int(i)) for i in idxs]), label='%s[%d]-is-a-species-of-that-mode' % (f, k))
                    for i in idxs:
                        ex.oblige('post', tm.or_(*[tm.eq(tm.select(got.term, tm.mk_int(k)), tm.mk_int(i)) for k in range(len(idxs))]),
                                  label='species-%d-listed-in-%s' % (i, f), note='every species with this mode is listed (so the list has no repeats)')
            else:
                lst = _vec(got) or []
                ex.oblige('post', tm.mk_bool(sorted(ex.concrete_int(x) for x in lst) == sorted(idxs)), label='%s-is-the-set-of-species-with-that-mode' % f,
                          note='got %s, expected %s' % (lst, idxs))
        ex.oblige('post', tm.eq(to_term(me.fields.get('how_to_split_v')), tm.mk_int(VMODE[options.get('volume', default)])), label='volume-mode')
        ex.oblige('post', tm.eq(to_term(me.fields.get('partition_noise')), to_term(fr.env['partition_noise'])), label='partition-noise-stored')
    c.after(check)
    c.opt(verify_only=True)
    C.REGISTRY[c.key] = c
    C.ORDER.append(c.key)


lineage_splitter_init('defaults', {})
lineage_splitter_init('per-species-modes', {'A': 'perfect', 'B': 'duplicate', 'D': 'perfect'})
lineage_splitter_init('default-perfect-volume-binomial', {'default': 'perfect', 'volume': 'binomial', 'Cc': 'binomial'})
lineage_splitter_init('default-duplicate', {'default': 'duplicate', 'A': 'binomial'})
lineage_splitter_init('default-perfect', {'default': 'perfect'})
lineage_splitter_init('volume-duplicate', {'volume': 'duplicate', 'B': 'perfect'})


def general_partitioning(variant, options, previous=None):
    """previous: options the SAME splitter object was configured with before (the tables must be those of the last configuration alone)"""
    c = Contract('simulator', 'GeneralVolumeSplitter.py_set_partitioning', PROPS, variant=variant)
    c.concrete_self = lambda ex, cls: ex.instantiate(cls, [], {})

    def setup(ex, fr):
        ex.force_inline = True
        M = ex.instantiate(ex.program.find_class('Model'), [], dict(
            species=list(SPECIES4), reactions=[(['A'], ['B'], 'massaction', {'k': 1.0})], initial_condition_dict={s: 1 for s in SPECIES4}))
        fr.env['m'] = M
        fr.env['options'] = {k: list(v) for k, v in options.items()}
        if previous is not None:
            me = fr.env['self']
            ex.call_method(me, ex.program.find_method(me.cls, 'py_set_partitioning'), [{k: list(v) for k, v in previous.items()}, M], {})
    for nm in ('m', 'options'):
        c.hints[nm] = dict(value=None)
    c.setup(setup)

    def check(ex, fr, result):
        ex.force_inline = False
        me, M = fr.env['self'], fr.env['m']
        s2i = M.fields['species2index']
        known = lambda L: [ex.concrete_int(s2i[s]) for s in L if s in s2i]
        perfect, dup = known(options.get('perfect', [])), known(options.get('duplicate', []))
        want = {'perfect_indices': perfect, 'duplicate_indices': dup,
                'binomial_indices': [ex.concrete_int(s2i[s]) for s in SPECIES4 if ex.concrete_int(s2i[s]) not in perfect + dup]}
        for f, idxs in want.items():
            got = me.fields.get(f)
            lst = [ex.concrete_int(x) for x in got] if isinstance(got, list) else None
            ex.oblige('post', tm.mk_bool(lst is not None and sorted(lst) == sorted(idxs)), label='%s-is-the-set-of-species-with-that-mode-without-repeats' % f,
                      note='got %r, expected %r' % (lst, sorted(idxs)))
    c.after(check)
    c.opt(verify_only=True)
    C.REGISTRY[c.key] = c
    C.ORDER.append(c.key)


general_partitioning('all-binomial', {})
general_partitioning('perfect-and-duplicate', {'perfect': ['A', 'D'], 'duplicate': ['B']})
general_partitioning('unknown-names-ignored', {'perfect': ['Cc', 'nosuch'], 'duplicate': ['alsonot']})
general_partitioning('set-twice', {'duplicate': ['A', 'B', 'Cc', 'D']})
# a splitter configured AGAIN: nothing of the earlier configuration survives (seed C19-d kept the perfect list when the new options have no 'perfect' key)
general_partitioning('reconfigured:perfect-then-duplicate-only', {'duplicate': ['A']}, previous={'perfect': ['A', 'B'], 'duplicate': ['D']})
general_partitioning('reconfigured:perfect-and-duplicate-then-empty', {}, previous={'perfect': ['A'], 'duplicate': ['B', 'Cc']})
general_partitioning('reconfigured:duplicate-then-perfect-only', {'perfect': ['B']}, previous={'duplicate': ['A', 'B']})
general_partitioning('reconfigured:same-options-twice', {'perfect': ['A', 'D'], 'duplicate': ['B']}, previous={'perfect': ['A', 'D'], 'duplicate': ['B']})
