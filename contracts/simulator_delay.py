"""Contracts: DelaySSASimulator.delay_simulate against the step relation R_delay (C10; C06, C09).

The queue is the only DelayQueue implementation (ArrayDelayQueue); its operations are used through their verified contracts
over the abstract view pend(q, r, k) (contracts/simulator_queue.py)."""
from bsvc.contracts import fuc, field_hint
from bsvc import axioms, speclib, terms as tm
from bsvc.terms import REAL, INT
from bsvc.values import Arr, to_term

R0, I0, I1 = tm.mk_real(0), tm.mk_int(0), tm.mk_int(1)


# lin(amt, M, s, n) = sum_{r<n} amt[r] * M[s, r]
def _lin_ax(t, ctx):
    amt, M, s, n = t.args[1:5]
    prev = tm.app('lin', (amt, M, s, tm.sub(n, I1)), REAL)
    return [tm.implies(tm.le(n, I0), tm.eq(t, R0)),
            tm.implies(tm.gt(n, I0), tm.eq(t, tm.add(prev, tm.mul(tm.select(amt, tm.sub(n, I1)),
                                                                   tm.select(tm.select(M, s), tm.sub(n, I1))))))]


axioms.register('lin', _lin_ax, 'lin(c,M,s,0)=0; lin(c,M,s,n)=lin(c,M,s,n-1)+c[n-1]*M[s,n-1]')


@speclib.spec('lin')
def lin(ex, amt, M, s, n):
    return tm.app('lin', (amt.term if isinstance(amt, Arr) else amt, M.term if isinstance(M, Arr) else M, to_term(s), to_term(n)), REAL)


field_hint('DelaySSAResult.timepoints', ndim=1, elem=REAL)

XR = 'entry(c_current_state, 1)'
TH = 'head(c_timepoints[current_index])'
W = '(-ln(U(head(kappa()))) / Lambda)'
PROP = 'ite(Lambda == 0, %s, ite(head(current_time) + %s > %s, %s, head(current_time) + %s))' % (TH, W, TH, TH, W)
QT = 'head(q.next_queue_time)'


@fuc('simulator', 'CSimInterface.compute_delay', props=['C10'])
def _(c):
    c.abstract = True
    c.verify_body = False
    c.requires('rxn_index < self.num_reactions')
    c.ensures('result == ufun("delay_of", self, rxn_index, state, ghost("pvals"), old(kappa()))', label='delay-draw')
    c.modifies('kappa')
    c.note('abstract: the delay of reaction r is a function of (interface, r, state, parameters) and of the stream from the current position')


@fuc('simulator', 'DelaySSASimulator.delay_simulate', props=['C10', 'C06', 'C09', 'C07'])
def _(c):
    c.array('timepoints', ndim=1, elem='Real')
    c.hints['q'] = dict(cls='ArrayDelayQueue', exact=True)
    c.requires('wf_sim(sim) and wf_queue(q) and q.num_reactions == sim.num_reactions')
    c.requires('len(timepoints) >= 1')
    c.requires('timepoints[0] >= sim.initial_time')
    c.assume('forall(lambda k: U(k) > 0)', 'uniform_rv() == 0 excluded')
    main = c.loop(0)
    # "at the firing time plus a delay ... to the resolution of the time grid": slot k is delivered at q.next_queue_time + k*q.dt, so a firing
    # at time t queued at slot_of(q, t + delay) is delivered within one slot of t + delay only if the queue's clock IS the simulation clock:
    # the next delivery time is never in the past and never more than one slot ahead of the current time (from the statement, not the code)
    main.invariant('current_time <= q.next_queue_time and q.next_queue_time <= current_time + q.dt', label='delay-queue-clock-is-the-simulation-clock')
    main.invariant('current_index == num_timepoints or c_timepoints[current_index] >= current_time', label='next-row-is-not-in-the-past')
    main.also_modifies('kappa', 'ghost:pvals', 'c_current_state', 'c_propensity', 'c_results', 'c_q_rxn_amt', 'q.queue',
                       'q.next_queue_time', 'q.start_index')
    main.invariant('current_index <= num_timepoints', label='index')
    main.invariant('num_species == sim.num_species and num_reactions == sim.num_reactions and num_timepoints == len(timepoints)', label='sizes')
    main.invariant('wf_queue(q) and q.num_reactions == sim.num_reactions and q.dt == entry(q.dt, 0) and q.num_cols == entry(q.num_cols, 0)', label='queue-wf')
    main.invariant('rule_step == 0 or rule_step == 1', label='rule-flag')
    # ---- R_delay
    main.step('arr(%s) == afun("rules_state", sim, head(arr(c_current_state)), head(ghost("pvals")), head(current_time), head(rule_step))' % XR,
              label='rules-first')
    main.step('forall(lambda r: implies(0 <= r and r < num_reactions, c_propensity[r] == '
              'ufun("sprop", sim, r, %s, ghost("pvals"), head(current_time))))' % XR, label='propensities-of-rule-updated-state')
    main.step('Lambda == sum_(c_propensity, num_reactions)', label='total-propensity')
    main.step('(move_to_queued_time == 1) == (%s < %s)' % (QT, PROP), label='queue-wins-iff-earlier')
    main.step('current_time == ite(%s < %s, %s, %s)' % (QT, PROP, QT, PROP), label='time-of-the-step')
    main.step('implies(move_to_queued_time == 1, forall(lambda s: implies(0 <= s and s < num_species, c_current_state[s] == %s[s] + '
              'lin(c_q_rxn_amt, sim.delay_update_array, s, num_reactions))) and '
              'forall(lambda r: implies(0 <= r and r < num_reactions, c_q_rxn_amt[r] == head(pend(q, r, 0)))))' % XR,
              label='delivery-applies-delayed-stoichiometry-of-the-head-slot')
    main.step('implies(move_to_queued_time == 1, q.next_queue_time == %s + q.dt and '
              'forall(lambda r, k: implies(in_view(q, r, k) and k < q.num_cols - 1, pend(q, r, k) == head(pend(q, r, k + 1)))) and '
              'forall(lambda r: implies(0 <= r and r < q.num_reactions, pend(q, r, q.num_cols - 1) == 0.0)))' % QT,
              label='delivery-advances-the-queue-once')
    FIRE = '(move_to_queued_time == 0 and reaction_fired == 1)'
    main.step('%s == (not (%s < %s) and Lambda > 0 and head(current_time) + %s <= %s)' % (FIRE, QT, PROP, W, TH), label='fires-iff')
    main.step('implies(%s, 0 <= reaction_choice and reaction_choice < num_reactions and '
              'sum_(c_propensity, reaction_choice) < U(head(kappa()) + 1) * Lambda and '
              'U(head(kappa()) + 1) * Lambda <= sum_(c_propensity, reaction_choice + 1))' % FIRE, label='selection-interval')
    DEL = 'ufun("delay_of", sim, reaction_choice, %s, ghost("pvals"), head(kappa()) + 2)' % XR
    main.step('implies(%s and %s > 0, forall(lambda s: implies(0 <= s and s < num_species, c_current_state[s] == %s[s] + '
              'sim.update_array[s, reaction_choice])) and '
              'forall(lambda r, k: implies(in_view(q, r, k), pend(q, r, k) == head(pend(q, r, k)) + '
              'ite(r == reaction_choice and k == slot_of(q, current_time + %s), 1.0, 0.0))))' % (FIRE, DEL, XR, DEL),
              label='firing-applies-immediate-part-and-queues-the-delayed-part-once')
    main.step('implies(%s and not %s > 0, forall(lambda s: implies(0 <= s and s < num_species, c_current_state[s] == %s[s] + '
              'sim.update_array[s, reaction_choice] + sim.delay_update_array[s, reaction_choice])) and '
              'forall(lambda r, k: implies(in_view(q, r, k), pend(q, r, k) == head(pend(q, r, k)))))' % (FIRE, DEL, XR),
              label='non-positive-delay-acts-as-zero-delay')
    main.step('implies(move_to_queued_time == 0 and reaction_fired == 0, forall(lambda s: implies(0 <= s and s < num_species, '
              'c_current_state[s] == %s[s])) and forall(lambda r, k: implies(in_view(q, r, k), pend(q, r, k) == head(pend(q, r, k)))))' % XR,
              label='grid-step-changes-nothing')
    main.step('forall(lambda m, s: implies(head(current_index) <= m and m < current_index and 0 <= s and s < num_species, '
              'c_results[m, s] == %s[s]))' % XR, label='rows-get-the-pre-event-state')
    main.step('forall(lambda m, s: implies((m < head(current_index) or m >= current_index), c_results[m, s] == head(c_results[m, s])))',
              label='earlier-rows-frozen')
    main.step('current_index == num_timepoints or c_timepoints[current_index] > current_time', label='all-due-rows-recorded')
    # dt rules fire on the next pass only after a step that arrived at a grid time (not after a reaction, not after a queue delivery)
    main.step('rule_step == ite(move_to_queued_time == 0 and reaction_fired == 0, 1, 0)', label='rule-step-flag')
    # ---- inner loops
    rec = c.loop(1)
    rec.invariant('entry(current_index, 1) <= current_index and current_index <= num_timepoints', label='index')
    rec.invariant('forall(lambda m, s: implies(entry(current_index, 1) <= m and m < current_index and 0 <= s and s < num_species, '
                  'c_results[m, s] == c_current_state[s]))', label='rows')
    rec.invariant('forall(lambda m, s: implies(m < entry(current_index, 1) or m >= current_index, c_results[m, s] == entry(c_results[m, s], 1)))',
                  label='frozen')
    cp = c.loop(2)
    cp.invariant('forall(lambda s: implies(0 <= s and s < species_index, c_results[current_index, s] == c_current_state[s]))', label='copied')
    cp.invariant('forall(lambda m, s: implies(m != current_index or s >= species_index, c_results[m, s] == entry(c_results[m, s], 2)))', label='rest')
    dl = c.loop(3)
    dl.invariant('forall(lambda s: implies(0 <= s and s < num_species, c_current_state[s] == entry(c_current_state[s], 3) + '
                 'lin(c_q_rxn_amt, c_delay_stoich, s, reaction_index)))', label='delivered')
    dl.invariant('forall(lambda s: implies(s < 0 or s >= num_species, c_current_state[s] == entry(c_current_state[s], 3)))', label='rest')
    di = c.loop(4)
    di.invariant('forall(lambda s: implies(0 <= s and s < species_index, c_current_state[s] == entry(c_current_state[s], 3) + '
                 'lin(c_q_rxn_amt, c_delay_stoich, s, reaction_index + 1)))', label='done')
    di.invariant('forall(lambda s: implies(species_index <= s and s < num_species, c_current_state[s] == entry(c_current_state[s], 3) + '
                 'lin(c_q_rxn_amt, c_delay_stoich, s, reaction_index)))', label='todo')
    di.invariant('forall(lambda s: implies(s < 0 or s >= num_species, c_current_state[s] == entry(c_current_state[s], 3)))', label='rest')
    u1 = c.loop(5)
    u1.invariant('forall(lambda s: implies(0 <= s and s < species_index, c_current_state[s] == entry(c_current_state[s], 5) + '
                 'c_stoich[s, reaction_choice]))', label='updated')
    u1.invariant('forall(lambda s: implies(s >= species_index, c_current_state[s] == entry(c_current_state[s], 5)))', label='rest')
    u2 = c.loop(6)
    u2.invariant('forall(lambda s: implies(0 <= s and s < species_index, c_current_state[s] == entry(c_current_state[s], 6) + '
                 'c_delay_stoich[s, reaction_choice]))', label='updated')
    u2.invariant('forall(lambda s: implies(s >= species_index, c_current_state[s] == entry(c_current_state[s], 6)))', label='rest')
    c.ensures('result.simulation_result.shape[0] == len(timepoints) and result.simulation_result.shape[1] == sim.num_species',
              label='one-row-per-time-point')
    c.ensures('same_array(result.timepoints, timepoints)', label='time-axis-is-the-request')
    c.ensures('arr(sim.initial_state) == old(arr(sim.initial_state))', label='initial-condition-untouched')
    c.ensures('arr(sim.update_array) == old(arr(sim.update_array)) and arr(sim.delay_update_array) == old(arr(sim.delay_update_array))',
              label='model-stoichiometry-untouched')
    c.opt(result_class='DelaySSAResult')
