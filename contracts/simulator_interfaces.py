"""Contracts: bioscrape/simulator.pyx :: CSimInterface / ModelCSimInterface evaluation loops (C01, C05; used by C03-C06,
C09-C11) and the abstract contracts of the virtual Propensity / Delay / Rule methods they call.

rate_<MODE>(p, state, params, [volume,] time) is an uninterpreted function standing for "the value the propensity object p
returns in that mode"; for each concrete class it is pinned to the closed form by contracts/types_propensities.py.
The four modes are four DIFFERENT symbols, so an interface loop that calls the wrong mode cannot verify.
"""
from bsvc.contracts import fuc, field_hint
from bsvc.terms import REAL

field_hint('CSimInterface.update_array', ndim=2, elem=REAL)
field_hint('CSimInterface.delay_update_array', ndim=2, elem=REAL)
field_hint('CSimInterface.initial_state', ndim=1, elem=REAL)
field_hint('CSimInterface.propensity_buffer', ndim=1, elem=REAL)
field_hint('ModelCSimInterface.np_param_values', ndim=1, elem=REAL)

PROPS = ['C01', 'C03', 'C05', 'C06', 'C09', 'C10', 'C11']
MODES = {'DET': ('get_propensity', 'compute_propensities', ''),
         'VOL': ('get_volume_propensity', 'compute_volume_propensities', 'volume, '),
         'STO': ('get_stochastic_propensity', 'compute_stochastic_propensities', ''),
         'STOVOL': ('get_stochastic_volume_propensity', 'compute_stochastic_volume_propensities', 'volume, ')}

for mode, (pm, im, vol) in MODES.items():
    def abstract(mode=mode, pm=pm, vol=vol):
        @fuc('types', 'Propensity.' + pm, props=PROPS)
        def _(c):
            c.abstract = True
            c.verify_body = False
            c.ensures('result == ufun("rate_%s", self, state, params, %stime)' % (mode, vol))
            c.modifies()
            c.note('abstract contract of the virtual method: a pure function of (object, state, params, volume, time)')
    abstract()

    def loop(mode=mode, im=im, vol=vol):
        @fuc('simulator', 'ModelCSimInterface.' + im, props=PROPS)
        def _(c):
            c.requires('len(propensity_destination) >= self.num_reactions and len(self.c_propensities[0]) >= self.num_reactions')
            val = 'ufun("rate_%s", self.c_propensities[0][%%s], state, self.c_param_values, %stime)' % (mode, vol)
            c.loop(0).invariant('forall(lambda q: implies(0 <= q and q < rxn, propensity_destination[q] == %s))' % (val % 'q')) \
                     .invariant('forall(lambda q: implies(q >= rxn, propensity_destination[q] == old(propensity_destination[q])))',
                                label='rest')
            c.ensures('forall(lambda q: implies(0 <= q and q < self.num_reactions, propensity_destination[q] == %s))' % (val % 'q'),
                      label='each-reaction-in-mode-' + mode)
            c.ensures('forall(lambda q: implies(q >= self.num_reactions, propensity_destination[q] == old(propensity_destination[q])))',
                      label='frame-tail')
            c.modifies('propensity_destination')
    loop()
