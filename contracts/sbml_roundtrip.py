"""Contracts: round trip  Model --generate_sbml_model--> document --import_sbml--> Model'  (C12).

Function under contract: bioscrape/sbmlutil.py :: import_sbml, with the precondition "the document is what the real
Model.generate_sbml_model wrote for model M" established by executing the real exporter symbolically on M in the set-up
(so both halves are the real code; the libsbml record passes between them as it is - assumed write/read identity).

Postconditions (the clauses of the statement), for one concrete model SHAPE with all numbers symbolic:
  species and initial values, parameter values, immediate and delayed stoichiometry (compared by species NAME), rate laws equal
  at every state in deterministic / stochastic / volume / stochastic-volume form (real propensity objects of both models
  executed on the same named state), delay class and the values of its parameters, the repeated/scheduled rules (same
  frequency flag, same effect of the real rule operation on the same state).
Second contract: Model.generate_sbml_model called twice gives equal records up to the model id.
"""
from bsvc.contracts import Contract
from bsvc import contracts as C, terms as tm
from bsvc.terms import REAL, INT
from bsvc.values import Arr, Obj, to_term
from contracts import types_model_shapes as shapes
from spec import libsbml_stub as ls, sbml_formula as sf

PROPS = ['C12']
SPECS = {}
AS = tm.ArraySort(INT, REAL)


def build_model(ex, species, reactions, parameters, rules, vals):
    plist = []
    for nm in parameters:
        vals[nm] = ex.fresh('val_' + nm, REAL)
        ex.assume(tm.gt(vals[nm], tm.mk_real(0)))
        plist.append((nm, vals[nm]))

    def conv(d):
        out = {}
        for k, v in (d or {}).items():
            if isinstance(v, str) and v.startswith('$'):
                if v[1:] not in vals:
                    vals[v[1:]] = ex.fresh('num_' + v[1:], REAL)
                    ex.assume(tm.gt(vals[v[1:]], tm.mk_real(0)))
                out[k] = vals[v[1:]]
            else:
                out[k] = v
        return out
    rx = []
    for spec in reactions:
        spec = list(spec)
        spec[3] = conv(spec[3])
        if len(spec) == 8:
            spec[7] = conv(spec[7])
        rx.append(tuple(spec))
    x0 = {s: ex.fresh('x0_' + s, REAL) for s in species}
    for v in x0.values():
        ex.assume(tm.ge(v, tm.mk_real(0)))
    M = ex.instantiate(ex.program.find_class('Model'), [], dict(species=list(species), reactions=rx, parameters=plist,
                                                              rules=[tuple(r) for r in rules], initial_condition_dict=x0))
    return M, x0


def named_state(ex, M, xs, name):
    s2i = M.fields['species2index']
    t = tm.constarr(AS, tm.mk_real(0))
    for s, v in xs.items():
        if s in s2i:
            t = tm.store(t, to_term(s2i[s]), v)
    return Arr(t, [len(s2i)], REAL, 'ptr', name)


def roundtrip_contract(variant, species, reactions, parameters, stochastic, rules=()):
    c = Contract('sbmlutil', 'import_sbml', PROPS, variant='roundtrip:%s:%s' % (variant, 'stochastic' if stochastic else 'deterministic'))
    SPECS[c.variant] = dict(species=list(species), reactions=[list(r) for r in reactions], parameters=list(parameters), rules=[list(r) for r in rules],
                            stochastic=stochastic)

    def setup(ex, fr):
        vals = {}
        ex.force_inline = True
        M, x0 = build_model(ex, species, reactions, parameters, rules, vals)
        f = ex.program.find_method(M.cls, 'generate_sbml_model')
        res = ex.call_method(M, f, [stochastic], {})
        fr.env['sbml_file'] = res[0]
        fr.env['bioscrape_model'] = None
        fr.env['input_printout'] = False
        fr.env['kwargs'] = {}
        fr.env['_M'] = M
        fr.env['_x0'] = x0
    for nm in ('sbml_file', 'bioscrape_model', 'input_printout', 'kwargs'):
        c.hints[nm] = dict(value=None)
    c.setup(setup)

    def check(ex, fr, result):
        ex.force_inline = False
        M, M2 = fr.env['_M'], result
        if not isinstance(M2, Obj) or M2.clsname != 'Model':
            ex.oblige('post', tm.FALSE, label='returns-a-model')
            return
        s2i, s2i2 = M.fields['species2index'], M2.fields['species2index']
        p2i, p2i2 = M.fields['params2index'], M2.fields['params2index']
        ex.oblige('post', tm.mk_bool(sorted(s2i) == sorted(s2i2)), label='same-species', note='%s / %s' % (sorted(s2i), sorted(s2i2)))
        for s in s2i:
            if s in s2i2:
                ex.oblige('post', tm.eq(tm.select(M.fields['species_values'].term, to_term(s2i[s])),
                                        tm.select(M2.fields['species_values'].term, to_term(s2i2[s]))), label='initial-value[%s]' % s)
        ex.oblige('post', tm.mk_bool(sorted(p2i) == sorted(p2i2)), label='same-parameters', note='%s / %s' % (sorted(p2i), sorted(p2i2)))
        for p in p2i:
            if p in p2i2:
                ex.oblige('post', tm.eq(tm.select(M.fields['params_values'].term, to_term(p2i[p])),
                                        tm.select(M2.fields['params_values'].term, to_term(p2i2[p]))), label='parameter-value[%s]' % p)
        nr, nr2 = len(M.fields['reaction_list']), len(M2.fields['reaction_list'])
        ex.oblige('post', tm.mk_bool(nr == nr2), label='same-number-of-reactions', note='%d / %d' % (nr, nr2))
        for fld in ('update_array', 'delay_update_array'):
            U, U2 = M.fields[fld], M2.fields[fld]
            for r in range(min(nr, nr2)):
                for s in s2i:
                    if s in s2i2:
                        a = tm.select(tm.select(U.term, to_term(s2i[s])), tm.mk_int(r))
                        b = tm.select(tm.select(U2.term, to_term(s2i2[s])), tm.mk_int(r))
                        ex.oblige('post', tm.eq(a, b), label='%s[%s,%d]' % (fld, s, r))
        # ---- rate laws at a common named state
        xs = {s: ex.fresh('x_' + s, REAL) for s in s2i}
        for v in xs.values():
            ex.assume(tm.ge(v, tm.mk_real(0)))
        V = ex.fresh('V', REAL)
        ex.assume(tm.gt(V, tm.mk_real(0)))
        st, st2 = named_state(ex, M, xs, 'st'), named_state(ex, M2, xs, 'st2')
        for r in range(min(nr, nr2)):
            for mode in ('DET', 'STO', 'VOL', 'STOVOL'):
                a = to_term(shapes.prop_rate(ex, M, r, mode, st, V))
                b = to_term(shapes.prop_rate(ex, M2, r, mode, st2, V))
                ex.oblige('post', tm.eq(a, b), label='rate[%d,%s]' % (r, mode), note='rate law of reaction %d agrees in %s form at every state' % (r, mode))
            d, d2 = M.fields['reaction_list'][r][1], M2.fields['reaction_list'][r][1]
            ex.oblige('post', tm.mk_bool(d.clsname == d2.clsname), label='delay-type[%d]' % r, note='%s / %s' % (d.clsname, d2.clsname))
            if d.clsname == d2.clsname:
                for fn, v in d.fields.items():
                    if fn.endswith('_index') and fn in d2.fields:
                        ex.oblige('post', tm.eq(tm.select(M.fields['params_values'].term, to_term(v)),
                                                tm.select(M2.fields['params_values'].term, to_term(d2.fields[fn]))), label='delay-parameter[%d,%s]' % (r, fn[:-6]))
        # ---- rules
        def rule_objs(m):
            out = m.fields['repeat_rules']
            return list(out.objs) if isinstance(out, Arr) else list(out)
        R, R2 = rule_objs(M), rule_objs(M2)
        ex.oblige('post', tm.mk_bool(len(R) == len(R2)), label='same-number-of-rules', note='%d / %d' % (len(R), len(R2)))
        for i in range(min(len(R), len(R2))):
            ex.oblige('post', tm.eq(to_term(R[i].fields['frequency_flag']), to_term(R2[i].fields['frequency_flag'])), label='rule%d:frequency' % i)
            outs = []
            for (m, rule, stx) in ((M, R[i], st), (M2, R2[i], st2)):
                s_arr = Arr(stx.term, list(stx.shape), REAL, 'ptr', 'rs')
                p_arr = Arr(m.fields['params_values'].term, [len(m.fields['params2index'])], REAL, 'ptr', 'rp')
                f = ex.program.find_method(rule.cls, 'rule_operation')
                ex.force_inline = True
                try:
                    ex.call_method(rule, f, [s_arr, p_arr, tm.mk_real(0), tm.mk_real(1)], {})
                finally:
                    ex.force_inline = False
                outs.append((s_arr, p_arr))
            for s in s2i:
                if s in s2i2:
                    ex.oblige('post', tm.eq(tm.select(outs[0][0].term, to_term(s2i[s])), tm.select(outs[1][0].term, to_term(s2i2[s]))),
                              label='rule%d:effect-on-%s' % (i, s))
            for p in p2i:
                if p in p2i2:
                    ex.oblige('post', tm.eq(tm.select(outs[0][1].term, to_term(p2i[p])), tm.select(outs[1][1].term, to_term(p2i2[p]))),
                              label='rule%d:effect-on-parameter-%s' % (i, p))
    c.after(check)
    c.opt(verify_only=True)
    C.REGISTRY[c.key] = c
    C.ORDER.append(c.key)
    return c


def same_record(a, b, path, diffs, top=True):
    if a.kind != b.kind:
        diffs.append('%s: %s / %s' % (path, a.kind, b.kind))
        return
    ka = {k: v for k, v in a.attrs.items() if not (a.kind == 'Model' and k == 'Id')}
    kb = {k: v for k, v in b.attrs.items() if not (b.kind == 'Model' and k == 'Id')}
    if set(ka) != set(kb):
        diffs.append('%s: attributes %s / %s' % (path, sorted(ka), sorted(kb)))
    for k in ka:
        if k in kb and not (ka[k] is kb[k] or ka[k] == kb[k]):
            diffs.append('%s.%s: %r / %r' % (path, k, ka[k], kb[k]))
    if a.math != b.math:
        diffs.append('%s: math %r / %r' % (path, a.math, b.math))
    if a.annotation != b.annotation:
        diffs.append('%s: annotation %r / %r' % (path, a.annotation, b.annotation))
    for ln in set(a.lists) | set(b.lists):
        la, lb = a.lists.get(ln, []), b.lists.get(ln, [])
        if len(la) != len(lb):
            diffs.append('%s.%s: %d / %d children' % (path, ln, len(la), len(lb)))
        for i, (x, y) in enumerate(zip(la, lb)):
            same_record(x, y, '%s.%s[%d]' % (path, ln, i), diffs, False)


def twice_contract(variant, species, reactions, parameters, stochastic, rules=()):
    c = Contract('types', 'Model.generate_sbml_model', PROPS, variant='written-twice:%s:%s' % (variant, 'stochastic' if stochastic else 'deterministic'))

    def cself(ex, cls):
        ex.force_inline = True
        try:
            M, x0 = build_model(ex, species, reactions, parameters, rules, {})
        finally:
            ex.force_inline = False
        M.name = 'self'
        return M
    c.concrete_self = cself
    c.hints['stochastic_model'] = dict(value=stochastic)
    c.hints['keywords'] = dict(value=lambda ex: {})

    def check(ex, fr, result):
        M = fr.env['self']
        f = ex.program.find_method(M.cls, 'generate_sbml_model')
        ex.force_inline = True
        try:
            second = ex.call_method(M, f, [stochastic], {})
        finally:
            ex.force_inline = False
        diffs = []
        same_record(result[0], second[0], 'document', diffs)
        ex.oblige('post', tm.mk_bool(not diffs), label='same-document-up-to-model-id', note='; '.join(diffs[:5]) or 'records equal')
    c.after(check)
    c.opt(verify_only=True)
    C.REGISTRY[c.key] = c
    C.ORDER.append(c.key)


SPECIES = ['A', 'B', 'C', 'D', 'P']
HILLPD = {'k': 'kf', 'K': 'Kd', 'n': 'nh', 's1': 'A'}
DELAYS = {'fixed': {'delay': '$tau'}, 'gaussian': {'mean': '$mu', 'std': '$sd'}, 'gamma': {'k': '$gk', 'theta': '$gth'}}
DELAYS_NAMED = {'fixed': {'delay': 'tau'}, 'gaussian': {'mean': 'mu', 'std': 'sd'}, 'gamma': {'k': 'gk', 'theta': 'gth'}}

for stochastic in (False, True):
    for pat in shapes.patterns(4):
        roundtrip_contract('massaction:' + ('*'.join(pat) or '0'), SPECIES, [(list(pat), ['P', 'A', 'A'], 'massaction', {'k': 'kf'})], ['kf'], stochastic)
    roundtrip_contract('massaction-numeric:B*A*A', SPECIES, [(['B', 'A', 'A'], ['P'], 'massaction', {'k': '$k'})], [], stochastic)
    for kind in ('hillpositive', 'hillnegative', 'proportionalhillpositive', 'proportionalhillnegative'):
        pd = dict(HILLPD)
        if kind.startswith('proportional'):
            pd['d'] = 'B'
        roundtrip_contract(kind, SPECIES, [(['C'], ['P'], kind, pd)], ['kf', 'Kd', 'nh'], stochastic)
        roundtrip_contract(kind + ':numeric', SPECIES, [([], ['P'], kind, dict(pd, k='$k', K='$K', n='$n'))], [], stochastic)
    roundtrip_contract('general', SPECIES, [(['A'], ['P'], 'general', {'rate': 'kf*A*B/(Kd+A)'})], ['kf', 'Kd'], stochastic)
    roundtrip_contract('general:python-power', SPECIES, [(['A', 'A'], ['P'], 'general', {'rate': 'kf*A**2 + Kd*volume'})], ['kf', 'Kd'], stochastic)
    for dt in DELAYS:
        roundtrip_contract('delay:%s:numeric' % dt, SPECIES, [(['A', 'B'], ['C'], 'massaction', {'k': 'kf'}, dt, ['C'], ['D', 'D', 'P'], DELAYS[dt])], ['kf'], stochastic)
        roundtrip_contract('delay:%s:named' % dt, SPECIES, [(['A'], [], 'massaction', {'k': 'kf'}, dt, ['B', 'B'], ['A'], DELAYS_NAMED[dt])],
                           ['kf'] + list(DELAYS_NAMED[dt].values()), stochastic)
    roundtrip_contract('delay:fixed:no-delayed-reactants', SPECIES, [(['A'], [], 'massaction', {'k': 'kf'}, 'fixed', [], ['P'], {'delay': '$tau'})], ['kf'], stochastic)
    for freq in ('repeated', 'start', 'dt', '0.5'):
        roundtrip_contract('rules:assignment:' + freq, SPECIES, [(['A'], ['B'], 'massaction', {'k': 'kf'})], ['kf', 'Kd'], stochastic,
                           rules=[('assignment', {'equation': 'C = kf * A + B'}, freq), ('assignment', {'equation': 'Kd = A * 2'}, freq)])
        roundtrip_contract('rules:additive:' + freq, SPECIES, [(['A'], ['B'], 'massaction', {'k': 'kf'})], ['kf'], stochastic,
                           rules=[('additive', {'equation': 'D = A + B + C'}, freq)])
    roundtrip_contract('rules:assignment:unary-minus-on-a-power', SPECIES, [(['A'], ['B'], 'massaction', {'k': 'kf'})], ['kf'], stochastic,
                       rules=[('assignment', {'equation': 'C = -A^2 + 20*kf'}, 'repeated'), ('assignment', {'equation': 'D = kf*exp(-B^2/4) + A'}, 'repeated')])
    # several reactions: what is written for one reaction must not leak into the next (delayed / plain in both orders, different families)
    roundtrip_contract('multi:delayed-then-plain', SPECIES, [(['A', 'B'], ['C'], 'massaction', {'k': 'kf'}, 'gaussian', ['C'], ['D'], {'mean': '$mu', 'std': '$sd'}),
                                                              (['C'], ['A'], 'massaction', {'k': '$k2'}),
                                                              ([], ['P'], 'hillpositive', dict(HILLPD))], ['kf', 'Kd', 'nh'], stochastic)
    roundtrip_contract('multi:interleaved', SPECIES, [(['A'], ['B'], 'massaction', {'k': 'kf'}),
                                                       (['B'], [], 'massaction', {'k': 'kf'}, 'fixed', [], ['P', 'P'], {'delay': '$tau'}),
                                                       (['P'], ['D'], 'general', {'rate': 'kf*P/(Kd+P)'}),
                                                       (['D'], ['A'], 'massaction', {'k': '$k3'}, 'gamma', ['A'], ['C'], {'k': '$gk', 'theta': '$gth'}),
                                                       ([], ['A'], 'massaction', {'k': '$k4'})], ['kf', 'Kd'], stochastic)
    twice_contract('mixed', SPECIES, [(['A', 'B'], ['C'], 'massaction', {'k': 'kf'}, 'gaussian', ['C'], ['D'], {'mean': '$mu', 'std': '$sd'}),
                                      (['C'], ['P'], 'hillpositive', dict(HILLPD, k='$k')),
                                      ([], ['A'], 'general', {'rate': 'kf*B/(Kd+B)'})], ['kf', 'Kd', 'nh'], stochastic,
                   rules=[('assignment', {'equation': 'D = A + B'}, 'repeated')])
# numeric (non-text) rule frequency: accepted by create_rule (float(rule_frequency) >= 0); the export must not raise
twice_contract('rules:assignment:numeric-frequency', SPECIES, [(['A'], ['B'], 'massaction', {'k': 'kf'})], ['kf'], False,
               rules=[('assignment', {'equation': 'C = kf * A + B'}, 0.5)])
roundtrip_contract('rules:assignment:numeric-frequency', SPECIES, [(['A'], ['B'], 'massaction', {'k': 'kf'})], ['kf'], False,
                   rules=[('assignment', {'equation': 'C = kf * A + B'}, 0.5)])
# time-point frequencies in every spelling float() accepts: exponent form as text, and floats whose str() is in exponent form
# (seed C12-d accepted plain decimals only and silently turned the others into "repeated")
for _tag, _freq in (('text-exponent', '2.5e1'), ('text-small-exponent', '1e-3'), ('float-exponent-form', 5e-05), ('text-leading-dot', '.5'), ('integer', 3)):
    roundtrip_contract('rules:assignment:frequency-' + _tag, SPECIES, [(['A'], ['B'], 'massaction', {'k': 'kf'})], ['kf'], False,
                       rules=[('assignment', {'equation': 'C = kf * A + B'}, _freq), ('additive', {'equation': 'D = A + B'}, 'dt')])
# species whose names equal a reserved word of the expression language up to case (T, Volume, Time): valid SBML ids and ordinary species for
# the case-sensitive parser; they round-trip with their initial values like any other (seed C12-e filtered them case-insensitively on import)
for _sto in (False, True):
    roundtrip_contract('species-named-like-keywords', ['A', 'T', 'Volume', 'P'],
                       [(['A'], ['T'], 'massaction', {'k': 'kf'}), (['T'], ['P'], 'general', {'rate': 'kf*T/(1 + Volume)'}), (['P'], [], 'hillnegative', dict(HILLPD, s1='Volume'))],
                       ['kf', 'Kd', 'nh'], _sto)
