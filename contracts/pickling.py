"""Contracts: __getstate__/__setstate__/__reduce__ pairs (C17).  View = every declared field of the class (read mechanically from
the .pxd / cdef declarations on every run): restoring the state tuple produced by __getstate__ into a fresh object of the same
class reproduces every declared field that some method reads, and rebuilds the C pointer vectors from the restored lists.
pickle / copy.deepcopy themselves (object graph reproduced through these methods, fresh objects) are an assumed contract."""
from bsvc.contracts import Contract
from bsvc import contracts as C, terms as tm
from bsvc.terms import T, REAL, INT
from bsvc.values import Arr, Obj, to_term
from bsvc.ir import walk

MODEL = dict(species=['A', 'B', 'Cc'],
             reactions=[(['A', 'B'], ['Cc'], 'massaction', {'k': 'k1'}),
                        (['Cc'], ['A'], 'massaction', {'k': 0.5}, 'gaussian', [], ['B'], {'mean': 1.0, 'std': 0.1}),
                        ([], ['A'], 'proportionalhillpositive', {'k': 1.0, 'K': 2.0, 'n': 2, 's1': 'Cc', 'd': 'B'})],
             parameters=[('k1', 1.5)], rules=[('additive', {'equation': 'Cc = A + B'}, 'dt')],
             initial_condition_dict={'A': 4, 'B': 1, 'Cc': 0})


def fields_read(program, cls):
    """declared fields that some method of the class (or its bases) reads through self"""
    out = set()
    for k in program.mro(cls):
        for f in k.methods.values():
            if f.body is None or not f.params:
                continue
            selfname = f.params[0][0]
            for n in walk(f.body):
                if n.k == 'Attr' and n.obj.k == 'Name' and n.obj.id == selfname:
                    out.add(n.attr)
    return out


def same_value(ex, a, b):
    if isinstance(a, Arr) and isinstance(b, Arr):
        # the same array object, or a copy with the same contents and shape
        return a.oid == b.oid or (a.term == b.term and len(a.shape) == len(b.shape) and
                                  all(same_value(ex, x, y) for x, y in zip(a.shape, b.shape)))
    if isinstance(a, (Arr, Obj)) or isinstance(b, (Arr, Obj)):
        return a is b or (isinstance(a, (Arr, Obj)) and isinstance(b, (Arr, Obj)) and a.oid == b.oid)
    if isinstance(a, T) or isinstance(b, T):
        try:
            e = tm.eq(to_term(a), to_term(b))
            return e.is_const() and e.value()
        except Exception:
            return False
    if isinstance(a, (list, tuple)) and isinstance(b, (list, tuple)):
        return len(a) == len(b) and all(same_value(ex, x, y) for x, y in zip(a, b))
    if isinstance(a, dict) and isinstance(b, dict):
        return set(a) == set(b) and all(same_value(ex, a[k], b[k]) for k in a)
    return a == b


def roundtrip_contract(module, clsname, build, variant='', skip=(), param='state'):
    c = Contract(module, clsname + '.__setstate__', ['C17'], variant=variant or 'roundtrip')
    c.concrete_self = lambda ex, cls: ex.allocate(cls)

    def setup(ex, fr):
        ex.force_inline = True
        try:
            orig = build(ex)
            st = ex.call_method(orig, ex.program.find_method(orig.cls, '__getstate__'), [], {})
        finally:
            ex.force_inline = False
        fr.env['orig'] = orig
        fr.env[param] = st
    c.hints[param] = dict(value=None)
    c.setup(setup)

    def check(ex, fr, result):
        orig, new = fr.env['orig'], fr.env['self']
        cls = orig.cls
        declared = ex.program.all_fields(cls)
        used = fields_read(ex.program, cls)
        for name in sorted(declared):
            if name in skip or name not in used:
                continue
            a, b = orig.fields.get(name), new.fields.get(name)
            if name.startswith('c_') and isinstance(b, list) and name[2:] in new.fields and isinstance(new.fields[name[2:]], list):
                # C pointer vector: must be rebuilt from the restored python list (same objects, same order)
                a = new.fields[name[2:]]
            ok = same_value(ex, a, b)
            ex.oblige('post', tm.mk_bool(bool(ok)), label='field-%s-restored' % name,
                      note='declared field %s.%s (read by a method) equals the original after __setstate__(__getstate__())' % (cls.name, name))
    c.after(check)
    c.opt(verify_only=True)
    C.REGISTRY[c.key] = c
    C.ORDER.append(c.key)


def build_model(ex):
    return ex.instantiate(ex.program.find_class('Model'), [], {k: (list(v) if isinstance(v, list) else dict(v)) for k, v in MODEL.items()})


def build_uninitialised(ex):
    kw = {k: (list(v) if isinstance(v, list) else dict(v)) for k, v in MODEL.items()}
    kw['initialize_model'] = False
    return ex.instantiate(ex.program.find_class('Model'), [], kw)


def build_edited(ex):
    """initialised, then edited (a reaction added) and not initialised again: `initialized` is False while the matrices of the
    last initialisation are still there"""
    m = build_model(ex)
    ex.call_method(m, ex.program.find_method(m.cls, 'create_reaction'), [['B'], ['A', 'A'], 'massaction', {'k': 'k1'}], {})
    return m


roundtrip_contract('types', 'Model', build_model, 'initialised')
roundtrip_contract('types', 'Model', build_edited, 'initialised-then-edited')
roundtrip_contract('types', 'Model', build_uninitialised, 'not-initialised')


def build_lineage(ex):
    kw = {k: (list(v) if isinstance(v, list) else dict(v)) for k, v in MODEL.items()}
    return ex.instantiate(ex.program.find_class('LineageModel'), [], kw)


roundtrip_contract('lineage', 'LineageModel', build_lineage, 'initialised')


def build_lineage_full(ex, initialise=True):
    """a lineage model with a growth event, a division rule with its splitter and a death event"""
    m = build_lineage(ex)
    P = ex.program
    call = lambda name, args: ex.call_method(m, P.find_method(m.cls, name), args, {})
    call('create_volume_event', ['linear volume', {'growth_rate': 1.0}, 'massaction', {'k': 1.2, 'species': ''}])
    vs = ex.instantiate(P.find_class('LineageVolumeSplitter'), [m], dict(options={'default': 'binomial', 'A': 'perfect', 'B': 'duplicate'}))
    call('create_division_rule', ['deltaV', {'threshold': 1.0}, vs])
    call('create_death_event', ['death', {}, 'massaction', {'k': 0.1, 'species': ''}])
    vs2 = ex.instantiate(P.find_class('LineageVolumeSplitter'), [m], dict(options={'default': 'perfect', 'volume': 'perfect'}))
    call('create_division_event', ['division', {}, 'massaction', {'k': 0.05, 'species': ''}, vs2])
    call('create_volume_rule', ['linear', {'growth_rate': 0.5}])
    call('create_death_rule', ['species', {'specie': 'A', 'threshold': 50, 'comp': '>'}])
    if initialise:
        call('py_initialize', [])
    return m


roundtrip_contract('lineage', 'LineageModel', build_lineage_full, 'with-growth-division-death')
# the same definition copied while NOT initialised (built and never initialised / edited after the last initialisation): every list that is
# part of the definition comes back (seed C17-d blanked the rule lists of a not-initialised lineage model)
roundtrip_contract('lineage', 'LineageModel', lambda ex: build_lineage_full(ex, initialise=False), 'with-growth-division-death:not-initialised')


def build_lineage_edited(ex):
    m = build_lineage_full(ex)
    ex.call_method(m, ex.program.find_method(m.cls, 'create_volume_rule'), ['linear', {'growth_rate': 0.25}], {})
    return m


roundtrip_contract('lineage', 'LineageModel', build_lineage_edited, 'with-growth-division-death:initialised-then-edited')


# n-ary expression nodes: __reduce__ -> restore_binary_term
def binary_term_contract(clsname):
    c = Contract('types', 'restore_binary_term', ['C17'], variant=clsname)

    def setup(ex, fr):
        cls = ex.program.find_class(clsname)
        ex.force_inline = True
        try:
            t = ex.instantiate(cls, [], {})
            kids = [ex.instantiate(ex.program.find_class('ConstantTerm'), [tm.mk_real(i + 1)], {}) for i in range(3)]
            for k in kids:
                ex.call_method(t, ex.program.find_method(cls, 'py_add_term'), [k], {})
            red = ex.call_method(t, ex.program.find_method(cls, '__reduce__'), [], {})
        finally:
            ex.force_inline = False
        fr.env['orig'] = t
        fr.env['reduced'] = red
        fr.env['state'], fr.env['ClassName'] = red[1]
    for nm in ('state', 'ClassName'):
        c.hints[nm] = dict(value=None)
    c.setup(setup)
    c.ensures('reduced[0] == restore_fn()', label='reduce-names-the-restore-function')
    c.ensures('result.__class__ == orig.__class__', label='same-node-class')
    c.ensures('len(result.terms_list) == 3 and len(result.terms) == 3', label='children-count')
    c.ensures('result.terms_list[0] is orig.terms_list[0] and result.terms_list[1] is orig.terms_list[1] and result.terms_list[2] is orig.terms_list[2]',
              label='children-in-order')
    c.opt(verify_only=True)
    C.REGISTRY[c.key] = c
    C.ORDER.append(c.key)


from bsvc import speclib
from bsvc.values import FuncRef


@speclib.spec('restore_fn')
def restore_fn(ex):
    return FuncRef(ex.program.module('types').functions['restore_binary_term'])


for k in ('SumTerm', 'ProductTerm', 'MaxTerm', 'MinTerm'):
    binary_term_contract(k)


# ---- results, cell states, lineages
def build_schnitz(ex):
    S = ex.program.find_class('Schnitz')
    mk = lambda n: Arr(ex.fresh(n, tm.ArraySort(INT, REAL)), [3], REAL, 'ndarray', n)
    data = Arr(ex.fresh('sdata', tm.ArraySort(INT, tm.ArraySort(INT, REAL))), [3, 2], REAL, 'ndarray', 'sdata')
    mother = ex.instantiate(S, [mk('t0'), data, mk('v0')], {})
    d1 = ex.instantiate(S, [mk('t1'), data, mk('v1')], {})
    d2 = ex.instantiate(S, [mk('t2'), data, mk('v2')], {})
    ex.call_method(mother, ex.program.find_method(S, 'py_set_daughters'), [d1, d2], {})
    ex.call_method(d1, ex.program.find_method(S, 'py_set_parent'), [mother], {})
    return mother


roundtrip_contract('types', 'Schnitz', build_schnitz, 'mother-with-daughters')
# a schnitz travelling on its own (a leaf, a sub-lineage root): its link to its mother is part of its state (seed C17-e dropped the parent
# link from the schnitz's own state and rebuilt it only inside a whole Lineage)
roundtrip_contract('types', 'Schnitz', lambda ex: build_schnitz(ex).fields['daughter1'], 'daughter-with-a-mother')


def build_lineage_obj(ex):
    L = ex.instantiate(ex.program.find_class('Lineage'), [], {})
    m = build_schnitz(ex)
    for s in (m, m.fields['daughter1'], m.fields['daughter2']):
        ex.call_method(L, ex.program.find_method(L.cls, 'py_add_schnitz'), [s], {})
    return L


roundtrip_contract('types', 'Lineage', build_lineage_obj, 'three-schnitzes')


def build_vcs(ex):
    K = ex.program.find_class('VolumeCellState', prefer='simulator')
    st = Arr(ex.fresh('cstate', tm.ArraySort(INT, REAL)), [3], REAL, 'ndarray', 'cstate')
    return ex.instantiate(K, [], dict(time=ex.fresh('ctime', REAL), state=st, volume=ex.fresh('cvol', REAL)))


roundtrip_contract('simulator', 'VolumeCellState', build_vcs, 'time-state-volume', skip=('volume_object',))


# ---- every class of the families named by the statement is picklable: attribute-wise (auto pickle: all C attributes
# convertible) or through its own __reduce__ / __getstate__ pair -- decided from the declarations on every run
FAMILIES = ['Propensity', 'Term', 'Delay', 'Rule', 'Volume', 'VolumeSplitter', 'CellState', 'SSAResult', 'Schnitz', 'Lineage', 'Model',
            'Event', 'DelayQueue']


def picklability_contract():
    c = Contract('types', 'Propensity.__init__', ['C17'], variant='picklability-of-every-class')

    def check(ex, fr, result):
        seen = set()
        for base in FAMILIES:
            for cls in ex.program.subclasses(base):
                if cls.name in seen or not getattr(cls.module, 'is_pyx', False):
                    continue
                seen.add(cls.name)
                fields = ex.program.all_fields(cls)
                bad = sorted(n for n, ct in fields.items() if ct[0] in ('ptr', 'memview', 'voidptr') or (ct[0] == 'vector' and ct[1][0] in ('void', 'ptr')))
                own = any(ex.program.find_method(cls, m, with_body=True) is not None for m in ('__reduce__', '__getstate__'))
                ex.oblige('post', tm.mk_bool(own or not bad), label='picklable-%s' % cls.name,
                          note='%s: C attributes %s are not attribute-wise picklable; needs its own __reduce__/__getstate__' % (cls.name, bad))
    c.after(check)
    c.opt(verify_only=True)
    C.REGISTRY[c.key] = c
    C.ORDER.append(c.key)


picklability_contract()


# ---- lineage cell states: __getstate__/__setstate__ pair and the __reduce__ route (class + constructor arguments)
def build_lvcs(ex):
    K = ex.program.find_class('LineageVolumeCellState')
    st = Arr(ex.fresh('lstate', tm.ArraySort(INT, REAL)), [3], REAL, 'ndarray', 'lstate')
    return ex.instantiate(K, [], dict(v0=ex.fresh('lv0', REAL), t0=ex.fresh('lt0', REAL), state=st, volume=ex.fresh('lvol', REAL), time=ex.fresh('ltime', REAL),
                                      divided=ex.fresh('ldivided', INT), dead=ex.fresh('ldead', INT)))     # arbitrary codes (a default value here hid seed C17-c)


roundtrip_contract('lineage', 'LineageVolumeCellState', build_lvcs, 'birth-and-current-values', skip=('volume_object', 'delay_queue'), param='state_tuple')


def lvcs_reduce_contract():
    c = Contract('lineage', 'LineageVolumeCellState.__reduce__', ['C17'], variant='reconstruct-from-class-and-arguments')
    c.concrete_self = lambda ex, cls: build_lvcs(ex)

    def check(ex, fr, result):
        orig = fr.env['self']
        ok = isinstance(result, tuple) and len(result) == 2
        ex.oblige('post', tm.mk_bool(ok), label='class-and-arguments')
        if not ok:
            return
        klass, args = result
        ex.force_inline = True
        try:
            new = ex.instantiate(klass.cls if hasattr(klass, 'cls') else orig.cls, list(args), {})
        finally:
            ex.force_inline = False
        for name in ('initial_volume', 'initial_time', 'volume', 'time', 'divided', 'dead', 'state', 'state_set'):
            ex.oblige('post', tm.mk_bool(bool(same_value(ex, orig.fields.get(name), new.fields.get(name)))), label='field-%s-reconstructed' % name)
    c.after(check)
    c.opt(verify_only=True)
    C.REGISTRY[c.key] = c
    C.ORDER.append(c.key)


lvcs_reduce_contract()


def build_explineage(ex):
    L = ex.instantiate(ex.program.find_class('ExperimentalLineage'), [], dict(species_indices={'A': 0, 'B': 1}))
    m = build_schnitz(ex)
    for s in (m, m.fields['daughter1'], m.fields['daughter2']):
        ex.call_method(L, ex.program.find_method(L.cls, 'py_add_schnitz'), [s], {})
    return L


roundtrip_contract('types', 'ExperimentalLineage', build_explineage, 'three-schnitzes-and-species-map')
