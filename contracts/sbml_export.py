"""Contracts: bioscrape/types.pyx :: Model.generate_sbml_model with bioscrape/sbmlutil.py :: create_sbml_model, add_parameter,
add_species, add_reaction, add_rule inlined (C14; the exported half of C12).

Shape classes: one concrete one-reaction model per variant (every ordered reactant pattern of order 0..4, each Hill type with
the regulator inside and outside the reaction, general rate strings; named and numeric rate constants) x deterministic /
stochastic export.  Inside one shape everything numeric is symbolic: the proof is for all states and all parameter values.

Oracle (C14): the kinetic law of the written document, read with the SBML infix semantics of spec/sbml_formula.py over the
document's own species and global parameters (their exported values), refers to defined identifiers only and equals the
model's own rate of that reaction (the real propensity method, executed on the same state: deterministic form for the
deterministic export, combinatorial stochastic form for the stochastic export); reactant / product stoichiometries equal the
multiplicities in the reaction.
"""
from bsvc.contracts import Contract
from bsvc import contracts as C, terms as tm
from bsvc.terms import REAL, INT
from bsvc.values import Arr, Obj, to_term
from contracts import types_model_shapes as shapes
from spec import libsbml_stub as ls, sbml_formula as sf

SPECIES = ['A', 'B', 'C', 'D', 'P']


def export_contract(variant, reactions, parameters, stochastic, props=('C14',), rules=(), checks=None, qual='Model.generate_sbml_model'):
    c = Contract('types', qual, list(props), variant='%s:%s' % (variant, 'stochastic' if stochastic else 'deterministic'))

    def cself(ex, cls):
        fr = ex.frame
        vals = {}
        plist = []
        for nm in parameters:
            vals[nm] = ex.fresh('val_' + nm, REAL)
            ex.assume(tm.gt(vals[nm], tm.mk_real(0)))
            plist.append((nm, vals[nm]))
        rx = []
        for spec in reactions:
            spec = list(spec)
            d = {}
            for k, v in spec[3].items():
                if isinstance(v, str) and v.startswith('$'):
                    vals[v[1:]] = ex.fresh('num_' + v[1:], REAL)
                    ex.assume(tm.gt(vals[v[1:]], tm.mk_real(0)))
                    d[k] = vals[v[1:]]
                else:
                    d[k] = v
            spec[3] = d
            rx.append(tuple(spec))
        x0 = {s: ex.fresh('x0_' + s, REAL) for s in SPECIES}
        for v in x0.values():
            ex.assume(tm.ge(v, tm.mk_real(0)))
        ex.force_inline = True
        try:
            M = ex.instantiate(cls, [], dict(species=list(SPECIES), reactions=rx, parameters=plist, rules=[tuple(r) for r in rules],
                                             initial_condition_dict=x0))
        finally:
            ex.force_inline = False
        M.name = 'self'
        fr.env['vals'] = vals
        fr.env['x0'] = x0
        st = ex.symbolic_array('st', 1, REAL, 'ptr')
        ex.assume(tm.ge(to_term(st.shape[0]), tm.mk_int(len(SPECIES))))
        j = ex.fresh('jst', INT)
        ex.assume(tm.forall([j], tm.ge(tm.select(st.term, j), tm.mk_real(0))))
        if stochastic:          # the stochastic export is stated on non-negative integer states
            for i in range(len(SPECIES)):
                ni = ex.fresh('count%d' % i, INT)
                ex.assume(tm.ge(ni, tm.mk_int(0)))
                ex.assume(tm.eq(tm.select(st.term, tm.mk_int(i)), tm.to_real(ni)))
        fr.env['st'] = st
        return M
    c.concrete_self = cself
    c.hints['stochastic_model'] = dict(value=stochastic)
    c.hints['keywords'] = dict(value=lambda ex: {})

    def check(ex, fr, result):
        M = fr.env['self']
        if not isinstance(result, tuple) or len(result) != 2:
            ex.oblige('post', tm.FALSE, label='returns-document-and-model')
            return
        doc, model = result
        s2i = M.fields['species2index']
        st = fr.env['st']
        env = {}
        ids = []
        for sp in model.child_list('Species'):
            sid = sp.attrs.get('Id')
            ids.append(sid)
            if sid in s2i:
                env[sid] = tm.select(st.term, to_term(s2i[sid]))
        pvals = {}
        for p in model.child_list('Parameters'):
            pid = p.attrs.get('Id')
            ids.append(pid)
            v = p.attrs.get('Value')
            env[pid] = to_term(v) if v is not None else ex.fresh('unset_' + str(pid), REAL)
            pvals[pid] = v
        ex.oblige('post', tm.mk_bool(len(set(ids)) == len(ids)), label='identifiers-unique')
        ex.oblige('post', tm.mk_bool(sorted(i for i in ids if i in s2i) == sorted(s2i)), label='every-species-exported')
        rxs = model.child_list('Reactions')
        ex.oblige('post', tm.mk_bool(len(rxs) == len(M.fields['reaction_definitions'])), label='one-reaction-element-per-reaction')
        mode = 'STO' if stochastic else 'DET'
        for r, rx in enumerate(rxs):
            if r >= len(reactions):
                break
            kls = rx.child_list('KineticLaws')
            if not kls or kls[0].math is None:
                ex.oblige('post', tm.FALSE, label='r%d:kinetic-law-present' % r)
                continue
            law = kls[0].math
            undefined = [n for n in sf.names(law) if n not in env]
            ex.oblige('post', tm.mk_bool(not undefined), label='r%d:kinetic-law-identifiers-defined' % r,
                      note='kinetic law %s refers to %s not defined in the document' % (sf.to_text(law), undefined) if undefined
                      else 'every identifier of the kinetic law is a species or global parameter of the document')
            env2 = dict(env)
            for n in undefined:
                env2[n] = ex.fresh('undefined_' + n, REAL)
            try:
                val = sf.sem(law, env2)
            except sf.Undefined as e:
                ex.oblige('post', tm.FALSE, label='r%d:kinetic-law-value' % r, note='operator outside SBML mathematics: %s' % e)
                continue
            want = shapes.prop_rate(ex, M, r, mode, st, tm.mk_real(1))
            ex.oblige('post', tm.eq(val, to_term(want)), label='r%d:kinetic-law-value' % r,
                      note='kinetic law %s == the model\'s %s rate at every state' % (sf.to_text(law), 'stochastic' if stochastic else 'deterministic'))
            kind = reactions[r][2]
            if 'hill' in kind:
                # the exported Hill laws are a recorded finding (known_findings.json); this weaker clause keeps the rest of the
                # law under contract: it is the correct value OR the recorded form k [d] [s^<n>] / (s^n + K), nothing else
                pd = M.fields['reaction_definitions'][r][3]
                k_, K_, n_, s_ = (str(pd[x]) for x in ('k', 'K', 'n', 's1'))
                num = k_ + (' * ' + str(pd['d']) if kind.startswith('proportional') else '') + (' * %s^n' % s_ if 'positive' in kind else '')
                legacy = sf.sem(sf.parse('%s / (%s^%s + %s)' % (num, s_, n_, K_)), env2 if 'n' in env2 else dict(env2, n=ex.fresh('undefined_n', REAL)))
                ex.oblige('post', tm.or_(tm.eq(val, to_term(want)), tm.eq(val, legacy)), label='r%d:kinetic-law-correct-or-recorded-form' % r,
                          note='kinetic law %s is the model rate or the recorded (known finding) form' % sf.to_text(law))
            reactants, products = list(reactions[r][0]), list(reactions[r][1])
            for lname, want_list in (('Reactants', reactants), ('Products', products)):
                got = {}
                ok = True
                for ref in rx.child_list(lname):
                    sid = ref.attrs.get('Species')
                    sto = ref.attrs.get('Stoichiometry')
                    if sid in got or not isinstance(sto, (int, float)) and not (isinstance(sto, tm.T) and sto.is_const()):
                        ok = False
                    got[sid] = sto.value() if isinstance(sto, tm.T) else sto
                wantd = {s: want_list.count(s) for s in want_list}
                ex.oblige('post', tm.mk_bool(ok and got == wantd), label='r%d:%s-stoichiometry' % (r, lname.lower()),
                          note='document %s, reaction multiplicities %s' % (got, wantd))
        if checks:
            checks(ex, fr, doc, model, M)
    c.after(check)
    c.opt(verify_only=True)
    C.REGISTRY[c.key] = c
    C.ORDER.append(c.key)
    return c


for stochastic in (False, True):
    for pat in shapes.patterns(4):
        export_contract('massaction:' + ('*'.join(pat) or '0'),
                        [(list(pat), ['P'], 'massaction', {'k': 'kf'})], ['kf'], stochastic)
    # the same patterns with the species named in reverse alphabetical order of first appearance, products likewise
    rev = {'A': 'D', 'B': 'C', 'C': 'B', 'D': 'A'}
    for pat in shapes.patterns(4):
        if len(set(pat)) >= 2:
            rp = [rev[x] for x in pat]
            export_contract('massaction-reversed-names:' + '*'.join(rp), [(rp, ['P', 'P', 'D', 'B', 'B', 'B'], 'massaction', {'k': 'kf'})], ['kf'], stochastic)
    # numeric rate constants (stored under generated parameter names), products with multiplicity
    export_contract('massaction-numeric:A*A*B', [(['A', 'A', 'B'], ['P', 'P', 'A'], 'massaction', {'k': '$k'})], [], stochastic)
    export_contract('massaction-numeric:0', [([], ['P'], 'massaction', {'k': '$k'})], [], stochastic)
    for kind in ('hillpositive', 'hillnegative', 'proportionalhillpositive', 'proportionalhillnegative'):
        pd = {'k': 'kf', 'K': 'Kd', 'n': 'nh', 's1': 'A'}
        if kind.startswith('proportional'):
            pd['d'] = 'B'
        export_contract(kind + ':regulator-outside', [([], ['P'], kind, pd)], ['kf', 'Kd', 'nh'], stochastic)
        export_contract(kind + ':regulator-inside', [(['A'], ['A', 'P'], kind, pd)], ['kf', 'Kd', 'nh'], stochastic)
        pdn = dict(pd, k='$k', K='$K', n='$n')
        export_contract(kind + ':numeric', [([], ['P'], kind, pdn)], [], stochastic)
    export_contract('general:michaelis-menten', [(['A'], ['P'], 'general', {'rate': 'kf*A*B/(Kd+A)'})], ['kf', 'Kd'], stochastic)
    export_contract('general:python-power', [(['A', 'A'], ['P'], 'general', {'rate': 'kf*A**2 - Kd*A'})], ['kf', 'Kd'], stochastic)
    export_contract('general:unary-minus-on-a-power', [(['A'], ['P'], 'general', {'rate': 'kf*exp(-A^2/Kd) + B'})], ['kf', 'Kd'], stochastic)
    export_contract('general:power-of-a-power', [(['A'], ['P'], 'general', {'rate': 'kf*A^B^0.5 + Kd'})], ['kf', 'Kd'], stochastic)
    # names that contain one another: a global parameter literally called k next to numeric rate constants (whose dummy parameter ids
    # contain "_k_") and next to a parameter called deg_k - every identifier in a law must still be the one defined in the document
    export_contract('name-overlap:k-and-numeric-constants', [(['A'], ['P'], 'massaction', {'k': 'k'}), (['B'], ['P'], 'massaction', {'k': '$kn'}),
                                                             (['A', 'B'], ['C'], 'massaction', {'k': '$km'})], ['k'], stochastic)
    export_contract('name-overlap:k-and-deg_k', [(['A'], ['P'], 'massaction', {'k': 'k'}), (['P'], [], 'massaction', {'k': 'deg_k'}),
                                                 (['A'], ['B'], 'general', {'rate': 'deg_k*A/(k + A)'})], ['k', 'deg_k'], stochastic)
    export_contract('two-reactions', [(['A', 'B'], ['C'], 'massaction', {'k': 'kf'}), (['C'], ['A', 'B'], 'massaction', {'k': '$kr'})],
                    ['kf'], stochastic)
