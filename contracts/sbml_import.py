"""Contracts: bioscrape/sbmlutil.py :: import_sbml with import_sbml_species / _parameters / _reactions / _rules and the Model
assembly (Model(), _add_species, _add_param, set_parameter, create_reaction, create_rule, set_species, py_initialize) inlined
(C13).

Each variant is one SBML document SHAPE built directly as a libsbml record (independently of bioscrape's writer): species with
amount and/or concentration, global and (colliding) local parameters, reactions with stoichiometries 1..3 and modifiers,
kinetic laws over + - * / ^ exp ln abs, assignment and rate rules in a given order.  Every number in the document is symbolic.

Oracle (written from the SBML semantics):  for every species s and every state x
    sum_r U[s,r] * rate_r(x)  ==  sum_reactions (products_s - reactants_s) * law_r(x; locals over globals)
                                   + sum_{rate rules on s} formula(x)
where the left side is the imported model (real update array, real propensity objects executed on x, imported parameter
values) and the right side is sem() of spec/sbml_formula.py over the document; initial values: amount if set and non-zero,
else concentration if set, else 0; parameters: global values; the repeated-assignment rules of the model are exactly the
document's assignment rules, in order, each assigning sem(formula).
"""
from bsvc.contracts import Contract
from bsvc import contracts as C, terms as tm
from bsvc.terms import REAL, INT
from bsvc.values import Arr, Obj, to_term
from contracts import types_model_shapes as shapes
from spec import libsbml_stub as ls, sbml_formula as sf

PROPS = ['C13']
SPECS = {}


def build_document(ex, spec, sym):
    """spec: dict(species=[(id, amount, conc)], params=[(id, has_value)], reactions=[dict(id, reactants, products, modifiers, law,
    locals)], rules=[(kind, var, formula)]); numbers given as '$name' become symbolic reals recorded in sym"""
    def num(v):
        if isinstance(v, str) and v.startswith('$'):
            if v[1:] not in sym:
                sym[v[1:]] = ex.fresh(v[1:], REAL)
            return sym[v[1:]]
        return v
    doc, model = ls.new_document()
    model.attrs['Id'] = spec.get('model_id', 'independent_document')
    comp = ls.add(model, 'Compartment', Id='cell', Size=1.0, Constant=True)
    for (sid, amount, conc) in spec.get('species', []):
        attrs = dict(Id=sid, Compartment='cell', BoundaryCondition=False, Constant=False, HasOnlySubstanceUnits=False)
        if amount is not None:
            attrs['InitialAmount'] = num(amount)
        if conc is not None:
            attrs['InitialConcentration'] = num(conc)
        ls.add(model, 'Species', **attrs)
    for (pid, val) in spec.get('params', []):
        attrs = dict(Id=pid, Constant=True)
        if val is not None:
            attrs['Value'] = num(val)
        ls.add(model, 'Parameter', **attrs)
    for r in spec.get('reactions', []):
        rx = ls.add(model, 'Reaction', Id=r['id'], Reversible=False)
        for (sp, st) in r.get('reactants', []):
            ls.add(rx, 'Reactant', Species=sp, Stoichiometry=st, Constant=True)
        for (sp, st) in r.get('products', []):
            ls.add(rx, 'Product', Species=sp, Stoichiometry=st, Constant=True)
        for sp in r.get('modifiers', []):
            ls.add(rx, 'Modifier', Species=sp)
        kl = ls.add(rx, 'KineticLaw', math=r['law'])
        for (pid, val) in r.get('locals', []):
            ls.add(kl, 'LocalParameter', Id=pid, Value=num(val))
    for (kind, var, formula) in spec.get('rules', []):
        ls.add(model, {'assignment': 'AssignmentRule', 'rate': 'RateRule'}[kind], Variable=var, math=formula)
    return doc


def import_contract(variant, spec, positive=()):
    c = Contract('sbmlutil', 'import_sbml', PROPS, variant=variant)
    SPECS[variant] = spec

    def setup(ex, fr):
        sym = {}
        doc = build_document(ex, spec, sym)
        for nm in positive:
            ex.assume(tm.gt(sym[nm], tm.mk_real(0)))
        for (sid, amount, conc) in spec.get('species', []):       # amounts / concentrations of a valid document are non-negative
            for v in (amount, conc):
                if isinstance(v, str) and v.startswith('$'):
                    ex.assume(tm.ge(sym[v[1:]], tm.mk_real(0)))
        fr.env['sbml_file'] = doc
        fr.env['bioscrape_model'] = None
        fr.env['input_printout'] = False
        fr.env['kwargs'] = {}
        fr.env['_sym'] = sym
        fr.env['_spec'] = spec
        ex.force_inline = True
    for nm in ('sbml_file', 'bioscrape_model', 'input_printout', 'kwargs'):
        c.hints[nm] = dict(value=None)
    c.setup(setup)

    def check(ex, fr, result):
        ex.force_inline = False
        sym = fr.env['_sym']
        M = result
        if not isinstance(M, Obj) or M.clsname != 'Model':
            ex.oblige('post', tm.FALSE, label='returns-a-model')
            return

        def num(v):
            return sym[v[1:]] if isinstance(v, str) and v.startswith('$') else (tm.mk_real(v) if v is not None else None)
        s2i, p2i = M.fields['species2index'], M.fields['params2index']
        sv, pv = M.fields['species_values'], M.fields['params_values']
        ids = [s[0] for s in spec.get('species', [])]
        ex.oblige('post', tm.mk_bool(sorted(s2i.keys()) == sorted(ids)), label='species-set',
                  note='model species %s, document species %s' % (sorted(s2i.keys()), sorted(ids)))
        for (sid, amount, conc) in spec.get('species', []):
            if sid not in s2i:
                continue
            a, cc = num(amount), num(conc)
            if a is not None and cc is not None:
                want = tm.ite(tm.not_(tm.eq(a, tm.mk_real(0))), a, cc)
            elif a is not None:
                want = a
            elif cc is not None:
                want = cc
            else:
                want = tm.mk_real(0)
            ex.oblige('post', tm.eq(tm.select(sv.term, to_term(s2i[sid])), want), label='initial-value[%s]' % sid,
                      note='non-zero amount, else concentration, else 0')
        for (pid, val) in spec.get('params', []):
            ok = pid in p2i
            ex.oblige('post', tm.mk_bool(ok), label='parameter-present[%s]' % pid)
            if ok and val is not None:
                ex.oblige('post', tm.eq(tm.select(pv.term, to_term(p2i[pid])), num(val)), label='parameter-value[%s]' % pid)
        # ---- net rate equations
        st = ex.symbolic_array('st', 1, REAL, 'ptr')
        ex.assume(tm.ge(to_term(st.shape[0]), tm.mk_int(len(ids))))
        j = ex.fresh('jst', INT)
        ex.assume(tm.forall([j], tm.gt(tm.select(st.term, j), tm.mk_real(0))))
        genv = {}
        for sid in ids:
            if sid in s2i:
                genv[sid] = tm.select(st.term, to_term(s2i[sid]))
        for (pid, val) in spec.get('params', []):
            genv[pid] = num(val) if val is not None else tm.mk_real(0)
        want = {sid: tm.mk_real(0) for sid in ids}
        for r in spec.get('reactions', []):
            env = dict(genv)
            for (pid, val) in r.get('locals', []):
                env[pid] = num(val)
            law = sf.sem(sf.parse(r['law']), env)
            for (sp, stc) in r.get('reactants', []):
                want[sp] = tm.sub(want[sp], tm.mul(tm.mk_real(stc), law))
            for (sp, stc) in r.get('products', []):
                want[sp] = tm.add(want[sp], tm.mul(tm.mk_real(stc), law))
        for (kind, var, formula) in spec.get('rules', []):
            if kind == 'rate':
                want[var] = tm.add(want[var], sf.sem(sf.parse(formula), genv))
        U = M.fields['update_array']
        nr = len(M.fields['reaction_list'])
        rates = [to_term(shapes.prop_rate(ex, M, r, 'DET', st, tm.mk_real(1))) for r in range(nr)]
        for sid in ids:
            if sid not in s2i:
                continue
            got = tm.mk_real(0)
            for r in range(nr):
                u = U.get(ex, [to_term(s2i[sid]), tm.mk_int(r)]) if hasattr(U, 'get') else tm.select(tm.select(U.term, to_term(s2i[sid])), tm.mk_int(r))
                got = tm.add(got, tm.mul(tm.to_real(u) if u.sort == INT else u, rates[r]))
            ex.oblige('post', tm.eq(got, want[sid]), label='net-rate[%s]' % sid,
                      note='d%s/dt of the imported model == stoichiometry x kinetic law (+ rate rules) of the document' % sid)
        # ---- assignment rules
        arules = [(var, formula) for (kind, var, formula) in spec.get('rules', []) if kind == 'assignment']
        defs = M.fields['rule_definitions']
        ex.oblige('post', tm.mk_bool(len(defs) == len(arules)), label='one-model-rule-per-assignment-rule',
                  note='model rules %d, assignment rules in the document %d' % (len(defs), len(arules)))
        robjs = M.fields['repeat_rules']
        robjs = robjs.objs if isinstance(robjs, Arr) else robjs
        for i, (var, formula) in enumerate(arules):
            if i >= len(defs) or i >= len(robjs):
                break
            rule = robjs[i]
            ex.oblige('post', tm.eq(to_term(rule.fields['frequency_flag']), tm.mk_real(-1)), label='rule%d:repeated' % i)
            # execute the real rule object on (st, params)
            s_arr = ex.symbolic_array('rst%d' % i, 1, REAL, 'ptr')
            ex.assume(tm.eq(s_arr.term, st.term))
            ex.assume(tm.ge(to_term(s_arr.shape[0]), tm.mk_int(len(s2i))))
            p_arr = ex.symbolic_array('rpa%d' % i, 1, REAL, 'ptr')
            ex.assume(tm.eq(p_arr.term, pv.term))
            ex.assume(tm.ge(to_term(p_arr.shape[0]), tm.mk_int(len(p2i))))
            f = ex.program.find_method(rule.cls, 'rule_operation')
            ex.force_inline = True
            try:
                ex.call_method(rule, f, [s_arr, p_arr, tm.mk_real(0), tm.mk_real(1)], {})
            finally:
                ex.force_inline = False
            env = dict(genv)
            for (pid, val) in spec.get('params', []):
                env[pid] = tm.select(pv.term, to_term(p2i[pid])) if pid in p2i else env[pid]
            val = sf.sem(sf.parse(formula), env)
            if var in s2i:
                ex.oblige('post', tm.eq(s_arr.term, tm.store(st.term, to_term(s2i[var]), val)), label='rule%d:assigns-%s' % (i, var))
                ex.oblige('post', tm.eq(p_arr.term, pv.term), label='rule%d:parameters-untouched' % i)
            elif var in p2i:
                ex.oblige('post', tm.eq(p_arr.term, tm.store(pv.term, to_term(p2i[var]), val)), label='rule%d:assigns-%s' % (i, var))
                ex.oblige('post', tm.eq(s_arr.term, st.term), label='rule%d:state-untouched' % i)
            else:
                ex.oblige('post', tm.FALSE, label='rule%d:variable-known' % i)
    c.after(check)
    c.opt(verify_only=True)
    C.REGISTRY[c.key] = c
    C.ORDER.append(c.key)
    return c


SP3 = [('A', '$a0', None), ('B', None, '$b0'), ('Cc', '$c0', '$c1')]

# ---- reactions: stoichiometries, modifiers, operators
import_contract('reversible-binding', dict(
    species=SP3, params=[('k1', '$k1'), ('k2', '$k2')],
    reactions=[dict(id='r1', reactants=[('A', 1), ('B', 1)], products=[('Cc', 1)], law='k1 * A * B'),
               dict(id='r2', reactants=[('Cc', 1)], products=[('A', 1), ('B', 1)], law='k2 * Cc')]))
import_contract('stoichiometry-2-3', dict(
    species=SP3, params=[('kf', '$kf')],
    reactions=[dict(id='r1', reactants=[('A', 2), ('B', 1)], products=[('Cc', 3)], law='kf * A^2 * B')]))
import_contract('stoichiometry-3-and-catalyst', dict(
    species=SP3 + [('E', '$e0', None)], params=[('kcat', '$kcat'), ('Km', '$Km')],
    reactions=[dict(id='r1', reactants=[('A', 3)], products=[('B', 2), ('Cc', 1)], modifiers=['E'], law='kcat * E * A / (Km + A)')]),
    positive=['Km'])
import_contract('same-species-both-sides', dict(
    species=SP3, params=[('kf', '$kf')],
    reactions=[dict(id='r1', reactants=[('A', 1), ('B', 2)], products=[('B', 3), ('A', 1)], law='kf * A * B^2')]))
import_contract('operators', dict(
    species=SP3, params=[('p', '$p'), ('q', '$q')],
    reactions=[dict(id='r1', reactants=[('A', 1)], products=[('B', 1)], law='p * exp(-q * A) + abs(A - B) / (1 + q)'),
               dict(id='r2', reactants=[], products=[('Cc', 1)], law='p * A^q - (B - (Cc - 2.5e-1)) * 3 + ln(q + 1)')]),
    positive=['q', 'p'])
# ---- local parameters
import_contract('local-shadows-global', dict(
    species=SP3, params=[('k', '$kglobal'), ('g', '$g')],
    reactions=[dict(id='r1', reactants=[('A', 1)], products=[('B', 1)], law='k * A', locals=[('k', '$klocal1')]),
               dict(id='r2', reactants=[('B', 1)], products=[('Cc', 1)], law='k * B * g'),
               dict(id='r3', reactants=[('Cc', 1)], products=[('A', 1)], law='k * Cc', locals=[('k', '$klocal3')])]))
import_contract('locals-share-a-name', dict(
    species=SP3, params=[],
    reactions=[dict(id='r1', reactants=[('A', 1)], products=[('B', 1)], law='k * A', locals=[('k', '$klocal1')]),
               dict(id='r2', reactants=[('B', 1)], products=[('A', 1)], law='k * B + m', locals=[('k', '$klocal2'), ('m', '$m2')])]))
# ---- initial values
import_contract('initial-values', dict(
    species=[('A', '$a0', None), ('B', None, '$b0'), ('Cc', '$c0', '$c1'), ('D', None, None)], params=[('k1', '$k1')],
    reactions=[dict(id='r1', reactants=[('A', 1)], products=[('D', 1)], law='k1 * A')]))
# ---- rules: every order of assignment / rate rules (the reaction keeps the model non-trivial)
RX = [dict(id='r1', reactants=[('A', 1)], products=[('B', 1)], law='k1 * A')]
SP4 = SP3 + [('T', '$t0', None)]
RULESETS = {
    'assignment-only': [('assignment', 'T', 'A + B')],
    'rate-only': [('rate', 'Cc', 'k2 * A - Cc')],
    'assignment-then-rate': [('assignment', 'T', 'A + 2 * B'), ('rate', 'Cc', 'k2 * A - Cc')],
    'rate-then-assignment': [('rate', 'Cc', 'k2 * A - Cc'), ('assignment', 'T', 'A + 2 * B')],
    'rate-rate': [('rate', 'Cc', 'k2 * A'), ('rate', 'T', 'k1 * B - T')],
    'rate-rate-same-shape-then-assignment': [('rate', 'Cc', 'k2'), ('rate', 'T', 'k2'), ('assignment', 'k2', 'A * 2')],
    'assignment-rate-assignment-rate': [('assignment', 'T', 'A + B'), ('rate', 'Cc', 'k2 * T'), ('assignment', 'k2', 'B / 2'), ('rate', 'A', 'k1 - A')],
    'assignment-assignment': [('assignment', 'T', 'A * B'), ('assignment', 'k2', 'T + 1')],
    # rate-rule formulas that BEGIN with a unary minus (decay written first): the derivative of the variable is the formula, sign and all
    'rate:leading-minus-then-production': [('rate', 'Cc', '-k2 * Cc + k1 * A')],
    'rate:negated-product': [('rate', 'Cc', '-(k2 * Cc)')],
    'rate:leading-minus-rate-rate': [('rate', 'Cc', '-k2 * Cc + A'), ('rate', 'T', '-T + k1 * B - A')],
}
for name, rules in RULESETS.items():
    import_contract('rules:' + name, dict(species=SP4, params=[('k1', '$k1'), ('k2', '$k2')], reactions=RX, rules=rules))
