"""Contracts: bioscrape/pid_interfaces.py :: PIDInterface priors and check_prior (C16; used by C15).

Oracle (from the property statement): the log of the named probability density inside the support; outside the
support (or negative under the 'positive' flag) the value is *rejected*.  The interface's convention for "rejected" is a
non-finite return value, which get_likelihood_function turns into minus infinity.
"""
from bsvc.contracts import fuc
from bsvc import speclib, terms as tm
from bsvc.terms import REAL, T
from bsvc.values import Obj, Closure, Stub
from bsvc.ir import N

INF = float('inf')


@speclib.spec('finite')
def _finite(ex, v):
    if isinstance(v, float):
        return not (v != v or v in (INF, -INF))
    if isinstance(v, (int, T)):
        return True
    return False


@speclib.spec('Gamma_')
def _G(ex, x):
    return tm.app('Gamma', (tm.to_real(x if isinstance(x, T) else tm.mk_real(x)),), REAL)


@speclib.spec('Beta_')
def _B(ex, a, b):
    return tm.app('Beta', (tm.to_real(a), tm.to_real(b)), REAL)


@speclib.spec('pi_')
def _pi(ex):
    return tm.app('pi', (), REAL)


def make_self(prior_entry, extra=None):
    """self with prior = {'p': [<type>, params...]}; params named in prior_entry are fresh reals"""
    def build(ex, cls):
        entry = []
        for x in prior_entry:
            if isinstance(x, str) and x.startswith('$'):
                v = ex.fresh(x[1:], REAL)
                ex.frame.env[x[1:]] = v        # visible to the contract clauses
                entry.append(v)
            else:
                entry.append(x)
        # the object is built by the real constructor (so per-instance state it sets up exists), with a stub model
        o = ex.allocate(cls, 'self')
        M = Stub('M', methods={'get_parameter_dictionary': lambda ex_: {}})
        ex.force_inline = True
        try:
            ex.call_method(o, ex.program.find_method(cls, '__init__'), [['p'], M, {'p': entry}], {})
        finally:
            ex.force_inline = False
        if extra:
            extra(ex, o)
        return o
    return build


def prior_contract(name, entry, pre, support, density, props=('C16', 'C15'), outside=None):
    @fuc('pid_interfaces', 'PIDInterface.' + name, props=list(props))
    def _(c):
        c.concrete_self = make_self(entry)
        c.hints['param_name'] = dict(value='p')
        c.hints['param_value'] = dict(sort=REAL)
        for p in pre:
            c.requires(p)
        c.ensures('implies(%s, finite(result) and result == %s)' % (support, density), label='inside-support')
        c.ensures('implies(%s, not finite(result))' % (outside or 'not (%s)' % support), label='outside-support')
        c.modifies()
        c.opt(verify_only=True)


V = 'param_value'
prior_contract('uniform_prior', ['uniform', '$a', '$b'], ['a < b'],
               'a <= %s and %s <= b' % (V, V), 'ln(1 / (b - a))')
prior_contract('gaussian_prior', ['gaussian', '$mu', '$sigma'], ['sigma > 0'],
               'True', 'ln(exp_(-(%s - mu) ** 2 / (2 * sigma ** 2)) / (sigma * sqrt_(2 * pi_())))' % V)
prior_contract('exponential_prior', ['exponential', '$lam'], ['lam > 0'],
               '%s >= 0' % V, 'ln(lam * exp_(-lam * %s))' % V)
prior_contract('gamma_prior', ['gamma', '$alpha', '$beta'], ['alpha > 0 and beta > 0'],
               '%s > 0' % V, 'ln(rpow(beta, alpha) / Gamma_(alpha) * rpow(%s, alpha - 1) * exp_(-beta * %s))' % (V, V),
               outside='%s < 0' % V)
prior_contract('beta_prior', ['beta', '$alpha', '$beta'], ['alpha > 0 and beta > 0'],
               '0 < %s and %s < 1' % (V, V),
               'ln(rpow(%s, alpha - 1) * rpow(1 - %s, beta - 1) / Beta_(alpha, beta))' % (V, V),
               outside='%s < 0 or %s > 1' % (V, V))
prior_contract('log_uniform_prior', ['log-uniform', '$a', '$b'], ['0 < a and a < b'],
               'a <= %s and %s <= b' % (V, V), 'ln(1 / (%s * (ln(b) - ln(a))))' % V)
prior_contract('log_gaussian_prior', ['log-gaussian', '$mu', '$sigma'], ['sigma > 0'],
               '%s > 0' % V,
               'ln(exp_(-(ln(%s) - mu) ** 2 / (2 * sigma ** 2)) / (%s * sigma * sqrt_(2 * pi_())))' % (V, V))


# ---------------------------------------------------------------------------------------------- check_prior
# One more parameter of each family on top of an ARBITRARY accumulated value L (carried in through a 'custom' prior, a
# documented feature of check_prior): the loop-body contract with havocked accumulator.  By induction on the number of
# parameters the log-prior of a vector is the sum of the terms, and a rejected term makes the total non-finite.

FAMILIES = {
    'uniform': (['$a', '$b'], ['a < b'], 'a <= v and v <= b', 'ln(1 / (b - a))'),
    'gaussian': (['$mu', '$sigma'], ['sigma > 0'], 'True',
                 'ln(exp_(-(v - mu) ** 2 / (2 * sigma ** 2)) / (sigma * sqrt_(2 * pi_())))'),
    'exponential': (['$lam'], ['lam > 0'], 'v >= 0', 'ln(lam * exp_(-lam * v))'),
    'gamma': (['$alpha', '$beta'], ['alpha > 0 and beta > 0'], 'v > 0',
              'ln(rpow(beta, alpha) / Gamma_(alpha) * rpow(v, alpha - 1) * exp_(-beta * v))', 'v < 0'),
    'beta': (['$alpha', '$beta'], ['alpha > 0 and beta > 0'], '0 < v and v < 1',
             'ln(rpow(v, alpha - 1) * rpow(1 - v, beta - 1) / Beta_(alpha, beta))', 'v < 0 or v > 1'),
    'log-uniform': (['$a', '$b'], ['0 < a and a < b'], 'a <= v and v <= b', 'ln(1 / (v * (ln(b) - ln(a))))'),
    'log-gaussian': (['$mu', '$sigma'], ['sigma > 0'], 'v > 0',
                     'ln(exp_(-(ln(v) - mu) ** 2 / (2 * sigma ** 2)) / (v * sigma * sqrt_(2 * pi_())))'),
}


def check_prior_contract(family, positive):
    params, pre, support, density = FAMILIES[family][:4]
    outside = FAMILIES[family][4] if len(FAMILIES[family]) > 4 else 'not (%s)' % support
    variant = '%s%s' % (family, '+positive' if positive else '')

    @fuc('pid_interfaces', 'PIDInterface.check_prior', props=['C16', 'C15'], variant=variant)
    def _(c):
        def extra(ex, o):
            L = ex.fresh('L', REAL)
            ex.frame.env['L'] = L
            o.fields['prior']['q'] = ['custom', Closure([('n', None, None), ('x', None, None)], N('Lit', 0, v=L), {})]
            # iteration order: q first (accumulated value), then p
            o.fields['prior'] = {'q': o.fields['prior']['q'], 'p': o.fields['prior']['p']}
        entry = [family] + params + (['positive'] if positive else [])
        c.concrete_self = make_self(entry, extra)

        def pdict(ex):
            v = ex.fresh('v', REAL)
            ex.frame.env['v'] = v
            return {'q': tm.mk_real(0), 'p': v}
        c.hints['params_dict'] = dict(value=pdict)
        for p in pre:
            c.requires(p)
        sup = support if not positive else '(%s) and v >= 0' % support
        c.ensures('implies(%s, finite(result) and result == L + %s)' % (sup, density), label='sum-of-terms')
        out = outside if not positive else '(%s) or v < 0' % outside
        c.ensures('implies(%s, not finite(result))' % out, label='rejected')
        c.opt(verify_only=True)


for fam in FAMILIES:
    check_prior_contract(fam, False)
    check_prior_contract(fam, True)


@fuc('pid_interfaces', 'PIDInterface.check_prior', props=['C16'], variant='unknown-type')
def _(c):
    c.concrete_self = make_self(['no-such-prior', '$a'])
    c.hints['params_dict'] = dict(value=lambda ex: {'p': ex.fresh('v', REAL)})
    c.raises('ValueError')
    c.ensures('False', label='must-raise')
    c.opt(verify_only=True)


# two parameters of the SAME family with independent prior parameters: the log-prior of the vector is the sum of the
# two named log-densities (this is where per-instance state shared between evaluations would show)
def check_prior_pair(family):
    params, pre, support, density = FAMILIES[family][:4]

    @fuc('pid_interfaces', 'PIDInterface.check_prior', props=['C16', 'C15'], variant='pair:' + family)
    def _(c):
        names1 = [x[1:] + '1' for x in params]
        names2 = [x[1:] + '2' for x in params]

        def extra(ex, o):
            e2 = [family]
            for nm in names2:
                v = ex.fresh(nm, REAL)
                ex.frame.env[nm] = v
                e2.append(v)
            e1 = o.fields['prior']['p']
            for nm, v in zip(names1, e1[1:]):
                ex.frame.env[nm] = v
            o.fields['prior'] = {'p': e1, 'p2': e2}
        c.concrete_self = make_self([family] + params, extra)

        def pdict(ex):
            v1, v2 = ex.fresh('v1', REAL), ex.fresh('v2', REAL)
            ex.frame.env['v1'], ex.frame.env['v2'] = v1, v2
            return {'p': v1, 'p2': v2}
        c.hints['params_dict'] = dict(value=pdict)

        def ren(txt, suffix):
            import re
            out = txt
            for x in params:
                out = re.sub(r'\b%s\b' % x[1:], x[1:] + suffix, out)
            return re.sub(r'\bv\b', 'v' + suffix, out)
        for p in pre:
            c.requires(ren(p, '1'))
            c.requires(ren(p, '2'))
        c.ensures('implies((%s) and (%s), finite(result) and result == %s + %s)'
                  % (ren(support, '1'), ren(support, '2'), ren(density, '1'), ren(density, '2')), label='sum-of-two')
        c.opt(verify_only=True)


for fam in FAMILIES:
    check_prior_pair(fam)


# a parameter carrying the 'positive' flag FOLLOWED by an unflagged one: the flag is a per-parameter property, a negative value of the
# unflagged (gaussian) parameter is inside its support and must not be rejected
@fuc('pid_interfaces', 'PIDInterface.check_prior', props=['C16', 'C15'], variant='flagged-then-unflagged')
def _(c):
    gpar, gpre, gsup, gden = FAMILIES['gamma'][:4]
    npar, npre, nsup, nden = FAMILIES['gaussian'][:4]

    def extra(ex, o):
        e2 = ['gaussian']
        for nm in ('mu', 'sigma'):
            v = ex.fresh(nm, REAL)
            ex.frame.env[nm] = v
            e2.append(v)
        o.fields['prior'] = {'p': o.fields['prior']['p'], 'p2': e2}
    c.concrete_self = make_self(['gamma'] + gpar + ['positive'], extra)

    def pdict(ex):
        v1, v2 = ex.fresh('v1', REAL), ex.fresh('v2', REAL)
        ex.frame.env['v1'], ex.frame.env['v2'] = v1, v2
        return {'p': v1, 'p2': v2}
    c.hints['params_dict'] = dict(value=pdict)
    c.requires(gpre[0])
    c.requires(npre[0])
    import re
    g1 = re.sub(r'\bv\b', 'v1', gden)
    n2 = re.sub(r'\bv\b', 'v2', nden)
    c.ensures('implies(v1 > 0, finite(result) and result == %s + %s)' % (g1, n2), label='an-unflagged-parameter-may-be-negative')
    c.ensures('implies(v1 < 0, not finite(result))', label='the-flagged-parameter-is-rejected-when-negative')
    c.opt(verify_only=True)


# ---------------------------------------------------------------------------------------------- get_likelihood_function (C15, C16)
def likelihood_fn_contract(clsname, field):
    @fuc('pid_interfaces', clsname + '.get_likelihood_function', props=['C15', 'C16'], variant='uniform-prior')
    def _(c):
        def build(ex, cls):
            fr = ex.frame
            a, b, LLv = ex.fresh('a', REAL), ex.fresh('b', REAL), ex.fresh('LLvalue', REAL)
            fr.env.update(dict(a=a, b=b, LLvalue=LLv))
            calls = []
            fr.env['_calls'] = calls
            LL = Stub('likelihood', methods={'set_init_params': lambda ex_, d: calls.append(('set', dict(d))),
                                             'py_log_likelihood': lambda ex_: (calls.append(('ll',)), LLv)[1]})
            o = ex.allocate(cls, 'self')
            dflt = {'p': ex.fresh('p_default', REAL), 'q': ex.fresh('q_default', REAL)}
            fr.env['dflt'] = dflt
            o.fields.update({field: LL, 'params_to_estimate': ['p'], 'prior': {'p': ['uniform', a, b]}, 'default_parameters': dflt,
                             'log_space_parameters': False, 'debug': False, 'M': None})
            return o
        c.concrete_self = build

        def pv(ex):
            v = ex.fresh('theta', REAL)
            ex.frame.env['theta'] = v
            return [v]
        c.hints['params'] = dict(value=pv)
        c.requires('a < b')
        c.ensures('implies(a <= theta and theta <= b, result == ln(1 / (b - a)) + LLvalue)', label='log-prior-plus-log-likelihood')
        c.ensures('implies(not (a <= theta and theta <= b), result == -float("inf"))', label='minus-infinity-outside-the-support')

        def check(ex, fr, result):
            calls = fr.env['_calls']
            if isinstance(result, float):
                ex.oblige('post', tm.mk_bool(not calls), label='no-simulation-when-rejected')
            else:
                ok = (len(calls) == 3 and calls[0] == ('set', fr.env['dflt']) and calls[1][0] == 'set' and list(calls[1][1].keys()) == ['p']
                      and calls[1][1]['p'] is fr.env['theta'] and calls[2] == ('ll',))
                ex.oblige('post', tm.mk_bool(bool(ok)), label='defaults-then-theta-then-likelihood',
                          note='parameters in force during the likelihood are defaults overridden by theta (reset on every evaluation)')
        c.after(check)
        c.opt(verify_only=True)


likelihood_fn_contract('DeterministicInference', 'LL_det')
likelihood_fn_contract('StochasticInference', 'LL_stoch')


# "A value outside the distribution's support, or a negative value under the 'positive' flag, is rejected: the posterior there is minus
# infinity" - for EVERY family, through the function the sampler calls (the uniform variant above exercises only one way of signalling a
# rejection; a log-gaussian prior at a negative value signals it with a NaN - seed C16-c)
def posterior_contract(clsname, field, family, positive):
    params, pre, support, density = FAMILIES[family][:4]
    outside = FAMILIES[family][4] if len(FAMILIES[family]) > 4 else 'not (%s)' % support

    @fuc('pid_interfaces', clsname + '.get_likelihood_function', props=['C16', 'C15'], variant='posterior:%s%s' % (family, '+positive' if positive else ''))
    def _(c):
        def build(ex, cls):
            fr = ex.frame
            LLv = ex.fresh('LLvalue', REAL)
            fr.env['LLvalue'] = LLv
            calls = []
            fr.env['_calls'] = calls
            LL = Stub('likelihood', methods={'set_init_params': lambda ex_, d: calls.append(('set', dict(d))),
                                             'py_log_likelihood': lambda ex_: (calls.append(('ll',)), LLv)[1]})
            entry = [family]
            for x in params:
                v = ex.fresh(x[1:], REAL)
                fr.env[x[1:]] = v
                entry.append(v)
            if positive:
                entry.append('positive')
            o = ex.allocate(cls, 'self')
            o.fields.update({field: LL, 'params_to_estimate': ['p'], 'prior': {'p': entry}, 'default_parameters': {'p': ex.fresh('p_default', REAL)},
                             'log_space_parameters': False, 'debug': False, 'M': None})
            return o
        c.concrete_self = build

        def pv(ex):
            v = ex.fresh('v', REAL)
            ex.frame.env['v'] = v
            return [v]
        c.hints['params'] = dict(value=pv)
        for q in pre:
            c.requires(q)
        sup = support if not positive else '(%s) and v >= 0' % support
        out = outside if not positive else '(%s) or v < 0' % outside
        c.ensures('implies(%s, result == %s + LLvalue)' % (sup, density), label='log-density-plus-log-likelihood-inside-the-support')
        c.ensures('implies(%s, result == -float("inf"))' % out, label='minus-infinity-outside-the-support')
        c.opt(verify_only=True)


for _fam in FAMILIES:
    for _pos in (False, True):
        posterior_contract('DeterministicInference', 'LL_det', _fam, _pos)
        posterior_contract('StochasticInference', 'LL_stoch', _fam, _pos)
