"""Contracts: bioscrape/inference_setup.py :: InferenceSetup.extract_data (C15 data alignment): the array handed to the likelihood
satisfies data[n, t, m] == exp_data[n][measurements[m]][t] and timepoints[n][t] == exp_data[n][time_column][t].
Shape classes: N in {1, 2, 3} frames x M in {1, 2, 3} measured species x T = 3 rows, all data values symbolic."""
from bsvc.contracts import Contract
from bsvc import contracts as C, terms as tm
from bsvc.terms import REAL, INT
from bsvc.values import Arr, Obj, to_term
from spec.dep_stubs import DataFrameVal

T_ROWS = 3


def make_frame(ex, n, names):
    df = DataFrameVal(None, None)
    for nm in ['time'] + names:
        a = Arr(ex.fresh('d%d_%s' % (n, nm), tm.ArraySort(INT, REAL)), [T_ROWS], REAL, 'ndarray', 'd%d_%s' % (n, nm))
        df.extra[nm] = a
        df.order.append(nm)
    return df


def extract_contract(N, M, as_list):
    names = ['X', 'Y', 'Z'][:M]
    c = Contract('inference_setup', 'InferenceSetup.extract_data', ['C15'], variant='N=%d,M=%d%s' % (N, M, ',list' if as_list and N == 1 else ''))

    def cself(ex, cls):
        o = ex.allocate(cls, 'self')
        frames = [make_frame(ex, n, names) for n in range(N)]
        o.fields.update(dict(exp_data=frames if (N > 1 or as_list) else frames[0], timepoints=None, measurements=list(names),
                             time_column='time', debug=False))
        ex.frame.env['frames'] = frames
        return o
    c.concrete_self = cself

    def check(ex, fr, result):
        frames = fr.env['frames']
        if not isinstance(result, Arr) or result.ndim != 3:
            ex.oblige('post', tm.FALSE, label='returns-a-3d-array')
            return
        for n in range(N):
            for t in range(T_ROWS):
                for m, nm in enumerate(names):
                    got = tm.select(tm.select(tm.select(result.term, tm.mk_int(n)), tm.mk_int(t)), tm.mk_int(m))
                    want = tm.select(frames[n].extra[nm].term, tm.mk_int(t))
                    ex.oblige('post', tm.eq(got, want), label='data[%d,%d,%s]' % (n, t, nm),
                              note='data[n,t,m] is the value of measured species m at row t of trajectory n')
        tp = fr.env['self'].fields.get('timepoints')
        for n in range(N):
            tpn = tp[n] if isinstance(tp, list) else tp
            for t in range(T_ROWS):
                ok = isinstance(tpn, Arr)
                ex.oblige('post', tm.eq(tm.select(tpn.term, tm.mk_int(t)), tm.select(frames[n].extra['time'].term, tm.mk_int(t))) if ok else tm.FALSE,
                          label='timepoints[%d][%d]' % (n, t))
    c.after(check)
    c.opt(verify_only=True)
    C.REGISTRY[c.key] = c
    C.ORDER.append(c.key)


for N in (1, 2, 3):
    for M in (1, 2, 3):
        extract_contract(N, M, False)
extract_contract(1, 2, True)
