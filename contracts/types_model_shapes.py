"""Shape-class composition contracts (DESIGN 3.6): the real Model.__init__ -> create_reaction -> create_propensity ->
<Propensity>.initialize -> _initialize chain is executed symbolically for one *concrete reaction shape* with symbolic
numbers, and the propensity object it builds is evaluated (real method bodies) on a symbolic state in all four modes
against the closed form of the reactant multiset.  Shapes: every ordered reactant pattern of order 0..4 (all 24
restricted-growth strings: repeats adjacent and non-adjacent), each Hill type; numeric and named rate constants.
Inside one shape the proof is for all states, parameters and volumes; the enumeration is the range of the property's
own quantifier (C01: "every reactant multiset of order 0..4").
"""
from bsvc.contracts import Contract
from bsvc import contracts as C, speclib, terms as tm
from bsvc.terms import REAL, INT
from bsvc.values import Obj, Arr, to_term

PROPS = ['C01', 'C03', 'C11']
NAMES = 'ABCD'


def patterns(maxlen=4):
    out = [[]]
    res = [[]]
    for _ in range(maxlen):
        nxt = []
        for p in out:
            m = max(p) + 1 if p else 0
            for v in range(m + 1):
                nxt.append(p + [v])
        res.extend(nxt)
        out = nxt
    return [[NAMES[i] for i in p] for p in res]


@speclib.spec('prop_rate')
def prop_rate(ex, model, r, mode, st, V):
    """value of reaction r's propensity object in `mode`, by executing the real method"""
    prop = model.fields['reaction_list'][r][0]
    mname = {'DET': 'get_propensity', 'VOL': 'get_volume_propensity', 'STO': 'get_stochastic_propensity',
             'STOVOL': 'get_stochastic_volume_propensity'}[mode]
    f = ex.program.find_method(prop.cls, mname)
    pv = model.fields['params_values']
    args = [st, pv] + ([V] if mode in ('VOL', 'STOVOL') else []) + [tm.mk_real(0)]
    was = ex.in_spec
    ex.in_spec = False
    ex.force_inline = True
    try:
        return ex.call_method(prop, f, args, {})
    finally:
        ex.in_spec = was
        ex.force_inline = False


@speclib.spec('prop_class')
def prop_class(ex, model, r):
    return model.fields['reaction_list'][r][0].clsname


def model_contract(variant, species, reactions, posts, pre=(), named=(), props=PROPS, extra_setup=None, parameters=None):
    c = Contract('types', 'Model.__init__', props, variant=variant)
    c.concrete_self = lambda ex, cls: ex.allocate(cls)

    def setup(ex, fr):
        st = ex.symbolic_array('st', 1, REAL, 'ptr')
        fr.env['st'] = st
        fr.env['V'] = ex.fresh('V', REAL)
        for nm in ('k', 'K', 'n') + tuple(named):
            fr.env[nm] = ex.fresh(nm, REAL)
        ex.assume(tm.ge(to_term(st.shape[0]), tm.mk_int(len(species))))
        j = ex.fresh('jst', INT)
        ex.assume(tm.forall([j], tm.ge(tm.select(st.term, j), tm.mk_real(0))))
        # arguments of Model(...)
        rx = []
        for (reactants, products, ptype, pd) in reactions:
            d = {}
            for key, val in pd.items():
                d[key] = fr.env[val[1:]] if isinstance(val, str) and val.startswith('$') else val
            rx.append((list(reactants), list(products), ptype, d))
        fr.env['species'] = list(species)
        fr.env['reactions'] = rx
        fr.env['parameters'] = [(nm, fr.env[v[1:]]) for (nm, v) in (parameters or [])]
        fr.env['rules'] = []
        fr.env['initial_condition_dict'] = {s: 0 for s in species}
        fr.env['sbml_filename'] = None
        fr.env['filename'] = None
        fr.env['input_printout'] = False
        fr.env['initialize_model'] = True
        if extra_setup:
            extra_setup(ex, fr)
    for nm in ('sbml_filename', 'filename', 'species', 'reactions', 'parameters', 'rules', 'initial_condition_dict',
               'input_printout', 'initialize_model'):
        c.hints[nm] = dict(value=None)
    c.setup(setup)
    c.requires('V > 0 and k > 0 and K > 0 and n > 0')
    for p in pre:
        c.requires(p)
    for (label, e) in posts:
        c.ensures(e, label=label)
    c.opt(verify_only=True)
    C.REGISTRY[c.key] = c
    C.ORDER.append(c.key)
    return c


def ma_oracles(reactants, kexpr='k'):
    r = len(reactants)
    ms = {}
    for s in reactants:
        ms[s] = ms.get(s, 0) + 1
    det = kexpr
    sto = kexpr
    for s in sorted(ms):
        det += ' * ipow(st[self.species2index["%s"]], %d)' % (s, ms[s])
        sto += ' * ff(st[self.species2index["%s"]], %d)' % (s, ms[s])
    if r == 0:
        vol, stovol = det + ' * V', sto + ' * V'
    else:
        vol, stovol = '(%s) / ipow(V, %d)' % (det, r - 1), '(%s) / ipow(V, %d)' % (sto, r - 1)
    return dict(DET=det, STO=sto, VOL=vol, STOVOL=stovol)


EXPECT_CLASS = {0: 'ConstitutivePropensity', 1: 'UnimolecularPropensity', 2: 'BimolecularPropensity'}

for pat in patterns(4):
    orc = ma_oracles(pat)
    posts = [('closed-form-%s' % m, 'prop_rate(self, 0, "%s", st, V) == %s' % (m, orc[m])) for m in ('DET', 'VOL', 'STO', 'STOVOL')]
    posts.append(('dispatch', 'prop_class(self, 0) == "%s"' % EXPECT_CLASS.get(len(pat), 'MassActionPropensity')))
    model_contract('massaction:' + ('*'.join(pat) or '0'), list(NAMES) + ['P'],
                   [(pat, ['P'], 'massaction', {'k': '$k'})], posts)

# named rate constant (declared through the parameter list) for a non-adjacent repeat and for order 2
for pat in (['A', 'B', 'A'], ['A', 'A'], []):
    orc = ma_oracles(pat)
    posts = [('closed-form-%s' % m, 'prop_rate(self, 0, "%s", st, V) == %s' % (m, orc[m])) for m in ('DET', 'VOL', 'STO', 'STOVOL')]
    model_contract('massaction-named:' + ('*'.join(pat) or '0'), list(NAMES) + ['P'],
                   [(pat, ['P'], 'massaction', {'k': 'kf'})], posts, parameters=[('kf', '$k')])


def hill_oracle(kind, mode):
    conc = 'st[self.species2index["A"]]' if mode in ('DET', 'STO') else '(st[self.species2index["A"]] / V)'
    h = 'rpow(%s / K, n)' % conc
    f = ('k * %s / (1 + %s)' % (h, h)) if 'positive' in kind else ('k / (1 + %s)' % h)
    if kind.startswith('proportional'):
        f = 'st[self.species2index["B"]] * (%s)' % f
    return f


for kind in ('hillpositive', 'hillnegative', 'proportionalhillpositive', 'proportionalhillnegative'):
    pd = {'k': '$k', 'K': '$K', 'n': '$n', 's1': 'A'}
    if kind.startswith('proportional'):
        pd['d'] = 'B'
    posts = [('closed-form-%s' % m, 'prop_rate(self, 0, "%s", st, V) == %s' % (m, hill_oracle(kind, m)))
             for m in ('DET', 'VOL', 'STO', 'STOVOL')]
    model_contract(kind, list(NAMES) + ['P'], [([], ['P'], kind, pd)], posts)


# ---------------------------------------------------------------------------------------------- C03: stoichiometry
def seqs(names, maxlen):
    out = [[]]
    cur = [[]]
    for _ in range(maxlen):
        cur = [p + [n] for p in cur for n in names]
        out.extend(cur)
    return out


def stoich_posts(species, reactants, products, dreact, dprod, r=0):
    posts = []
    for s in species:
        u = products.count(s) - reactants.count(s)
        d = dprod.count(s) - dreact.count(s)
        posts.append(('U[%s,%d]' % (s, r), 'self.update_array[self.species2index["%s"], %d] == %d' % (s, r, u)))
        posts.append(('D[%s,%d]' % (s, r), 'self.delay_update_array[self.species2index["%s"], %d] == %d' % (s, r, d)))
    return posts


def stoich_contract(variant, species, rx_specs, props=('C03',)):
    """rx_specs: list of (reactants, products, delay_reactants, delay_products)"""
    c = Contract('types', 'Model.__init__', list(props), variant=variant)
    c.concrete_self = lambda ex, cls: ex.allocate(cls)

    def setup(ex, fr):
        k = ex.fresh('k', REAL)
        fr.env['k'] = k
        rx = []
        for (re_, pr, dre, dpr) in rx_specs:
            if dre is None and dpr is None:
                rx.append((list(re_), list(pr), 'massaction', {'k': k}))
            else:
                rx.append((list(re_), list(pr), 'massaction', {'k': k}, 'fixed', list(dre or []), list(dpr or []), {'delay': tm.mk_real(1)}))
        fr.env['species'] = list(species)
        fr.env['reactions'] = rx
        fr.env['parameters'] = []
        fr.env['rules'] = []
        fr.env['initial_condition_dict'] = {s: 0 for s in species}
        fr.env['sbml_filename'] = None
        fr.env['filename'] = None
        fr.env['input_printout'] = False
        fr.env['initialize_model'] = True
    for nm in ('sbml_filename', 'filename', 'species', 'reactions', 'parameters', 'rules', 'initial_condition_dict',
               'input_printout', 'initialize_model'):
        c.hints[nm] = dict(value=None)
    c.setup(setup)
    c.requires('k > 0')
    allsp = set(species)
    for (re_, pr, dre, dpr) in rx_specs:
        allsp |= set(re_) | set(pr) | set(dre or []) | set(dpr or [])
    for r, (re_, pr, dre, dpr) in enumerate(rx_specs):
        for (label, e) in stoich_posts(sorted(allsp), list(re_), list(pr), list(dre or []), list(dpr or []), r):
            c.ensures(e, label=label)
    c.ensures('self.update_array.shape[0] == %d and self.update_array.shape[1] == %d' % (len(allsp), len(rx_specs)), label='shape')
    c.ensures('self.initialized == True', label='initialized')
    c.opt(verify_only=True)
    C.REGISTRY[c.key] = c
    C.ORDER.append(c.key)


_S2 = seqs(['A', 'B'], 3)
for re_ in _S2:
    for pr in _S2:
        stoich_contract('stoich:%s>%s' % ('+'.join(re_) or '0', '+'.join(pr) or '0'), ['A', 'B'], [(re_, pr, None, None)])
# delayed parts (separate accumulation loops in create_reaction): all delayed reactant/product sequences up to length 2 on
# top of two immediate shapes, plus length-3/4 repeats
for base in ((['A'], ['B']), ([], [])):
    for dre in seqs(['A', 'B'], 2):
        for dpr in seqs(['A', 'B'], 2):
            stoich_contract('stoich-delay:%s>%s|%s>%s' % ('+'.join(base[0]) or '0', '+'.join(base[1]) or '0', '+'.join(dre) or '0', '+'.join(dpr) or '0'),
                            ['A', 'B'], [(base[0], base[1], dre, dpr)])
stoich_contract('stoich-delay:long', ['A', 'B', 'C'], [(['A', 'B', 'A', 'C'], ['C', 'C', 'A', 'B'], ['B', 'B', 'B'], ['C', 'A', 'C', 'C'])])
# declaration order of species, species introduced only by reactions, several reactions (column independence)
stoich_contract('stoich-order:BA', ['B', 'A'], [(['A', 'A', 'B'], ['B'], None, None)])
stoich_contract('stoich-order:late', ['Z'], [(['A', 'Q'], ['Q', 'Q', 'Z'], ['Q'], ['A', 'A'])])
stoich_contract('stoich-multi', ['C', 'A', 'B'], [(['A', 'B'], ['C'], None, None), (['C'], ['A', 'A', 'B'], ['A'], ['B', 'B']),
                                                  ([], ['A'], None, None), (['B', 'B', 'B', 'A'], [], None, ['C'])])


def unset_param_contract():
    c = Contract('types', 'Model.__init__', ['C03'], variant='unset-parameter')
    c.concrete_self = lambda ex, cls: ex.allocate(cls)

    def setup(ex, fr):
        fr.env.update(dict(species=['A', 'B'], reactions=[(['A'], ['B'], 'massaction', {'k': 'kf'})], parameters=[], rules=[],
                           initial_condition_dict={'A': 1, 'B': 0}, sbml_filename=None, filename=None, input_printout=False,
                           initialize_model=True))
    for nm in ('sbml_filename', 'filename', 'species', 'reactions', 'parameters', 'rules', 'initial_condition_dict',
               'input_printout', 'initialize_model'):
        c.hints[nm] = dict(value=None)
    c.setup(setup)
    c.raises('ValueError')
    c.ensures('False', label='initialisation-must-fail')
    c.opt(verify_only=True)
    C.REGISTRY[c.key] = c
    C.ORDER.append(c.key)


unset_param_contract()
