"""Contracts: bioscrape/random.pyx (C05, C10, C19, C20; the generator itself: C08).

The random stream is made explicit: U(k) is the k-th value returned by uniform_rv() and kappa() the (ghost) position in
the stream.  Every sampler is a deterministic function of the stream; distributional statements are lemmas over
preimages (spec/lemmas_prob.py) plus cited probability theory (DESIGN 4.3).
"""
from bsvc.contracts import fuc
from bsvc import speclib, axioms, terms as tm
from bsvc.terms import REAL, INT
from bsvc.values import to_term, Arr

R0, R1, I0, I1 = tm.mk_real(0), tm.mk_real(1), tm.mk_int(0), tm.mk_int(1)


# bcount(k0, n, p) = #{ i < n : U(k0+i) < p }
def _bcount_ax(t, ctx):
    k0, n, p = t.args[1], t.args[2], t.args[3]
    prev = tm.app('bcount', (k0, tm.sub(n, I1), p), INT)
    hit = tm.lt(tm.app('U', (tm.add(k0, tm.sub(n, I1)),), REAL), p)
    return [tm.implies(tm.le(n, I0), tm.eq(t, I0)),
            tm.implies(tm.gt(n, I0), tm.eq(t, tm.add(prev, tm.ite(hit, I1, I0)))),
            tm.implies(tm.ge(n, I0), tm.and_(tm.ge(t, I0), tm.le(t, n)))]


axioms.register('bcount', _bcount_ax,
                'bcount(k0,0,p)=0; bcount(k0,n,p)=bcount(k0,n-1,p)+[U(k0+n-1)<p]; 0<=bcount<=n (n>=0)')


@speclib.spec('bcount')
def _bcount(ex, k0, n, p):
    return tm.app('bcount', (to_term(k0), to_term(n), tm.to_real(to_term(p))), INT)


# psum(a, n) = a[0] + ... + a[n-1]   (same as the generic `sum`)
@fuc('random', 'uniform_rv', props=['C05', 'C10', 'C19', 'C20', 'C06', 'C11'])
def _(c):
    # abstract: U(k) *is* the k-th value this function returns; its range is proved from the body separately
    c.abstract = True
    c.verify_body = False
    c.opt(also_exact=True, result=lambda ex, fr: speclib.draw_uniform(ex))
    c.note('defines the stream U; range 0<=U<=1 from (genrand64()>>11)/(2^53-1) with 0<=genrand64()<2^64')


@fuc('random', 'binom_rnd_f', props=['C20', 'C19', 'C08'])
def _(c):
    c.requires('N >= 0')
    c.loop(0).invariant('answer == bcount(old(kappa()), i, p)').invariant('kappa() == old(kappa()) + i', label='stream') \
             .also_modifies('kappa')
    c.ensures('result == bcount(old(kappa()), trunc(N + 0.5), p)', label='count')
    c.ensures('0 <= result and result <= trunc(N + 0.5)', label='range')
    c.ensures('kappa() == old(kappa()) + trunc(N + 0.5)', label='stream')
    c.modifies('kappa')


@fuc('random', 'binom_rnd', props=['C19'])
def _(c):
    c.loop(0).invariant('answer == bcount(old(kappa()), i, p)').invariant('kappa() == old(kappa()) + i', label='stream') \
             .also_modifies('kappa')
    c.ensures('result == bcount(old(kappa()), n, p)', label='count')
    c.ensures('0 <= result and result <= n', label='range')
    c.modifies('kappa')


@fuc('random', 'array_sum', props=['C05', 'C06', 'C10', 'C11', 'C19'])
def _(c):
    c.requires('length >= 0 and len(data) >= length')
    c.loop(0).invariant('answer == sum_(data, i)') \
             .invariant('implies(forall(lambda j: implies(0 <= j and j < length, data[j] >= 0)), answer >= 0)', label='nonneg')
    c.ensures('result == sum_(data, length)')
    c.ensures('implies(forall(lambda j: implies(0 <= j and j < length, data[j] >= 0)), result >= 0)', label='nonneg')
    c.modifies()


@fuc('random', 'exponential_rv', props=['C05', 'C10', 'C11', 'C08'])
def _(c):
    c.requires('Lambda > 0')
    c.requires('U(kappa()) > 0')
    c.ensures('result == -ln(U(old(kappa()))) / Lambda', label='inverse-cdf')
    c.ensures('result >= 0', label='nonneg')
    c.ensures('kappa() == old(kappa()) + 1', label='stream')
    c.modifies('kappa')


@fuc('random', 'sample_discrete', props=['C05', 'C06', 'C10', 'C11', 'C19', 'C08'])
def _(c):
    c.requires('choices >= 1 and len(data) >= choices')
    c.requires('forall(lambda j: implies(0 <= j and j < choices, data[j] >= 0))')
    c.requires('Lambda == sum_(data, choices) and Lambda > 0')
    c.requires('U(kappa()) > 0')
    c.loop(0).invariant('0 <= i and i <= choices and p_sum == sum_(data, i)') \
             .invariant('i >= 1 and i <= choices and sum_(data, i - 1) < q or i == 0 and p_sum == 0', label='below')
    c.ensures('0 <= result and result < choices', label='range')
    c.ensures('sum_(data, result) < U(old(kappa())) * Lambda and U(old(kappa())) * Lambda <= sum_(data, result + 1)', label='interval')
    c.ensures('data[result] > 0', label='positive-weight')
    c.ensures('kappa() == old(kappa()) + 1', label='stream')
    c.modifies('kappa')


@fuc('random', 'normal_rv', props=['C10', 'C08'])
def _(c):
    c.requires('U(kappa()) > 0')
    c.ensures('result == sqrt_(-2 * ln(U(old(kappa())))) * ufun("cos", 2 * 3.141592653589793238462643383279502884 * U(old(kappa()) + 1)) * std + mean',
              label='box-muller')
    c.ensures('kappa() == old(kappa()) + 2', label='stream')
    c.modifies('kappa')
    c.note('Box-Muller transform of two stream elements; that it yields N(mean, std^2) is cited')


@fuc('random', 'gamma_rv', props=['C10', 'C08'])
def _(c):
    c.requires('k >= 1 and theta > 0')
    c.assume('forall(lambda q: U(q) > 0)', 'uniform_rv() == 0 excluded')
    D = '(k - 1.0 / 3)'
    CC = '(1 / sqrt_(9.0 * %s))' % D
    c.loop(0).invariant('d == %s and c == %s' % (D, CC), label='constants') \
             .invariant('kappa() >= old(kappa())', label='stream-monotone').also_modifies('kappa')
    # Marsaglia-Tsang (shape k >= 1): the returned value is d*v*theta for the ACCEPTED round, whose three stream elements are
    # the last three consumed: x = Box-Muller(U[kappa-3], U[kappa-2]), UNI = U[kappa-1]
    X = '(sqrt_(-2 * ln(U(kappa() - 3))) * ufun("cos", 2 * 3.141592653589793238462643383279502884 * U(kappa() - 2)) * 1 + 0)'
    V = '((1 + %s * %s) ** 3)' % (CC, X)
    c.ensures('result == %s * %s * theta' % (D, V), label='value-of-the-accepted-round')
    c.ensures('%s > 0 and ln(U(kappa() - 1)) < 0.5 * %s ** 2 + %s - %s * %s + %s * ln(%s)' % (V, X, D, D, V, D, V),
              label='acceptance-inequality')
    c.ensures('kappa() >= old(kappa()) + 3', label='stream')
    c.modifies('kappa')
    c.note('rejection loop: termination is not proved; that the accepted value is Gamma(k, theta) is the Marsaglia-Tsang theorem (cited)')
