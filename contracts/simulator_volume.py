"""Contracts: VolumeSSASimulator.volume_simulate against the step relation R_vol (C11; C06, C09) and the abstract contracts of the
Volume virtual methods."""
from bsvc.contracts import fuc, field_hint
from bsvc import terms as tm
from bsvc.terms import REAL, INT
from bsvc.values import Arr

field_hint('VolumeSSAResult.volume', ndim=1, elem=REAL)
PROPS = ['C11', 'C09', 'C06', 'C07']


@fuc('types', 'Volume.get_volume_step', props=PROPS)
def _(c):
    c.abstract = True
    c.verify_body = False
    c.ensures('result == ufun("vstep", self, state, params, time, volume, dt)')
    c.modifies()
    c.note('abstract: the volume increment over one delta-step is a function of (volume model, state, params, time, volume, dt); '
           'pinned per volume class below')


@fuc('types', 'Volume.cell_divided', props=PROPS)
def _(c):
    c.abstract = True
    c.verify_body = False
    c.ensures('result == ifun("vdivided", self, state, params, time, volume, dt) and (result == 0 or result == 1)')
    c.modifies()


@fuc('simulator', 'CSimInterface.get_param_values', props=PROPS)
def _(c):
    c.abstract = True
    c.verify_body = False

    def res(ex, fr):
        g = ex.ghost.setdefault('g', {})
        if 'pvals' not in g:
            g['pvals'] = tm.var('ghost_pvals0', tm.ArraySort(INT, REAL))
        return Arr(g['pvals'], [ex.fresh('pvals_len', INT)], REAL, 'ptr', 'pvals')
    c.opt(result=res)
    c.modifies()
    c.note('accessor: pointer to the interface parameter vector (ghost pvals)')


XR = 'entry(c_current_state, 1)'
TH = 'head(c_timepoints[current_index])'
W = '(-ln(U(head(kappa()))) / Lambda)'
PROP = 'ite(Lambda == 0, %s, head(current_time) + %s)' % (TH, W)
NQ = 'head(next_queue_time)'
STEPPED = '(%s < %s)' % (NQ, PROP)


@fuc('simulator', 'VolumeSSASimulator.volume_simulate', props=PROPS)
def _(c):
    c.array('timepoints', ndim=1, elem='Real')
    c.requires('wf_sim(sim)')
    c.requires('len(timepoints) >= 1')
    c.requires('sim.dt > 0 and timepoints[0] >= sim.initial_time')       # the grid does not start before the interface's initial time
    c.assume('forall(lambda k: U(k) > 0)', 'uniform_rv() == 0 excluded')
    main = c.loop(0)
    main.also_modifies('kappa', 'ghost:pvals', 'c_current_state', 'c_propensity', 'c_results', 'c_volume_trace', 'v.current_volume')
    main.invariant('current_index <= num_timepoints', label='index')
    main.invariant('num_species == sim.num_species and num_reactions == sim.num_reactions and num_timepoints == len(timepoints) '
                   'and len(c_volume_trace) == num_timepoints and len(c_timepoints) == num_timepoints', label='sizes')
    main.invariant('rule_step == 0 or rule_step == 1', label='rule-flag')
    main.invariant('cell_divided == 0', label='not-yet-divided')
    # the delta (volume) clock runs from the interface's initial time: never behind the current time, at most one delta ahead
    main.invariant('delta_t == sim.dt and current_time <= next_queue_time and next_queue_time <= current_time + delta_t', label='delta-clock-aligned-with-the-current-time')
    main.invariant('current_index == num_timepoints or c_timepoints[current_index] >= current_time', label='next-row-is-not-in-the-past')
    # ---- R_vol
    main.step('arr(%s) == afun("vrules_state", sim, head(arr(c_current_state)), head(ghost("pvals")), head(current_volume), head(current_time), '
              'head(rule_step))' % XR, label='volume-rules-first')
    main.step('forall(lambda r: implies(0 <= r and r < num_reactions, c_propensity[r] == '
              'ufun("svprop", sim, r, %s, ghost("pvals"), head(current_volume), head(current_time))))' % XR,
              label='volume-scaled-propensities-of-rule-updated-state')
    main.step('Lambda == sum_(c_propensity, num_reactions)', label='total-propensity')
    main.step('current_time == ite(%s, %s, %s)' % (STEPPED, NQ, PROP), label='time-of-the-step')
    main.step('next_queue_time == ite(%s, %s + delta_t, %s)' % (STEPPED, NQ, NQ), label='delta-clock-advances-only-when-it-fires')
    main.step('implies(%s, current_volume == head(current_volume) + ufun("vstep", v, c_current_state, ghost("pvals"), current_time, '
              'head(current_volume), delta_t))' % STEPPED, label='volume-step-when-the-clock-fires')
    main.step('implies(not %s, current_volume == head(current_volume))' % STEPPED, label='no-volume-step-otherwise')
    FIRE = '(not %s and Lambda > 0)' % STEPPED
    main.step('implies(%s, 0 <= reaction_choice and reaction_choice < num_reactions and '
              'sum_(c_propensity, reaction_choice) < U(head(kappa()) + 1) * Lambda and '
              'U(head(kappa()) + 1) * Lambda <= sum_(c_propensity, reaction_choice + 1) and '
              'forall(lambda s: implies(0 <= s and s < num_species, c_current_state[s] == %s[s] + sim.update_array[s, reaction_choice] + '
              'sim.delay_update_array[s, reaction_choice])))' % (FIRE, XR), label='firing')
    main.step('implies(not %s, forall(lambda s: implies(0 <= s and s < num_species, c_current_state[s] == %s[s])))' % (FIRE, XR),
              label='no-firing-no-change')
    main.step('forall(lambda m, s: implies(head(current_index) <= m and m < current_index and 0 <= s and s < num_species, '
              'c_results[m, s] == %s[s]))' % XR, label='rows-get-the-pre-event-state')
    main.step('forall(lambda m: implies(head(current_index) <= m and m < current_index, c_volume_trace[m] == head(current_volume)))',
              label='rows-get-the-pre-step-volume')
    main.step('forall(lambda m, s: implies((m < head(current_index) or m >= current_index), c_results[m, s] == head(c_results[m, s])))',
              label='earlier-rows-frozen')
    main.step('current_index == num_timepoints or c_timepoints[current_index] > current_time', label='all-due-rows-recorded')
    # C09: a dt / ode rule runs exactly once per elapsed delta step: the next pass is a rule step iff the delta clock fired in this one
    main.step('rule_step == ite(%s, 1, 0)' % STEPPED, label='rule-step-exactly-when-the-delta-clock-fires')
    # "the result ends at the first grid time at which the volume model reports division and is flagged as divided": after EVERY volume step the
    # volume model is asked; the loop goes on only if it reported no division, and it is left early only on a reported division, flagged
    DIV = 'ifun("vdivided", v, c_current_state, ghost("pvals"), current_time, current_volume, delta_t)'
    main.step('implies(%s, %s == 0)' % (STEPPED, DIV), label='the-loop-goes-on-after-a-volume-step-only-if-no-division-was-reported')
    main.at_break('cell_divided == 1 and %s == 1' % DIV, label='left-early-only-on-a-reported-division-and-flagged')
    rec = c.loop(1)
    rec.invariant('entry(current_index, 1) <= current_index and current_index <= num_timepoints', label='index')
    rec.invariant('forall(lambda m, s: implies(entry(current_index, 1) <= m and m < current_index and 0 <= s and s < num_species, '
                  'c_results[m, s] == c_current_state[s]))', label='rows')
    rec.invariant('forall(lambda m: implies(entry(current_index, 1) <= m and m < current_index, c_volume_trace[m] == current_volume))', label='volumes')
    rec.invariant('forall(lambda m, s: implies(m < entry(current_index, 1) or m >= current_index, c_results[m, s] == entry(c_results[m, s], 1)))',
                  label='frozen')
    rec.invariant('forall(lambda m: implies(m < entry(current_index, 1) or m >= current_index, c_volume_trace[m] == entry(c_volume_trace[m], 1)))',
                  label='frozen-volumes')
    cp = c.loop(2)
    cp.invariant('forall(lambda s: implies(0 <= s and s < species_index, c_results[current_index, s] == c_current_state[s]))', label='copied')
    cp.invariant('forall(lambda m, s: implies(m != current_index or s >= species_index, c_results[m, s] == entry(c_results[m, s], 2)))', label='rest')
    up = c.loop(3)
    up.invariant('forall(lambda s: implies(0 <= s and s < species_index, c_current_state[s] == entry(c_current_state[s], 3) + '
                 'c_stoich[s, reaction_choice]))', label='updated')
    up.invariant('forall(lambda s: implies(s >= species_index, c_current_state[s] == entry(c_current_state[s], 3)))', label='rest')
    # ---- result: cut at division, flagged
    c.ensures('implies(result.cell_divided_flag == 0, result.simulation_result.shape[0] == len(timepoints))', label='all-rows-unless-divided')
    c.ensures('result.cell_divided_flag == 0 or result.cell_divided_flag == 1', label='flag-is-boolean')
    c.ensures('result.simulation_result.shape[0] == result.volume.shape[0] and result.simulation_result.shape[0] == result.timepoints.shape[0]',
              label='rows-volume-time-aligned')
    c.ensures('result.simulation_result.shape[1] == sim.num_species', label='one-column-per-species')
    c.ensures('arr(sim.initial_state) == old(arr(sim.initial_state))', label='initial-condition-untouched')
    c.ensures('arr(sim.update_array) == old(arr(sim.update_array)) and arr(sim.delay_update_array) == old(arr(sim.delay_update_array))',
              label='model-stoichiometry-untouched')
    c.opt(result_class='VolumeSSAResult')
