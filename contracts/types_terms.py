"""Contracts: bioscrape/types.pyx :: Term classes (C02; used by C09, C11, C14).

Structural induction over the expression tree: tval(t, species, params, time) / tvval(t, species, params, vol, time) are
uninterpreted symbols for "the value node t evaluates to" without / with a volume (abstract contracts of the virtual
methods); every concrete node class is proved to return the mathematical combination of its children's values.
The two symbols differ, so a node whose volume_evaluate falls back to evaluate on a child cannot verify.
"""
from bsvc.contracts import fuc
from bsvc import axioms, speclib, terms as tm
from bsvc.terms import REAL, INT
from bsvc.values import Arr, Obj, to_term

PROPS = ['C02', 'C09', 'C11']
R0, R1, I0, I1 = tm.mk_real(0), tm.mk_real(1), tm.mk_int(0), tm.mk_int(1)
PA = {'evaluate': '(species, params, time)', 'volume_evaluate': '(species, params, vol, time)'}
SYM = {'evaluate': 'tval', 'volume_evaluate': 'tvval'}
ARGS = {'evaluate': 'species, params, time', 'volume_evaluate': 'species, params, vol, time'}


def child(m, ref):
    return 'ufun("%s", %s, %s)' % (SYM[m], ref, ARGS[m])


for m in ('evaluate', 'volume_evaluate'):
    def abstract(m=m):
        @fuc('types', 'Term.' + m, props=PROPS)
        def _(c):
            c.abstract = True
            c.verify_body = False
            c.ensures('result == ' + child(m, 'self'))
            c.modifies()
            c.note('abstract contract of the virtual method; the base-class body raises (a bare Term is never built by the translator)')
    abstract()


# ---- recursive folds over the children vector: tfold_<kind>_<sym>(terms, n, args...)
def fold_axiom(kind, sym):
    name = 't%s_%s' % (kind, sym)

    def ax(t, ctx):
        terms, n = t.args[1], t.args[2]
        rest = t.args[3:]
        prev = tm.app(name, (terms, tm.sub(n, I1)) + tuple(rest), REAL)
        last = tm.app(sym, (tm.select(terms, tm.sub(n, I1)),) + tuple(rest), REAL)
        if kind == 'sum':
            return [tm.implies(tm.le(n, I0), tm.eq(t, R0)), tm.implies(tm.gt(n, I0), tm.eq(t, tm.add(prev, last)))]
        if kind == 'prod':
            return [tm.implies(tm.le(n, I0), tm.eq(t, R1)), tm.implies(tm.gt(n, I0), tm.eq(t, tm.mul(prev, last)))]
        first = tm.app(sym, (tm.select(terms, I0),) + tuple(rest), REAL)
        if kind == 'max':
            comb = tm.ite(tm.gt(last, prev), last, prev)
        else:
            comb = tm.ite(tm.lt(last, prev), last, prev)
        return [tm.implies(tm.le(n, I1), tm.eq(t, first)), tm.implies(tm.gt(n, I1), tm.eq(t, comb))]
    axioms.register(name, ax, '%s over the first n children values (%s): recursive definition' % (kind, sym))

    @speclib.spec(name)
    def f(ex, terms, n, *rest):
        ts = [terms.term if isinstance(terms, Arr) else terms, to_term(n)]
        for a in rest:
            ts.append(a.term if isinstance(a, Arr) else tm.to_real(to_term(a)) if not isinstance(a, Obj) else a.ref)
        return tm.app(name, tuple(ts), REAL)


for kind in ('sum', 'prod', 'max', 'min'):
    for sym in ('tval', 'tvval'):
        fold_axiom(kind, sym)


def leaf(cls, m, pre, post):
    @fuc('types', '%s.%s' % (cls, m), props=PROPS)
    def _(c):
        for p in pre:
            c.requires(p)
        c.ensures(post, label='meaning')
        c.modifies()


for m in ('evaluate', 'volume_evaluate'):
    leaf('ConstantTerm', m, [], 'result == self.value')
    leaf('SpeciesTerm', m, ['self.index < len(species)'], 'result == species[self.index]')
    leaf('ParameterTerm', m, ['self.index < len(params)'], 'result == params[self.index]')
    leaf('TimeTerm', m, [], 'result == time')
leaf('VolumeTerm', 'evaluate', [], 'result == 1.0')
leaf('VolumeTerm', 'volume_evaluate', [], 'result == vol')


def nary(cls, kind, m):
    @fuc('types', '%s.%s' % (cls, m), props=PROPS)
    def _(c):
        fold = 't%s_%s(self.terms, %%s, %s)' % (kind, SYM[m], ARGS[m])
        if kind in ('max', 'min'):
            c.requires('len(self.terms) >= 1')
            c.loop(0).invariant('1 <= i and ans == ' + fold % 'i')
        else:
            c.loop(0).invariant('ans == ' + fold % 'i')
        c.ensures('result == ' + fold % 'len(self.terms)', label='meaning')
        c.modifies()


for m in ('evaluate', 'volume_evaluate'):
    nary('SumTerm', 'sum', m)
    nary('ProductTerm', 'prod', m)
    nary('MaxTerm', 'max', m)
    nary('MinTerm', 'min', m)

    def unary(m=m):
        a = child(m, 'self.arg')

        @fuc('types', 'PowerTerm.' + m, props=PROPS)
        def _(c):
            c.ensures('result == rpow(%s, %s)' % (child(m, 'self.base'), child(m, 'self.exponent')), label='meaning')
            c.modifies()

        @fuc('types', 'ExpTerm.' + m, props=PROPS)
        def _(c):
            c.ensures('result == exp_(%s)' % a, label='meaning')
            c.modifies()

        @fuc('types', 'LogTerm.' + m, props=PROPS)
        def _(c):
            c.ensures('implies(%s > 0, result == ln(%s))' % (a, a), label='meaning-on-the-finite-domain')
            c.modifies()

        @fuc('types', 'StepTerm.' + m, props=PROPS)
        def _(c):
            c.ensures('implies(%s > 0, result == 1.0) and implies(%s < 0, result == 0.0)' % (a, a), label='meaning-away-from-0')
            c.modifies()

        @fuc('types', 'AbsTerm.' + m, props=PROPS)
        def _(c):
            c.ensures('result == ite(%s >= 0, %s, -%s)' % (a, a, a), label='meaning')
            c.modifies()
    unary()

# general propensity / rules evaluate exactly the stored term
for m, meth in (('evaluate', 'get_propensity'), ('volume_evaluate', 'get_volume_propensity')):
    def gp(m=m, meth=meth):
        @fuc('types', 'GeneralPropensity.' + meth, props=PROPS + ['C01'])
        def _(c):
            args = 'state, params, time' if m == 'evaluate' else 'state, params, volume, time'
            c.ensures('result == ufun("%s", self.term, %s)' % (SYM[m], args), label='evaluates-the-parsed-term')
            c.modifies()
    gp()


# ---------------------------------------------------------------------------------------------- the translator
from bsvc.contracts import Contract
from bsvc import contracts as C
from spec import sympy_stub as SS
from spec.sympy_stub import SymNode

S2I = {'X': 0, 'Y_1': 1, 'volume_like': 2}
P2I = {'k': 0, 'S': 1, 'C': 2, 'kq': 3}


@speclib.spec('term_at_point')
def term_at_point(ex, t, with_volume):
    sp, pa, t0, v0 = SS.point()
    m = 'volume_evaluate' if with_volume else 'evaluate'
    f = ex.program.find_method(t.cls, m)
    args = [sp, pa] + ([v0] if with_volume else []) + [t0]
    was = ex.in_spec
    ex.in_spec = False
    if not t.symbolic:
        ex.force_inline = True
    try:
        return ex.call_method(t, f, args, {})
    finally:
        ex.in_spec = was
        ex.force_inline = False


@speclib.spec('sem_of')
def sem_of(ex, node, with_volume):
    return SS.sem(ex, node, with_volume, dict(species2index=S2I, params2index=P2I))


# general contract, used at the recursive call sites (induction hypothesis): the returned term means what the subtree means
@fuc('types', 'sympy_recursion', props=['C02'])
def _(c):
    c.abstract = True
    c.verify_body = False
    c.opt(result=lambda ex, fr: ex.symbolic_obj(ex.program.find_class('Term'), 'subterm', exact=False))
    c.ensures('term_at_point(result, False) == sem_with_maps(tree, False, species2index, params2index)', label='ih-value')
    c.ensures('term_at_point(result, True) == sem_with_maps(tree, True, species2index, params2index)', label='ih-volume-value')
    c.note('induction hypothesis of the structural induction over the sympy tree (children are opaque subtrees)')


def opaque(i):
    return SymNode('Opaque', ref=tm.var('subtree%d' % i, INT))


def translator_contract(variant, tree, expect_raise=None, domain=None):
    c = Contract('types', 'sympy_recursion', ['C02'], variant=variant)
    c.hints['tree'] = dict(value=tree)
    c.hints['species2index'] = dict(value=lambda ex: dict(S2I))
    c.hints['params2index'] = dict(value=lambda ex: dict(P2I))
    if expect_raise:
        c.raises(expect_raise)
        c.ensures('False', label='must-be-rejected')
    else:
        if domain:
            c.ensures('implies(%s, term_at_point(result, False) == sem_of(tree, False))' % (domain % 'False'), label='value')
            c.ensures('implies(%s, term_at_point(result, True) == sem_of(tree, True))' % (domain % 'True'), label='volume-value')
        else:
            c.ensures('term_at_point(result, False) == sem_of(tree, False)', label='value')
            c.ensures('term_at_point(result, True) == sem_of(tree, True)', label='volume-value')
    c.opt(verify_only=True)
    C.REGISTRY[c.key] = c
    C.ORDER.append(c.key)


for nm in ('X', 'Y_1', 'k', 'S', 'C', '_kq', 'volume', 't', '_X'):
    translator_contract('Symbol:' + nm, SymNode('Symbol', name=nm))
for nm in ('unknown', 'Q', 'N', '__kq', 'pi_', 'Volume', 'T'):
    translator_contract('Symbol-unknown:' + nm, SymNode('Symbol', name=nm), expect_raise='ValueError')
translator_contract('Number', SymNode('Number', value=tm.var('numval', REAL)))
for kind in ('Add', 'Mul', 'Max', 'Min'):
    for n in (2, 3):
        translator_contract('%s/%d' % (kind, n), SymNode(kind, [opaque(i) for i in range(n)]))
translator_contract('Pow', SymNode('Pow', [opaque(0), opaque(1)]))
for kind in ('exp', 'Abs'):
    translator_contract(kind, SymNode(kind, [opaque(0)]))
translator_contract('log', SymNode('log', [opaque(0)]), domain='sem_of(tree.args[0], %s) > 0')           # finite domain of the formula
translator_contract('Heaviside', SymNode('Heaviside', [opaque(0)]), domain='sem_of(tree.args[0], %s) != 0')  # arguments kept away from 0


# two-level shapes: every node kind with every node kind as a child in every position (grandchildren opaque). The one-level induction
# above is sound only for a translator that never looks at the kind of a child; these shapes decide translators that look one level down
# (seed C02-c: a power of a power collapsed into one power)
def _child(kind, base):
    if kind == 'Number':
        return SymNode('Number', value=tm.var('childnum%d' % base, REAL))
    if kind.startswith('Symbol:'):
        return SymNode('Symbol', name=kind.split(':')[1])
    n = 1 if kind in ('exp', 'log', 'Abs', 'Heaviside') else 2
    return SymNode(kind, [opaque(base + i) for i in range(n)])


CHILD_KINDS = ('Add', 'Mul', 'Pow', 'Max', 'Min', 'exp', 'Abs', 'Symbol:X', 'Symbol:k', 'Symbol:volume', 'Number')
for parent in ('Add', 'Mul', 'Pow', 'Max', 'Min'):
    for pos in (0, 1):
        for ck in CHILD_KINDS:
            kids = [opaque(0), opaque(1)]
            kids[pos] = _child(ck, 10)
            translator_contract('%s[%d]=%s' % (parent, pos, ck), SymNode(parent, kids))
for parent in ('exp', 'Abs'):
    for ck in CHILD_KINDS:
        translator_contract('%s[0]=%s' % (parent, ck), SymNode(parent, [_child(ck, 10)]))
for kind in ('sin', 'Derivative', 'Piecewise', 'ImaginaryUnit'):
    translator_contract('unsupported:' + kind, SymNode(kind, [opaque(0)]), expect_raise='SyntaxError')


# ---------------------------------------------------------------------------------------------- parse_expression: text -> term
# the entry point every rate string and rule right-hand side goes through: the returned term means the written text FOR THE INDEX MAPS IT WAS
# GIVEN (the oracle parses the same text independently and evaluates it with the same maps).  Anything the function keeps between calls
# (seed C02-e: a cache of translated trees keyed by names only) is state at function entry: arbitrary, and outside the subset if it is a container
@speclib.spec('tree_of_text')
def tree_of_text(ex, text):
    from spec import sbml_formula as sf
    return SS.from_formula(sf.parse(str(text).strip().replace('|', '_').replace('heaviside', 'Heaviside'), 'python'))


@speclib.spec('sem_with_maps')
def sem_with_maps(ex, node, with_volume, s2i, p2i):
    return SS.sem(ex, node, with_volume, dict(species2index={k: ex.concrete_int(v) for k, v in s2i.items()}, params2index={k: ex.concrete_int(v) for k, v in p2i.items()}))


def parse_contract(variant, text, s2i, p2i):
    c = Contract('types', 'parse_expression', ['C02'], variant=variant)
    c.hints['instring'] = dict(value=text)
    c.hints['species2index'] = dict(value=lambda ex: dict(s2i))
    c.hints['params2index'] = dict(value=lambda ex: dict(p2i))
    c.ensures('term_at_point(result, False) == sem_with_maps(tree_of_text(instring), False, species2index, params2index)', label='value-with-the-given-index-maps')
    c.ensures('term_at_point(result, True) == sem_with_maps(tree_of_text(instring), True, species2index, params2index)', label='volume-value-with-the-given-index-maps')
    c.opt(verify_only=True)
    C.REGISTRY[c.key] = c
    C.ORDER.append(c.key)


for _tag, _s2i in (('declared-order', {'X': 0, 'Y_1': 1, 'volume_like': 2}), ('another-order', {'X': 2, 'Y_1': 0, 'volume_like': 1})):
    parse_contract('text:linear-rational:' + _tag, 'k*X + S/(1 + Y_1)', _s2i, P2I)
    parse_contract('text:power-time-volume:' + _tag, ' kq*X^2*volume + t - Y_1 ', _s2i, P2I)
