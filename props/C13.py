"""C13 - An imported SBML file has the semantics of the SBML document."""
import os
CONTRACT_MODULES = ['sbml_import', 'types_model_shapes', 'types_propensities', 'types_terms', 'types_rules']
SPEC_MODULES = ['functions', 'libsbml_stub', 'sympy_stub', 'sbml_formula']
LEVEL = 'proof'
ASSUMPTIONS = [
    'libsbml is replaced by the record model of spec/libsbml_stub.py and its infix printer/parser by spec/sbml_formula.py (assumed contracts on the dependency; the native sweep builds the same documents with the real libsbml, writes them to a file and imports that file)',
    'sympy.sympify is replaced by a parser of Python-syntax arithmetic that builds the n-ary Add/Mul/Pow trees sympy builds (assumed meaning-preserving)',
    'shape classes: one concrete document shape per variant (see contracts/sbml_import.py); every number in the document and the evaluation state are symbolic; power-of-power formulas are excluded (the installed libsbml prints (a^b)^c as a^b^c, which it parses back as a^(b^c))',
    'states are strictly positive in the rate comparison (formulas with ln, division and real powers are compared where they are defined)',
    'rate rules are taken on species variables (a rate rule on a parameter has no counterpart in the statement\'s derivative)',
]
TRUSTED = ['libsbml (record model)', 'sympy.sympify (parser model)']
EXPLANATION = ('import_sbml with its four readers and the whole Model assembly chain is executed symbolically on each document shape; the imported model\'s net rate of every species '
               '(real update array x real propensity objects evaluated on a symbolic state) is proved equal to stoichiometry x kinetic law (+ rate rules once) computed by an independent '
               'SBML semantics over the document with local parameters shadowing globals; initial values, parameter values and the repeated-assignment rules are proved likewise.')
LEVEL_TEXT = 'Deductive proof per document shape (all numbers and states symbolic).'
LEVEL_NOTE = 'bounded in document shape; see assumptions.'
_HERE = os.path.dirname(os.path.dirname(os.path.abspath(__file__)))


def _sweep(seed, rec, values=None):
    spec = dict(seed=seed)
    if values:
        import numbers
        spec['values'] = {k: float(v) for k, v in values.items() if isinstance(v, numbers.Number)}
    if rec is not None and '@' in rec['fuc']:
        from contracts import sbml_import
        d = sbml_import.SPECS.get(rec['fuc'].split('@', 1)[1])
        if d is not None:
            spec['doc'] = d
    src = open(os.path.join(_HERE, 'native', 'C13_sweep.py')).read()
    return src.replace("json.loads(sys.argv[1]) if len(sys.argv) > 1 else {}", repr(spec))


NATIVE_SWEEPS = {'*': _sweep}


def _replay(model, rec, seed):
    return _sweep(seed, rec, values=model)


REPLAY = {'sbmlutil::import_sbml': _replay}
