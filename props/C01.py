"""C01 - Built-in rate laws equal their documented closed forms."""
CONTRACT_MODULES = ['types_propensities', 'types_model_shapes', 'simulator_interfaces']
SPEC_MODULES = ['functions']
LEVEL = 'proof'
ASSUMPTIONS = ['x**y with a real exponent is the uninterpreted function rpow (axioms in trusted_base); Hill posts are equalities of such terms modulo field arithmetic']
TRUSTED = []
EXPLANATION = 'function-against-spec postconditions on every evaluation method of every propensity class (inherited base bodies re-verified per concrete class); loop invariants over prefix products for the general mass-action class'
LEVEL_TEXT = 'Deductive proof for all states, parameters, volumes and (for the general mass-action class) reactant lists of any length.'
LEVEL_NOTE = 'Trusted: reals for doubles; rpow axioms; spec functions ipow/ff/prodpow/prodff by their recursive definitions.'

import os
_HERE = os.path.dirname(os.path.dirname(os.path.abspath(__file__)))


def _sweep(seed, rec):
    src = open(os.path.join(_HERE, 'native', 'C01_sweep.py')).read()
    return src.replace("json.loads(sys.argv[1]) if len(sys.argv) > 1 else {}", repr(dict(seed=seed)))


NATIVE_SWEEPS = {'*': _sweep}
