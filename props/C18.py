"""C18 - Reported Jacobians and parameter sensitivities match analytic derivatives."""
import os
CONTRACT_MODULES = ['analysis', 'simulator_interfaces', 'types_rules']
SPEC_MODULES = ['functions']
LEVEL = 'proof'
ASSUMPTIONS = [
    'Taylor\'s theorem (exactness of a stencil on polynomials of degree d gives truncation error O(h^d) for smooth F): cited; the exactness lemmas are discharged by SMT',
    'np.round(., decimals=P) is an uninterpreted function round_P applied entry-wise',
    'model shapes: two concrete 3-species models (mass action order 1-2 + positive Hill; mass action only); every Jacobian entry, every parameter, all four schemes, all states/parameters symbolic; networks of other shapes are covered by the per-class rate contracts (C01) and the derivative contracts (C03) but not by an end-to-end contract',
    'h is the constant 0.01 the class uses (the dx argument is ignored by the code; the statement does not forbid that)',
]
TRUSTED = []
EXPLANATION = ('compute_J and compute_Zj are executed symbolically through the real _evaluate_model -> interface derivative chain; each reported entry is proved equal to the '
               'stencil of the statement applied to an independently written closed-form F, with fresh copies of the state per perturbation and the model parameters restored on every path.')
LEVEL_TEXT = 'Deductive proof per model shape (all values symbolic, all schemes) plus stencil exactness lemmas.'
LEVEL_NOTE = 'bounded in model shape; see assumptions.'
_HERE = os.path.dirname(os.path.dirname(os.path.abspath(__file__)))


def _sweep(seed, rec):
    src = open(os.path.join(_HERE, 'native', 'C18_sweep.py')).read()
    return src.replace("json.loads(sys.argv[1]) if len(sys.argv) > 1 else {}", repr(dict(seed=seed)))


NATIVE_SWEEPS = {'*': _sweep}
