"""C06 - Every stochastic trajectory is a feasible reaction path."""
import os
CONTRACT_MODULES = ['simulator_safe', 'simulator_interfaces', 'types_propensities', 'random_', 'simulator_ssa', 'simulator_delay',
                    'simulator_volume', 'simulator_delayvolume', 'simulator_queue']
SPEC_MODULES = ['functions', 'lemmas_lattice', 'lemmas_prob']
LEVEL = 'proof'
ASSUMPTIONS = [
    'whole-trajectory claims (lattice membership of every row, conservation, persistence of dead states) follow from the per-iteration step relations by induction over iterations; the induction itself is an argument over the discharged step clauses and lemmas, not a mechanised proof',
    'mass-action non-negativity is stated for networks in which a reaction removes at most the multiplicity its rate law counts; delayed consumption is outside it (DESIGN C06)',
    'integer stoichiometry; doubles as reals',
]
TRUSTED = []
EXPLANATION = ('Step relations of the SSA, delay, volume and delay+volume simulators (state changes only by a column of U+D, or of D at delivery); safe interface: table view of consumed '
               'species, sentinel inside the allocated row, propensity > 0 implies every consumed species is present in the needed amount (all propensity types); '
               'lemmas: lattice step, lin-update induction, falling-factorial positivity, conservation step.')
LEVEL_TEXT = 'Deductive proof of the per-step facts on the real loop bodies and of the safe-interface guard for any network; trajectory-level corollaries by (stated) induction.'
LEVEL_NOTE = 'See assumptions; the delay+volume simulator is under contract as well (contracts/simulator_delayvolume.py).'
_HERE = os.path.dirname(os.path.dirname(os.path.abspath(__file__)))


def _sweep(seed, rec):
    src = open(os.path.join(_HERE, 'native', 'C06_sweep.py')).read()
    return src.replace("json.loads(sys.argv[1]) if len(sys.argv) > 1 else {}", repr(dict(seed=seed)))


NATIVE_SWEEPS = {'*': _sweep}
