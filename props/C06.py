"""C06 - Every stochastic trajectory is a feasible reaction path."""
CONTRACT_MODULES = ['simulator_safe', 'simulator_interfaces', 'types_propensities', 'random_']
SPEC_MODULES = ['functions']
LEVEL = 'proof'
ASSUMPTIONS = []
TRUSTED = []
EXPLANATION = 'work in progress'
LEVEL_TEXT = 'work in progress'
LEVEL_NOTE = 'work in progress'
NOT_APPLICABLE = 'contracts under construction'
