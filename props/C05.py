"""C05 - Stochastic simulation samples the chemical master equation exactly."""
import os
CONTRACT_MODULES = ['simulator_ssa', 'random_', 'simulator_interfaces', 'simulator_safe', 'types_propensities']
SPEC_MODULES = ['functions', 'lemmas_prob']
LEVEL = 'proof'
ASSUMPTIONS = [
    'the random stream U[k] (values returned by uniform_rv) is i.i.d. uniform on [0,1]: cited (MT19937-64), not proved',
    'the event uniform_rv() == 0 (probability 2^-53) is excluded: ln diverges and sample_discrete would return -1',
    'measure of an interval under the uniform law, and Gillespie\'s theorem (the three per-step laws characterise the chemical master equation): cited; the statement itself gives this equivalence',
    'propensities are non-negative at reachable states (assumed in the abstract interface contract; proved for the safe interface)',
    'safe interface: sprop is the rate law of the propensity object (clipped at 0) for every reaction all of whose table entries (consumed species with the needed amount) are satisfied, and 0 otherwise (contracts/simulator_safe.py, stated over the table entries; the positions 0..ccount-1 of a row are exactly the consumed species, a counting fact about ccount that is not mechanised)',
    'the abstract interface symbols sprop / rules_state are instantiated for ModelCSimInterface by rate_STO of the reaction\'s propensity object and the rule classes (contracts simulator_interfaces, types_propensities)',
]
TRUSTED = ['numpy: zeros, ndarray.copy, elementwise + of equal-shape matrices']
EXPLANATION = ('One iteration of the real SSASimulator.simulate loop body is verified against the abstract step relation R_ssa (16 two-state clauses: '
               'rules first, propensities of the rule-updated state, exponential waiting time by inverse CDF, fire iff before the grid time, '
               'selection interval, update by immediate+delayed stoichiometry, rows recorded with the pre-firing state, frozen rows, stream consumption), '
               'for any network size, grid and stream; samplers are verified as deterministic functions of the stream; preimage lemmas give the per-step laws.')
LEVEL_TEXT = ('Deductive proof of the "equivalently" form of the statement: waiting-time law, selection law and reporting rule, as contracts on '
              'the real code for all networks/grids/streams; the step from the three laws to equality of distributions is cited mathematics.')
LEVEL_NOTE = 'See assumptions: i.i.d.-uniform generator, measure theory and Gillespie\'s theorem are cited; U=0 excluded; doubles as reals.'
_HERE = os.path.dirname(os.path.dirname(os.path.abspath(__file__)))


def _sweep(seed, rec):
    src = open(os.path.join(_HERE, 'native', 'C05_sweep.py')).read()
    return src.replace("json.loads(sys.argv[1]) if len(sys.argv) > 1 else {}", repr(dict(seed=seed)))


NATIVE_SWEEPS = {'*': _sweep}
