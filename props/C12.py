"""C12 - Writing a model to SBML and reading it back preserves its behaviour."""
import os
CONTRACT_MODULES = ['sbml_roundtrip', 'types_model_shapes', 'types_propensities', 'types_terms', 'types_rules', 'types_delays']
SPEC_MODULES = ['functions', 'libsbml_stub', 'sympy_stub', 'sbml_formula']
LEVEL = 'proof'
ASSUMPTIONS = [
    'libsbml is replaced by the record model of spec/libsbml_stub.py: writing the document to a file and reading the file back is the identity on records, annotation text is returned as stored inside <annotation>..</annotation> (assumed contracts on the dependency; the native sweep goes through a real file)',
    'sympy.sympify is replaced by a parser of Python-syntax arithmetic that builds the n-ary Add/Mul/Pow trees sympy builds (assumed meaning-preserving)',
    'shape classes: one concrete model per variant - all 24 reactant patterns of order 0..4, each Hill type (named / numeric), general rates, each delay family with named / numeric parameters and delayed reactants / products, assignment and additive rules with each frequency; deterministic and stochastic export; all numbers symbolic',
    'ODE rules are outside the quantifier of the statement (additive / assignment rules) and are not round-tripped as rules',
]
TRUSTED = ['libsbml (record model)', 'sympy.sympify (parser model)']
EXPLANATION = ('The real Model.generate_sbml_model is executed symbolically on a model shape, the record it produces is handed to the real import_sbml, and the model that comes back is '
               'compared clause by clause with the original: species / initial values, parameter values, immediate and delayed stoichiometry by species name, all four rate forms of every '
               'reaction at a common symbolic state (real propensity methods of both models), delay class and delay parameter values, rule frequency flags and the effect of the real rule '
               'operations.  A second contract proves that two exports of the same model are equal records up to the model id.')
LEVEL_TEXT = 'Deductive proof per model shape (all numbers and states symbolic), both exports.'
LEVEL_NOTE = 'bounded in model shape; see assumptions.'
_HERE = os.path.dirname(os.path.dirname(os.path.abspath(__file__)))


def _sweep(seed, rec):
    spec = dict(seed=seed)
    if rec is not None and '@roundtrip:' in rec['fuc']:
        from contracts import sbml_roundtrip
        d = sbml_roundtrip.SPECS.get(rec['fuc'].split('@', 1)[1])
        if d is not None:
            spec['shape'] = d
    src = open(os.path.join(_HERE, 'native', 'C12_sweep.py')).read()
    return src.replace("json.loads(sys.argv[1]) if len(sys.argv) > 1 else {}", repr(spec))


NATIVE_SWEEPS = {'*': _sweep}
