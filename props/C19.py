"""C19 - Division conserves molecules and volume; lineage records are consistent."""
import os
CONTRACT_MODULES = ['splitters', 'random_']
PRELOAD = ['lineage']
SPEC_MODULES = ['functions']
LEVEL = 'proof'
ASSUMPTIONS = []
TRUSTED = []
EXPLANATION = ''
LEVEL_TEXT = 'Deductive proof.'
LEVEL_NOTE = 'See assumptions.'
_HERE = os.path.dirname(os.path.dirname(os.path.abspath(__file__)))
