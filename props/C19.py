"""C19 - Division conserves molecules and volume; lineage records are consistent."""
import os
CONTRACT_MODULES = ['splitters', 'random_', 'lineage_sim', 'lineage_rules', 'simulator_interfaces', 'simulator_ssa', 'types_rules']
PRELOAD = ['lineage']
SPEC_MODULES = ['functions']
LEVEL = 'proof'
ASSUMPTIONS = [
    'the random stream U is i.i.d. uniform (C08); "d[s] == bcount(k, round(x[s]), p) over pairwise disjoint stream segments" is read as d[s] ~ Binomial(round(x[s]), p) independently per species (cited)',
    'partition tables of a splitter are well formed: indices in range, the perfect and the binomial list duplicate-free and disjoint (precondition of partition; established by the constructors for option lists without repeated names - constructor contracts are shape-class only)',
    'partition noise: GeneralVolumeSplitter noise < 0.5 (as documented); LineageVolumeSplitter noise < 1 (noise == 1 with a draw of exactly 1.0 gives a zero-volume daughter, probability 2^-53); custom partition functions are outside the quantifier of the statement and excluded by precondition',
    'SimulateSingleCell: mode 1 (full trajectory), at least two sorted time points, cell state carries a state vector of the right length and positive volume; the interface virtual methods (lineage propensities >= 0, rule indices in range, volume rules/events) are abstract contracts (uninterpreted functions of their arguments)',
    'SimulateCellLineage: one division (simulate_daughter_cells) is proved with the list-alignment invariant as its postcondition; the work-list loop is covered by a generic-pass contract (one arbitrary queued cell processed, then cut): the call-site preconditions of partition / truncate / simulate_daughter_cells hold for every queued cell; whole-lineage properties rest on these plus the native sweep',
    'the bodies of the lineage interface methods (propensity vector, first firing death / division rule, chained volume rules, volume event) are proved against abstract symbols of the virtual rule / event methods; those virtual methods themselves (rule and event classes of lineage.pyx) are abstract contracts',
    'Schnitz / Lineage container accessors are not under contract (plain field getters)',
]
TRUSTED = []
EXPLANATION = ('Splitters: loop invariants over symbolic partition tables prove conservation per mode, the volume split, and the binomial law as a count over explicit disjoint segments of the random '
               'stream, for all mother states. Single-cell lineage loop: invariants (positive volume, recorded rows positive and due) and at-break clauses (division / death codes identify the '
               'rule or the sampled event), preconditions of the samplers at their call sites (no sampling with total propensity zero), result rows exactly the recorded ones. '
               'Dispatch: LineageCSimInterface.partition uses the splitter attached to the rule / event named by the division code. simulate_daughter_cells: both daughters simulated from the '
               'partition, parent/daughter links mutual, work lists stay aligned.')
LEVEL_TEXT = 'Deductive proof for all mother states / partition tables (splitters) and all interface behaviours (single-cell loop); the lineage work-list loop through one generic pass (call-site preconditions for every queued cell).'
LEVEL_NOTE = 'See assumptions.'
_HERE = os.path.dirname(os.path.dirname(os.path.abspath(__file__)))


def _sweep(seed, rec):
    spec = dict(seed=seed)
    if rec is not None:
        f = rec['fuc']
        spec['part'] = 'splitters' if 'Splitter' in f else ('dispatch' if 'partition' in f or 'at-break' in (rec.get('label') or '') else
                                                            ('lineage' if 'simulate_daughter_cells' in f else None))
        if spec['part'] is None:
            del spec['part']
    src = open(os.path.join(_HERE, 'native', 'C19_sweep.py')).read()
    return src.replace("json.loads(sys.argv[1]) if len(sys.argv) > 1 else {}", repr(spec))


NATIVE_SWEEPS = {'*': _sweep}
