"""C10 - Delayed reactions deliver their delayed part exactly once, after the delay."""
import os
CONTRACT_MODULES = ['types_delays', 'random_', 'simulator_queue', 'simulator_delay', 'simulator_delayvolume', 'simulator_volume', 'simulator_ssa', 'simulator_interfaces']
SPEC_MODULES = ['functions', 'lemmas_queue', 'lemmas_prob', 'lemmas_lattice']
LEVEL = 'proof'
ASSUMPTIONS = [
    'Box-Muller yields N(mean, std^2) and Marsaglia-Tsang (k >= 1) yields Gamma(k, theta): cited theorems; the code is proved to be those samplers over the explicit stream',
    'termination of the gamma rejection loop is not proved',
    'cos is uninterpreted (range [-1,1]); uniform_rv() == 0 excluded',
    'accounting over a whole run (reported state + queued deliveries = every firing) follows from the step clauses and the queue accounting lemmas by induction over iterations (argument, not mechanised)',
    'DelayVolumeSSASimulator is under contract too (contracts/simulator_delayvolume.py: the same delivery / firing clauses with the volume clock as a third competitor)',
]
TRUSTED = []
EXPLANATION = ('Step relation R_delay verified on the real DelaySSASimulator loop body: the queue wins iff its next time precedes the proposed time; a delivery applies the delayed '
               'stoichiometry of the head slot once and advances the queue once; a firing applies the immediate stoichiometry and queues exactly one unit at the slot nearest to '
               't + delay, or applies the delayed part at once for a non-positive delay; queue operations through their verified contracts (C20); delay samplers against the '
               'published algorithms; simulators without delay support use U + D (C05).')
LEVEL_TEXT = 'Deductive proof of the per-step delay semantics for any network, grid, queue size and stream; distribution names of the samplers cited.'
LEVEL_NOTE = 'See assumptions.'
_HERE = os.path.dirname(os.path.dirname(os.path.abspath(__file__)))


def _sweep(seed, rec):
    src = open(os.path.join(_HERE, 'native', 'C10_sweep.py')).read()
    return src.replace("json.loads(sys.argv[1]) if len(sys.argv) > 1 else {}", repr(dict(seed=seed)))


def _qsweep(seed, rec):
    src = open(os.path.join(_HERE, 'native', 'C20_sweep.py')).read()
    return src.replace("int(sys.argv[1]) if len(sys.argv) > 1 else 0", str(int(seed)))


NATIVE_SWEEPS = {'*': _sweep, 'simulator::ArrayDelayQueue.add_reaction': _qsweep}
