"""C10"""
CONTRACT_MODULES = ['types_delays', 'random_', 'simulator_queue', 'simulator_delay', 'simulator_ssa', 'simulator_interfaces']
SPEC_MODULES = ['functions', 'lemmas_queue', 'lemmas_prob']
LEVEL = 'proof'
NOT_APPLICABLE = 'under construction'
ASSUMPTIONS = []
TRUSTED = []
EXPLANATION = ''
LEVEL_TEXT = ''
LEVEL_NOTE = ''
