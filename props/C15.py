"""C15 - The inference cost is the stated posterior on correctly aligned data."""
import os
CONTRACT_MODULES = ['inference_setup', 'pid_interfaces', 'inference_pyx', 'simulator_entry', 'simulator_interfaces']
SPEC_MODULES = ['functions', 'dep_stubs']
LEVEL = 'proof'
ASSUMPTIONS = [
    'detsim(x0, p, T), the deterministic trajectory, is an uninterpreted function of (initial state, parameter vector, grid): its content is C04',
    'pandas: df.get(column) returns the column in row order (record stub); numpy reshape/transpose in C order (implemented with explicit index arithmetic for concrete shapes)',
    'shape classes: extract_data for N in {1,2,3} x M in {1,2,3} x T = 3; likelihood for N = 2, M = 2, T = 2, norm orders 1..3, parameter conditions with equal and with different key sets; all numbers symbolic. Larger N/M/T are not covered by a contract (bounded-in-shape); the native sweep of the thorough tier samples N <= 4, M <= 3',
    'history independence ("a function of theta alone") from: get_likelihood_function resets defaults then theta on every evaluation (proved with a recording stub of the likelihood object) and the likelihood applies each condition on top of the parameters in force at entry',
    'the stochastic cost: StochasticTrajectoriesLikelihood.get_log_likelihood is proved against the same oracle with the SSA simulator summarised as stosim(initial state, parameters, grid, stream position) - N_simulations = 1, two trajectories with three time points each',
]
TRUSTED = ['pandas record stub', 'numpy reshape/transpose model']
EXPLANATION = ('extract_data: data[n,t,m] == frame_n[measurement_m][t] and the per-trajectory time axes, for every frame/measurement shape; '
               'DeterministicLikelihood.get_log_likelihood (built through the real constructors: ModelLikelihood, BulkData, set_init_species ...): the value equals the oracle of the statement with '
               'x0_n = defaults overridden by condition n, P_n = entry parameters overridden by condition n only, measured species matched by name; '
               'get_likelihood_function: log-prior + likelihood inside the support, -inf outside with no simulation started.')
LEVEL_TEXT = 'Deductive proof per shape class (all data/parameter values symbolic) of the alignment, the likelihood formula and the reset discipline.'
LEVEL_NOTE = 'bounded in N/M/T shape; deterministic trajectory abstracted (C04).'
_HERE = os.path.dirname(os.path.dirname(os.path.abspath(__file__)))


def _sweep(seed, rec):
    src = open(os.path.join(_HERE, 'native', 'C15_sweep.py')).read()
    return src.replace("json.loads(sys.argv[1]) if len(sys.argv) > 1 else {}", repr(dict(seed=seed)))


NATIVE_SWEEPS = {'*': _sweep}
