"""C03 - Stoichiometry and net rate equations follow the reaction list."""
CONTRACT_MODULES = ['types_model_shapes', 'types_propensities', 'types_terms', 'simulator_interfaces', 'simulator_derivative']
SPEC_MODULES = ['functions', 'sympy_stub']
LEVEL = 'proof'
ASSUMPTIONS = ['the number of reactions in one model is enumerated (1 and 4-reaction shapes); column r of the matrices is written from reaction r alone (seen in _create_stochiometric_matrices), so per-reaction shapes carry the claim to any number of reactions - this last step is an argument, not a mechanised induction']
TRUSTED = ['numpy zeros / concatenate / item assignment', 'dict insertion order']
EXPLANATION = ('The real Model constructor chain is executed symbolically per reaction shape (all reactant x product sequences up to length 3 over two names, delayed parts, '
               'declaration orders, multi-reaction models) and every matrix entry is compared with products minus reactants; the derivative loops of the interface are verified with symbolic sizes.')
LEVEL_TEXT = 'Proof per reaction shape (exhaustive over the enumerated shapes, all numeric values symbolic) plus unbounded contracts on the interface evaluation loops.'
LEVEL_NOTE = 'bounded-in-shape in the number of reactions per model and in sequence length (<= 3, plus selected longer ones); see assumptions.'

import os
_HERE = os.path.dirname(os.path.dirname(os.path.abspath(__file__)))


def _sweep(seed, rec):
    src = open(os.path.join(_HERE, 'native', 'C03_sweep.py')).read()
    return src.replace("json.loads(sys.argv[1]) if len(sys.argv) > 1 else {}", repr(dict(seed=seed)))


NATIVE_SWEEPS = {'*': _sweep}
