"""C11 - Volume-aware simulation scales rates with volume and tracks growth and division."""
import os
CONTRACT_MODULES = ['simulator_volume', 'simulator_delayvolume', 'simulator_delay', 'simulator_queue', 'simulator_ssa', 'random_', 'simulator_interfaces', 'types_propensities', 'types_volume', 'types_model_shapes', 'types_terms']
SPEC_MODULES = ['functions', 'lemmas_prob']
LEVEL = 'proof'
ASSUMPTIONS = [
    'constant-volume law: the step relation with the volume-scaled propensities (C01 VOL/STOVOL closed forms) is that of the SSA; per-step laws -> distribution is cited (as C05)',
    '0.69314718056 is taken as ln 2',
    'the bracket "within one time step of the growth law" follows from one volume step per delta (clause delta-clock-advances-only-when-it-fires) and the step-law lemmas by induction over steps (argument)',
    'DelayVolumeSSASimulator is under contract too (volume step exactly when the delta clock fires)',
    'the delta clock is aligned with the interface\'s initial time (never behind the current time, at most one delta ahead): invariant of both volume simulators, under the precondition that the time grid does not start before the interface\'s initial time',
]
TRUSTED = []
EXPLANATION = ('R_vol verified on the real VolumeSSASimulator loop body (volume rules first, volume-scaled propensities, delta clock, volume step exactly when the clock fires, '
               'rows get the pre-step volume, cut at division); volume classes against exponential growth increments and division tests; volume-scaled rate laws are C01.')
LEVEL_TEXT = 'Deductive proof of the per-step semantics for any network/grid/stream and of the volume-scaled closed forms; growth-law lemmas by SMT.'
LEVEL_NOTE = 'See assumptions.'
_HERE = os.path.dirname(os.path.dirname(os.path.abspath(__file__)))


def _sweep(seed, rec):
    src = open(os.path.join(_HERE, 'native', 'C11_sweep.py')).read()
    return src.replace("json.loads(sys.argv[1]) if len(sys.argv) > 1 else {}", repr(dict(seed=seed)))


def _ratesweep(seed, rec):
    # the volume-scaled rate laws (C01 closed forms in the VOL / STOVOL modes) evaluated natively against their formulas
    src = open(os.path.join(_HERE, 'native', 'C01_sweep.py')).read()
    return src.replace("json.loads(sys.argv[1]) if len(sys.argv) > 1 else {}", repr(dict(seed=seed)))


NATIVE_SWEEPS = {'*': _sweep, 'types::Propensity.get_stochastic_volume_propensity': _ratesweep, 'types::Propensity.get_volume_propensity': _ratesweep, 'types::Model.__init__': _ratesweep}
