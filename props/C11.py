"""C11"""
CONTRACT_MODULES = ['simulator_volume', 'simulator_ssa', 'random_', 'simulator_interfaces', 'types_propensities', 'types_volume']
SPEC_MODULES = ['functions', 'lemmas_prob']
LEVEL = 'proof'
NOT_APPLICABLE = 'under construction'
ASSUMPTIONS = []
TRUSTED = []
EXPLANATION = ''
LEVEL_TEXT = ''
LEVEL_NOTE = ''
