"""C17 - Copies and pickles of models and results behave like the original."""
import os
CONTRACT_MODULES = ['pickling']
SPEC_MODULES = ['functions']
LEVEL = 'proof'
ASSUMPTIONS = [
    'pickle / copy.deepcopy reproduce the object graph through __reduce__/__getstate__/__setstate__ (attribute-wise for Cython auto-pickle classes) and return fresh objects: ASSUMED protocol contract; watched by the bounded native round-trip sweep (thorough tier)',
    '"same behaviour and seeded output" then follows from C08 (outputs are a function of the definition and the seed)',
    'the state-method contracts are shape-class proofs on one model with every propensity/delay family represented; the field list is read from the declarations on every run',
    'VolumeCellState.volume_object is not part of its pickled state (excluded: not "data" of a cell state record)',
]
TRUSTED = []
EXPLANATION = ('For Model, LineageModel, Schnitz, Lineage, VolumeCellState: __setstate__(__getstate__(x)) into a freshly allocated object restores every declared field that any method reads '
               '(tuple positions must agree), and the C pointer vectors are rebuilt from the restored lists; n-ary expression nodes: __reduce__ + restore_binary_term restore class and children in order; '
               'every class of the families named in the statement is attribute-wise picklable or defines its own reduce/state pair (82 classes, decided from the declarations).')
LEVEL_TEXT = 'Deductive proof over the state methods (all declared fields), static picklability of every class; pickle protocol assumed.'
LEVEL_NOTE = 'See assumptions.'
_HERE = os.path.dirname(os.path.dirname(os.path.abspath(__file__)))


def _sweep(seed, rec):
    src = open(os.path.join(_HERE, 'native', 'C17_sweep.py')).read()
    return src.replace("json.loads(sys.argv[1]) if len(sys.argv) > 1 else {}", repr(dict(seed=seed)))


NATIVE_SWEEPS = {'*': _sweep}
