"""C02 - Rate and rule expressions evaluate to their mathematical meaning."""
import os
CONTRACT_MODULES = ['types_terms', 'types_rules']
SPEC_MODULES = ['functions', 'sympy_stub']
LEVEL = 'proof'
ASSUMPTIONS = [
    'sympy.sympify(text, _clash1) returns a tree whose mathematical meaning is that of the written formula (assumed contract on the dependency; watched by the bounded native sweep of the thorough tier: random expression strings through the real parser)',
    'pow/exp/log of doubles are the real functions on the finite domain',
    'Heaviside arguments are kept away from exactly 0 (hypothesis of the statement)',
]
TRUSTED = ['record model of sympy nodes: .func, .args, str(symbol), .evalf() (spec/sympy_stub.py)']
EXPLANATION = ('Structural induction over the expression tree: every node class\'s evaluate / volume_evaluate is verified against the combination of its children\'s '
               'values (abstract contract of the virtual method as induction hypothesis; n-ary nodes by loop invariants over any number of children); the translator '
               'sympy_recursion is verified per node kind with opaque subtrees (induction step), including rejection of unknown names and unsupported node kinds.')
LEVEL_TEXT = 'Deductive proof for expression trees of any depth and all evaluation points in the finite domain; the text-to-tree step (sympy) is an assumed contract watched by a bounded native sweep.'
LEVEL_NOTE = 'sympy parse = assumed; reals for doubles; rpow/exp/ln axioms.'
_HERE = os.path.dirname(os.path.dirname(os.path.abspath(__file__)))


def _sweep(seed, rec):
    src = open(os.path.join(_HERE, 'native', 'C02_sweep.py')).read()
    return src.replace("json.loads(sys.argv[1]) if len(sys.argv) > 1 else {}", repr(dict(seed=seed)))


NATIVE_SWEEPS = {'*': _sweep}
