"""C04 - Deterministic simulation solves the model's rate equations."""
import os
CONTRACT_MODULES = ['simulator_deterministic', 'simulator_entry', 'simulator_derivative', 'simulator_ssa', 'simulator_interfaces', 'types_propensities', 'types_model_shapes']
SPEC_MODULES = ['functions', 'dep_stubs', 'sympy_stub']
LEVEL = 'proof'
ASSUMPTIONS = [
    'scipy.integrate.odeint (LSODA): returns y with y[i] ~ phi(T[i]) within (atol, rtol) for the right-hand side it is given, calls it only as rhs(state, t), tolerates the in-place rule application, and reports failure in full_output["message"] -- ASSUMED contract on the dependency; the clause "agrees with the exact solution within the integrator\'s tolerance" is proved modulo it',
    'odeint is deterministic',
    'the retry loop is unrolled (mxstep 500 -> 5000 -> ... -> 500000: at most 5 calls for the default settings)',
    'rules that assign parameters act on consecutive output rows with the parameter vector reset once (pvh recursion) -- stated as the code does it',
]
TRUSTED = ['odeint record stub (spec/dep_stubs.py)']
EXPLANATION = ('rhs_global returns the derivative (C03: (U+D) x rate) of the rule-updated state with rule_step exactly when t/dt is integral; _helper_simulate passes rhs_global, a COPY of the '
               'initial condition, the requested time points and the stored tolerances to the integrator with global_simulator pointing at this interface, re-applies the rules to every '
               'output row, returns the requested time axis, and returns all-NaN (never numbers) when the integrator reports failure; net stoichiometry U + D = delays act as zero.')
LEVEL_TEXT = 'Deductive proof of everything bioscrape contributes to the deterministic trajectory; integrator accuracy assumed (family limit: numerical analysis of LSODA).'
LEVEL_NOTE = 'proved modulo the odeint contract; see assumptions.'
_HERE = os.path.dirname(os.path.dirname(os.path.abspath(__file__)))


def _sweep(seed, rec):
    src = open(os.path.join(_HERE, 'native', 'C04_sweep.py')).read()
    return src.replace("json.loads(sys.argv[1]) if len(sys.argv) > 1 else {}", repr(dict(seed=seed)))


NATIVE_SWEEPS = {'*': _sweep}
