"""C07 - Every simulation mode returns a complete, correctly labelled result."""
import os
CONTRACT_MODULES = ['simulator_entry', 'simulator_delayvolume', 'simulator_ssa', 'simulator_delay', 'simulator_volume', 'simulator_queue', 'simulator_interfaces', 'random_', 'simulator_safe']
SPEC_MODULES = ['functions', 'dep_stubs', 'lemmas_queue']
LEVEL = 'proof'
ASSUMPTIONS = [
    'pandas.DataFrame(data, columns) / df[name] = column: column map with row order preserved (record stub spec/dep_stubs.py)',
    'np.allclose of the grid differences is an arbitrary boolean (both the uniform and the non-uniform branch are explored)',
    'the deterministic simulator is represented by a summary contract at the call site (result with one row per time point); its body: C04',
    'model shape: one concrete model (3 species declared out of index order, a delayed reaction, a rule); the lattice of options is covered exhaustively by path enumeration for that shape; "first row = initial condition with rules applied" is covered by the native sweep only (bounded)',
    'with a pre-built interface and no Model argument the frame has unnamed data columns (documented warning); the claim there is one data column per species',
]
TRUSTED = ['pandas record stub', 'numpy.allclose abstracted']
EXPLANATION = ('py_simulate_model is executed symbolically with stochastic/delay/safe/return_dataframe as symbolic booleans for each volume kind x {Model, Interface}: '
               'every path must return (definite assignment of every local, no exception from inside) a frame / result object with the requested time axis, '
               'one row per time point and species columns in index order; callee simulators through their verified contracts (pre@call obligations), '
               'including the delay+volume simulator (step relation R_dvol).')
LEVEL_TEXT = 'Deductive proof over the whole option lattice (exhaustive path enumeration) for a concrete model shape; callee loops verified for any size.'
LEVEL_NOTE = 'See assumptions.'
_HERE = os.path.dirname(os.path.dirname(os.path.abspath(__file__)))


def _sweep(seed, rec):
    src = open(os.path.join(_HERE, 'native', 'C07_sweep.py')).read()
    return src.replace("json.loads(sys.argv[1]) if len(sys.argv) > 1 else {}", repr(dict(seed=seed)))


NATIVE_SWEEPS = {'*': _sweep}
