"""C16 - Built-in priors are the log-densities they are named after."""
CONTRACT_MODULES = ['pid_interfaces']
LEVEL = 'proof'
ASSUMPTIONS = [
    'IEEE arithmetic fact (cited): a non-finite accumulated log-prior stays non-finite whatever is added to it',
    'numpy.log of a positive real is the natural logarithm; of 0 it is -inf; of a negative number nan (warning dropped)',
    'x**y for real y is an uninterpreted function rpow with the sign/identity axioms listed in trusted_base; for a negative base numpy returns nan or a signed value - the engine lets rpow take any real value there, so a proof never relies on it',
]
TRUSTED = ['scipy.special.gamma / beta are the Gamma and Beta functions, positive on positive arguments',
           'dict iteration follows insertion order']
EXPLANATION = ('Each *_prior method is verified against the log-density of the statement inside the support and against '
               '"rejected (non-finite)" outside it; check_prior is verified per family (with and without the positive flag) '
               'as a loop-body contract on top of an arbitrary accumulated value, which gives the sum over any number of '
               'parameters by induction.')
LEVEL_TEXT = ('Deductive proof for all parameter values and all prior parameters: function-against-spec postconditions on the '
              'seven prior methods and on check_prior (per family x positive flag, arbitrary accumulated value).')
LEVEL_NOTE = ('Trusted: reals for floats; exp/ln/sqrt/pow/Gamma/Beta as uninterpreted functions with the listed axioms; the induction '
              'from the loop-body contract to n parameters is stated, not mechanised.')

import json, os
_HERE = os.path.dirname(os.path.dirname(os.path.abspath(__file__)))
_PARAMS = {'uniform': ['a', 'b'], 'gaussian': ['mu', 'sigma'], 'exponential': ['lam'], 'gamma': ['alpha', 'beta'],
           'beta': ['alpha', 'beta'], 'log-uniform': ['a', 'b'], 'log-gaussian': ['mu', 'sigma']}


def _code(spec):
    src = open(os.path.join(_HERE, 'native', 'C16_sweep.py')).read()
    return src.replace("json.loads(sys.argv[1]) if len(sys.argv) > 1 else {}", repr(spec))


def _replay(model, rec, seed):
    fuc = rec['fuc']
    fam = None
    via = 'check_prior' in fuc
    if via:
        fam = fuc.split('@')[1].replace('+positive', '').replace('pair:', '')
    else:
        fam = fuc.split('.')[-1].replace('_prior', '').replace('_', '-')
    if fam not in _PARAMS:
        return None
    try:
        ps = [float(model[p]) for p in _PARAMS[fam]]
        v = float(model['v' if via else 'param_value'])
    except (KeyError, TypeError):
        return _code(dict(family=fam, params=[1.0] * len(_PARAMS[fam]), v=0.5, seed=seed))
    return _code(dict(family=fam, params=ps, v=v, positive='+positive' in fuc, via_check=via, seed=seed))


class _Hooks(dict):
    def get(self, k, d=None):
        return _replay
REPLAY = _Hooks()


def _sweep(seed, rec):
    return _code(dict(seed=seed, rounds=60))


NATIVE_SWEEPS = {'*': _sweep}
