"""C08 - Results depend only on the model's current definition and the seed."""
import os
CONTRACT_MODULES = ['random_generator', 'random_', 'lineage_model', 'types_model_history', 'simulator_ssa', 'simulator_delay', 'simulator_volume', 'simulator_deterministic', 'simulator_queue', 'simulator_interfaces', 'simulator_entry']
SPEC_MODULES = ['functions', 'dep_stubs']
LEVEL = 'proof'
ASSUMPTIONS = [
    'whole-history claim: no history is enumerated; it follows by induction over operations from (a) every mutator marks the model uninitialised or writes the value arrays in place, (b) initialisation rebuilds all derived state from the definition whatever was there, (c) every simulator output is a function of its declared inputs (posts of C01-C07, C09-C11) and leaves the initial condition untouched, (d) seeding determines the whole generator state. The induction is an argument over these discharged contracts',
    'histories reuse a pre-built interface only while the model definition is unchanged (an interface built before an edit is documented as invalid; check_interface only tests model.initialized and would accept it again after re-initialisation - outside the claim)',
    'seed 0 means time-of-day seeding and is excluded; machine wrap-around of the 64-bit recurrence is not modelled (congruence only)',
    'odeint deterministic',
    'mutator contracts are shape-class proofs on one base model; lineage models: registration of rules, events and splitters exactly once and in order across repeated initialisations (one feature-complete shape, with and without an event added in between)',
    'every sampler (normal, gamma, exponential, discrete, binomial) is proved to be a function of the random stream from the current position only; module-level variables that a function reassigns are arbitrary at function entry',
]
TRUSTED = []
EXPLANATION = ('mutator posts (uninitialised flag / in-place writes with array identity), re-initialisation idempotent and equal to the definition, interface shares the model arrays and '
               'stays attached across deterministic simulation, simulators leave the initial condition untouched (frame posts), mt_seed/seed_random: generator state after seeding is a '
               'function of the seed alone, genrand64 memory-safe.')
LEVEL_TEXT = 'Deductive proof of the representation invariant, frames and seeding determinism that make outputs a function of (definition, seed); trajectory-level conclusion by stated induction.'
LEVEL_NOTE = 'See assumptions.'
_HERE = os.path.dirname(os.path.dirname(os.path.abspath(__file__)))


def _sweep(seed, rec):
    src = open(os.path.join(_HERE, 'native', 'C08_sweep.py')).read()
    return src.replace("json.loads(sys.argv[1]) if len(sys.argv) > 1 else {}", repr(dict(seed=seed)))


NATIVE_SWEEPS = {'*': _sweep}
