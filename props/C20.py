"""C20 - The delay queue delivers each entry once, in order, at the nearest grid time."""
CONTRACT_MODULES = ['simulator_queue', 'random_']
SPEC_MODULES = ['lemmas_queue']
LEVEL = 'proof'
ASSUMPTIONS = [
    'slot arithmetic is done over the reals (the statement restricts grid steps to exactly representable values)',
    'binomial partition: the stream U is arbitrary in [0,1]; "Binomial(n,p)" for the number of k<n with U_k<p is cited probability theory',
]
TRUSTED = ['numpy: ndarray.copy() and np.zeros() return fresh arrays; np.empty(2, dtype=object) is a 2-slot object array']
EXPLANATION = ('Representation invariant wf_queue and abstract view pend(q,r,k)=queue[r,(start+k) mod ncols]; one contract per '
               'operation over the whole view, verified against the body of each ArrayDelayQueue method for all queue '
               'sizes and contents; history-level accounting lemmas over the abstract view by induction (spec/lemmas_queue).')


def _sweep(seed, rec):
    import os
    src = open(os.path.join(os.path.dirname(os.path.dirname(os.path.abspath(__file__))), 'native', 'C20_sweep.py')).read()
    return src.replace("int(sys.argv[1]) if len(sys.argv) > 1 else 0", str(int(seed)))


NATIVE_SWEEPS = {'*': _sweep}

LEVEL_TEXT = ('Deductive proof, for queues of any size and content and operation sequences of any length: every ArrayDelayQueue '
              'operation is verified against a contract over the whole abstract view (pending count per reaction and relative '
              'slot); delivery-once, ordering, nearest-slot and split-conservation follow as SMT-checked lemmas over those contracts.')
LEVEL_NOTE = ('Trusted: the VC generator/encoding (reals for doubles), numpy copy()/zeros() freshness, the random stream being an '
              'arbitrary sequence in [0,1] (Binomial law of the count is cited). uniform_rv itself is an assumed contract here.')
