"""C09 - Rules hold on every reported row and fire on their schedule."""
CONTRACT_MODULES = ['types_rules', 'types_terms', 'simulator_interfaces', 'simulator_ssa', 'simulator_delay', 'simulator_volume', 'simulator_delayvolume', 'simulator_queue', 'random_', 'lineage_model']
SPEC_MODULES = ['functions']
LEVEL = 'proof'
ASSUMPTIONS = [
    'exact float equality flag == time is taken as real equality (scheduled times are exact grid elements by the statement)',
    'rule objects are immutable after initialisation (definitional clauses execS/execP)',
    '"a dt rule is applied exactly once per elapsed step" follows from the step clauses (rules first; rule_step = 1 exactly after a non-firing step, i.e. on arrival at a grid time) by induction over iterations (argument)',
    'lineage single-cell simulator loop (SimulateSingleCell) and the deterministic right-hand side are not under contract yet: for lineage models only the registration of rules is proved',
]
TRUSTED = []
EXPLANATION = ('Rule classes against their meaning (additive sum, assignment to species/parameter, Euler ode step), schedule predicate of execute_rule, frequency flags, '
               'rules applied in declaration order with the interface dt (fold invariant), rules-first and rule-step clauses of the SSA / delay / volume step relations, '
               'each rule registered exactly once for plain and lineage models.')
LEVEL_TEXT = 'Deductive proof for all rule sets / states / schedules on the plain stochastic simulators; lineage simulator loop not covered.'
LEVEL_NOTE = 'See assumptions.'
