"""C09 - Rules hold on every reported row and fire on their schedule."""
CONTRACT_MODULES = ['types_rules', 'types_terms', 'simulator_interfaces', 'simulator_ssa', 'simulator_delay', 'simulator_volume', 'simulator_queue', 'random_', 'lineage_model']
SPEC_MODULES = ['functions']
LEVEL = 'proof'
NOT_APPLICABLE = 'under construction'
ASSUMPTIONS = []
TRUSTED = []
EXPLANATION = ''
LEVEL_TEXT = ''
LEVEL_NOTE = ''
