"""C09 - Rules hold on every reported row and fire on their schedule."""
CONTRACT_MODULES = ['types_rules', 'types_terms', 'simulator_interfaces', 'simulator_ssa', 'simulator_delay', 'simulator_volume', 'simulator_delayvolume', 'simulator_queue', 'random_', 'lineage_model', 'lineage_sim']
PRELOAD = ['lineage']
SPEC_MODULES = ['functions']
LEVEL = 'proof'
ASSUMPTIONS = [
    'exact float equality flag == time is taken as real equality (scheduled times are exact grid elements by the statement)',
    'rule objects are immutable after initialisation (definitional clauses execS/execP)',
    '"a dt rule is applied exactly once per elapsed step" follows from the step clauses (rules first; rule_step = 1 exactly after a non-firing step, i.e. on arrival at a grid time) by induction over iterations (argument)',
    'lineage single-cell loop: rules first in declaration order with the grid step, rule-step flag, rows get the rule-updated state (contracts/lineage_sim.py); the interface virtual methods of the lineage interface are abstract contracts',
    'the delta clock and the time grid are compared in exact arithmetic; floating-point drift between an accumulated delta clock and np.arange time points (e.g. step 0.1) can shift a dt-rule application across a row boundary - outside this family',
]
TRUSTED = []
EXPLANATION = ('Rule classes against their meaning (additive sum, assignment to species/parameter, Euler ode step), schedule predicate of execute_rule, frequency flags, '
               'rules applied in declaration order with the interface dt (fold invariant), rules-first and rule-step clauses of the SSA / delay / volume / delay+volume / lineage single-cell step relations (a dt rule step exactly when the delta clock fires), '
               'each rule registered exactly once for plain and lineage models.')
LEVEL_TEXT = 'Deductive proof for all rule sets / states / schedules on the stochastic simulators including the lineage single-cell loop.'
LEVEL_NOTE = 'See assumptions.'

import os
_HERE = os.path.dirname(os.path.dirname(os.path.abspath(__file__)))


def _sweep(seed, rec):
    spec = dict(seed=seed)
    if rec is not None:
        spec['part'] = 'lineage' if rec['fuc'].startswith('lineage::') else 'plain'
    src = open(os.path.join(_HERE, 'native', 'C09_sweep.py')).read()
    return src.replace("json.loads(sys.argv[1]) if len(sys.argv) > 1 else {}", repr(spec))


NATIVE_SWEEPS = {'*': _sweep}
