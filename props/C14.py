"""C14 - Exported kinetic laws equal the model's own rate laws."""
import os
CONTRACT_MODULES = ['sbml_export', 'types_model_shapes', 'types_propensities', 'types_terms']
SPEC_MODULES = ['functions', 'libsbml_stub', 'sympy_stub', 'sbml_formula']
LEVEL = 'proof'
ASSUMPTIONS = [
    'libsbml is replaced by the record model of spec/libsbml_stub.py (elements, attributes, child lists, annotation text) and its infix formula parser by spec/sbml_formula.py (SBML L3 infix grammar); both are assumed contracts on the dependency, watched by the native sweep which reads the really written file back through libsbml',
    'sympy.sympify is replaced by a parser of Python-syntax arithmetic that builds the n-ary Add/Mul/Pow trees sympy builds (assumed meaning-preserving)',
    'shape classes: one concrete one-reaction (or two-reaction) model per variant - all 24 ordered reactant patterns of order 0..4, the four Hill types with the regulator inside / outside the reaction, named and numeric constants, two general rate strings; inside a shape all states and parameter values are symbolic',
    'stochastic export: states are non-negative integers (as in the statement); deterministic export: non-negative reals',
]
TRUSTED = ['libsbml (record model)', 'sympy.sympify (parser model)']
EXPLANATION = ('Model.generate_sbml_model with create_sbml_model / add_parameter / add_species / add_reaction inlined is executed symbolically on each model shape; the kinetic law '
               'text it hands to libsbml is parsed with an independent SBML infix semantics over the exported identifiers and proved equal to the value of the real propensity '
               'method of the same reaction at an arbitrary state (deterministic or stochastic form by export mode); identifiers must be defined in the document; stoichiometry '
               'attributes must equal reaction multiplicities.')
LEVEL_TEXT = 'Deductive proof per model shape (all states and parameter values), deterministic and stochastic export.'
LEVEL_NOTE = 'bounded in model shape; Hill-type kinetic laws are a KNOWN FINDING (frozen XML tests pin the text).'
_HERE = os.path.dirname(os.path.dirname(os.path.abspath(__file__)))


def _sweep(seed, rec):
    spec = dict(seed=seed)
    if rec is not None and '@' in rec['fuc']:
        spec['variant'] = rec['fuc'].split('@', 1)[1]
    src = open(os.path.join(_HERE, 'native', 'C14_sweep.py')).read()
    return src.replace("json.loads(sys.argv[1]) if len(sys.argv) > 1 else {}", repr(spec))


NATIVE_SWEEPS = {'*': _sweep}
