#!/bin/bash
# usage: tools/try_seed.sh <seed-dir> <prop> [prop...]  -- applies <seed-dir>/patch.diff to a scratch copy of /repo and runs the checks on it
d=$1; shift
S=/tmp/seedrepo-$$
rm -rf $S && mkdir -p $S && rsync -a --exclude .git --exclude "*.so" --exclude "*.cpp" --exclude examples --exclude "inference examples" --exclude "lineage examples" --exclude build /repo/ $S/
(cd $S && patch -p1 -s < $d/patch.diff) || { echo "patch failed"; exit 9; }
for p in "$@"; do (cd /verif && BSVC_REPO=$S ./check $p > /tmp/seedout.$$ 2>&1; rc=$?; cut -c1-260 /tmp/seedout.$$ | grep -v "^KNOWN-FINDING" | head -6; echo "exit=$rc"); done
rm -rf $S
