#!/bin/bash
# usage: tools/mutcheck.sh <relative file> <sed expression> <prop> [--only X]   -- applies a sed edit to a scratch copy of /repo and runs the check on it
f=$1; e=$2; shift; shift
S=/tmp/mutrepo-$$
rm -rf $S && mkdir -p $S && rsync -a --exclude .git --exclude "*.so" --exclude "*.cpp" --exclude examples --exclude "inference examples" --exclude "lineage examples" --exclude build /repo/ $S/
sed -i "$e" $S/$f
diff <(cat /repo/$f) $S/$f | head -8
(cd /verif && BSVC_REPO=$S BSVC_NO_NATIVE=1 ./check "$@" 2>&1 | cut -c1-300 | tail -6)
rm -rf $S
