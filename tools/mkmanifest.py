#!/venv/bin/python
"""Regenerates MANIFEST.json from props/Cxx.py (claimed properties) and NOT_APPLICABLE below."""
import importlib, json, os, sys
ROOT = os.path.dirname(os.path.dirname(os.path.abspath(__file__)))
sys.path.insert(0, ROOT)
ALL = ['C%02d' % i for i in range(1, 21)]
NOT_BUILT = 'contracts for this property are not built yet (engine exists; see DESIGN.md section 5 for the plan)'
checks, na = [], []
for pid in ALL:
    try:
        pm = importlib.import_module('props.' + pid)
    except ImportError:
        na.append(dict(property_id=pid, reason=NOT_BUILT))
        continue
    if getattr(pm, 'NOT_APPLICABLE', None):
        na.append(dict(property_id=pid, reason=pm.NOT_APPLICABLE))
        continue
    checks.append(dict(
        property_id=pid,
        quick_cmd='./check %s --tier quick' % pid,
        thorough_cmd='./check %s --tier thorough' % pid,
        evidence_file='evidence/%s.json' % pid,
        replay_cmd_template='./check %s --replay {path}' % pid,
        engine='bsvc',
        level_claimed=dict(category=getattr(pm, 'LEVEL', 'proof'), text=pm.LEVEL_TEXT, design_ref=getattr(pm, 'DESIGN_REF', 'DESIGN.md section 5 (%s)' % pid)),
        level_note=pm.LEVEL_NOTE,
        technique=getattr(pm, 'TECHNIQUE', 'sidecar contracts on the real functions; VCs generated from the current source (Cython parser / ast) by symbolic execution; SMT discharge (z3 5.1, z3 4.8, cvc5); native replay of counterexamples on a scratch build')))
hooks = json.load(open(os.path.join(ROOT, 'hooks.json'))) if os.path.exists(os.path.join(ROOT, 'hooks.json')) else []
m = dict(
    version=1,
    setup_cmd='./setup.sh',
    hooks=dict(guard='BIOSCRAPE_VERIF', enable='BIOSCRAPE_VERIF=1 in the environment of the scratch build used for native replay',
               baseline_off_cmd='cd /repo && env -u BIOSCRAPE_VERIF /venv/bin/python setup.py build_ext --inplace -j 8 >/dev/null 2>&1; cd /repo && env -u BIOSCRAPE_VERIF /venv/bin/python -m pytest -ra -q -p no:cacheprovider --timeout=900 --continue-on-collection-errors',
               source_commits=hooks, add_only=True),
    engines=[dict(name='bsvc', path='bsvc/', serves_properties=[c['property_id'] for c in checks],
                  kind_free_text='verification-condition generator over the real Cython/Python source (Cython compiler front end + ast), sidecar contracts, SMT back ends, native replay')],
    checks=checks,
    notes='exit codes of ./check: 0 held / 1 VIOLATION / 2 undecided / 3 checker error. See DESIGN.md.',
    not_applicable=na)
json.dump(m, open(os.path.join(ROOT, 'MANIFEST.json'), 'w'), indent=1)
print('claimed', [c['property_id'] for c in checks])
