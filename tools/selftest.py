#!/venv/bin/python
"""Engine self-test: applies each source mutant of mutants/manifest.json (and each kept seeded change of seeded/*/patch.diff)
to a scratch copy of /repo's sources and requires the registered check to refute an obligation (expect=refuted) or to keep every
obligation discharged (expect=held: semantics-preserving edits, the false-alarm guard).  No build is needed: VCs come from text.

usage: tools/selftest.py [--property Cxx] [--no-seeds] [--jobs N]        exit 0 all as expected / 3 some mismatch"""
import argparse, json, os, shutil, subprocess, sys, tempfile, concurrent.futures as cf

ROOT = os.path.dirname(os.path.dirname(os.path.abspath(__file__)))
SEED_PROPS = {'C05-a': ['C01'], 'C10-a': ['C20'], 'C10-b': ['C20'], 'C11-a': ['C01'], 'C04-a': ['C03'], 'C07-a': ['C07']}


def scratch_copy():
    d = tempfile.mkdtemp(prefix='bsvc-mut-', dir=os.environ.get('TMPDIR', '/tmp'))
    for sub in ('bioscrape', 'lineage'):
        os.makedirs(os.path.join(d, sub))
        for fn in os.listdir(os.path.join('/repo', sub)):
            if fn.endswith(('.pyx', '.pxd', '.py')):
                shutil.copy(os.path.join('/repo', sub, fn), os.path.join(d, sub, fn))
    return d


def run_check(d, prop, only=None):
    env = dict(os.environ, BSVC_REPO=d, BSVC_NO_NATIVE='1')
    cmd = [os.path.join(ROOT, 'check'), prop, '--tier', 'quick'] + (['--only', only] if only else [])
    p = subprocess.run(cmd, cwd=ROOT, env=env, stdout=subprocess.PIPE, stderr=subprocess.STDOUT)
    out = p.stdout.decode(errors='replace')
    viol = [l for l in out.split('\n') if l.startswith('VIOLATION')]
    return p.returncode, viol, out


def one(entry):
    d = scratch_copy()
    try:
        if 'patch' in entry:
            r = subprocess.run(['patch', '-p1', '-s', '-i', entry['patch']], cwd=d, stdout=subprocess.PIPE, stderr=subprocess.STDOUT)
            if r.returncode != 0:
                return dict(id=entry['id'], ok=None, got='patch does not apply to the current tree')
        else:
            fn = os.path.join(d, entry['file'])
            s = open(fn).read()
            if 'occurrence' in entry:
                parts = s.split(entry['find'])
                k = entry['occurrence']
                if len(parts) - 1 <= k:
                    return dict(id=entry['id'], ok=None, got='find-text occurs %d times in the current tree' % (len(parts) - 1))
                s2 = entry['find'].join(parts[:k + 1]) + entry['replace'] + entry['find'].join(parts[k + 1:])
                open(fn, 'w').write(s2)
            else:
                if s.count(entry['find']) != 1:
                    return dict(id=entry['id'], ok=None, got='find-text occurs %d times in the current tree' % s.count(entry['find']))
                open(fn, 'w').write(s.replace(entry['find'], entry['replace']))
        rc, viol, out = run_check(d, entry['property'], entry.get('only'))
        got = 'refuted' if rc == 1 and viol else ('held' if rc == 0 else 'exit %d' % rc)
        first = viol[0].split('obligation=')[-1][:160] if viol else ''
        return dict(id=entry['id'], property=entry['property'], expect=entry['expect'], got=got, ok=(got == entry['expect']), first=first, note=entry.get('note', ''))
    finally:
        shutil.rmtree(d, ignore_errors=True)


def entries(prop=None, seeds=True):
    out = [e for e in json.load(open(os.path.join(ROOT, 'mutants', 'manifest.json')))]
    if seeds:
        sd = os.path.join(ROOT, 'seeded')
        for name in sorted(os.listdir(sd)):
            meta = os.path.join(sd, name, 'meta.json')
            if not os.path.exists(meta) or 'obsolete' in open(meta).read()[:400].lower() and name == 'C15-a':
                continue
            exp = json.load(open(meta)).get('selftest_expect', 'refuted')      # 'exit 2': the change is outside the subset (undecided), recorded as such
            for p in SEED_PROPS.get(name, [name.split('-')[0]]):
                out.append(dict(id='seed:' + name, property=p, patch=os.path.join(sd, name, 'patch.diff'), expect=exp, note='independently written seeded change'))
    return [e for e in out if prop is None or e['property'] == prop]


def main():
    ap = argparse.ArgumentParser()
    ap.add_argument('--property')
    ap.add_argument('--no-seeds', action='store_true')
    ap.add_argument('--jobs', type=int, default=3)
    ap.add_argument('--match', help='regular expression on entry ids; the results are merged into the existing out/selftest.json')
    a = ap.parse_args()
    es = entries(a.property, not a.no_seeds)
    if a.match:
        import re
        es = [e for e in es if re.search(a.match, e['id'])]
    res = []
    with cf.ThreadPoolExecutor(max_workers=a.jobs) as pool:
        for r in pool.map(one, es):
            res.append(r)
            print('%-12s %-4s expect=%-8s got=%-10s %s %s' % (r['id'], r.get('property', ''), r.get('expect', ''), r['got'], 'ok' if r['ok'] else ('SKIP' if r['ok'] is None else 'MISMATCH'), r.get('first', '')), flush=True)
    bad = [r for r in res if r['ok'] is False]
    print('selftest: %d as expected, %d mismatches, %d skipped' % (sum(1 for r in res if r['ok']), len(bad), sum(1 for r in res if r['ok'] is None)))
    fn = os.path.join(ROOT, 'out', 'selftest.json')
    if a.match and os.path.exists(fn):
        old = json.load(open(fn))
        key = lambda r: (r['id'], r.get('property'))
        new = {key(r): r for r in res}
        res = [new.pop(key(r), r) for r in old] + list(new.values())
        print('merged into %d recorded entries: %d as expected, %d mismatches, %d skipped' % (len(res), sum(1 for r in res if r['ok']), sum(1 for r in res if r['ok'] is False), sum(1 for r in res if r['ok'] is None)))
    json.dump(res, open(fn, 'w'), indent=1)
    return 3 if bad else 0


if __name__ == '__main__':
    sys.exit(main())
