#!/bin/bash
# usage: tools/runall.sh [--update-lock]   -- runs every claimed quick check against /repo, one after the other
cd /verif
for p in $(python3 -c "import json; print(' '.join(c['property_id'] for c in json.load(open('MANIFEST.json'))['checks']))"); do
  ./check $p --tier quick "$@" 2>&1 | grep -v "^KNOWN-FINDING" | tail -1 | cut -c1-160
done
