#!/venv/bin/python
"""Rewrites the seeded-changes table of DESIGN.md (between the SEEDTABLE markers) from out/selftest.json and seeded/*/meta.json."""
import json, os, re
ROOT = os.path.dirname(os.path.dirname(os.path.abspath(__file__)))
res = json.load(open(os.path.join(ROOT, 'out', 'selftest.json')))
rows = []
for r in res:
    if not r['id'].startswith('seed:'):
        continue
    sid = r['id'][5:]
    m = json.load(open(os.path.join(ROOT, 'seeded', sid, 'meta.json')))
    summ = (m.get('summary') or '').split('. ')[0][:170].replace('|', '/').replace('\n', ' ')
    files = ', '.join(os.path.basename(f) for f in m.get('files', []))
    if r['ok'] is None:
        rows.append('| %s | %s | %s | obsolete: the patch no longer applies to the repaired tree | - |' % (sid, files, summ))
        continue
    ob = r.get('first', '').replace(' no-failing-input-found', '').replace('|', '¦')
    native = 'yes' if 'reproduced' in (m.get('checks') or '') or 'native' in (m.get('checks') or '').lower() else 'see meta.json'
    if r.get('got') != 'refuted':
        rows.append('| %s | %s | %s | `./check %s`: NOT refuted - %s (UNDECIDED: the changed code is outside the subset, see the text above) | %s |' % (sid, files, summ, r['property'], r.get('got'), m.get('native', native)))
        continue
    rows.append('| %s | %s | %s | `./check %s`: `%s` | %s |' % (sid, files, summ, r['property'], ob[:150], m.get('native', native)))
table = ('| seed | file | change (first sentence of the author\'s summary) | refuted by (first obligation, obligations-only run) | native replay |\n|---|---|---|---|---|\n'
         + '\n'.join(rows))
p = os.path.join(ROOT, 'DESIGN.md')
s = open(p).read()
if '<!-- SEEDTABLE-BEGIN -->' in s:
    s = re.sub(r'<!-- SEEDTABLE-BEGIN -->.*?<!-- SEEDTABLE-END -->', lambda _: '<!-- SEEDTABLE-BEGIN -->\n' + table + '\n<!-- SEEDTABLE-END -->', s, flags=re.S)
else:
    raise SystemExit('markers not found')
open(p, 'w').write(s)
print('%d seeds in the table' % len(rows))
