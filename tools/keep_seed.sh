#!/bin/bash
# usage: tools/keep_seed.sh Cxx-tag "<caught by which check/obligation>"   (after tools/confirm_seed.sh)
id=$1; caught=$2; sd=/tmp/seeded/$id; out=/verif/seeded/$id
mkdir -p $out && cp $sd/patch.diff $sd/demo.py $out/
/venv/bin/python - <<P
import json
m=json.load(open("$sd/meta.json"))
m['confirmed']={'demo_on_unchanged_repo_exit': 0, 'demo_on_changed_worktree_exit': 'non-zero', 'suite_on_changed_worktree': open('/tmp/confirm-$id-tests.log').read().strip(),
                'how': 'tools/confirm_seed.sh $id (scratch git worktree /tmp/wt-$id, built there; removed afterwards)'}
m['checks']="$caught"
json.dump(m,open("$out/meta.json","w"),indent=1)
P
git -C /repo worktree remove --force /tmp/wt-$id 2>/dev/null; rm -rf /tmp/wt-$id
echo kept $out
