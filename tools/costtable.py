#!/venv/bin/python
"""Rewrites the cost table of DESIGN.md (between <!-- COSTTABLE-BEGIN --> / <!-- COSTTABLE-END -->) from the committed evidence files
(quick numbers) and, if given, a log of thorough runs (lines 'HELD property=Cxx ... wall=NNNs').  usage: tools/costtable.py [thorough.log]"""
import json, os, re, sys
ROOT = os.path.dirname(os.path.dirname(os.path.abspath(__file__)))
th = {}
if len(sys.argv) > 1 and os.path.exists(sys.argv[1]):
    for l in open(sys.argv[1]):
        m = re.search(r'HELD property=(C\d\d) obligations=(\d+) .*wall=([\d.]+)s', l)
        if m:
            th[m.group(1)] = (int(m.group(2)), float(m.group(3)))
rows = ['| property | functions under contract (incl. shape variants) | obligations (quick) | quick wall | obligations (thorough) | thorough wall |', '|---|---|---|---|---|---|']
for i in range(1, 21):
    pid = 'C%02d' % i
    d = json.load(open(os.path.join(ROOT, 'evidence', pid + '.json')))
    c = d['coverage']
    t = th.get(pid)
    rows.append('| %s | %d | %d | %.0f s | %s | %s |' % (pid, len(c['functions_under_contract']), c['obligations'], d['wall_s'], t[0] if t else '-', ('%.0f s' % t[1]) if t else '-'))
p = os.path.join(ROOT, 'DESIGN.md')
s = open(p).read()
a, b = s.index('<!-- COSTTABLE-BEGIN -->'), s.index('<!-- COSTTABLE-END -->')
s = s[:a] + '<!-- COSTTABLE-BEGIN -->\n' + '\n'.join(rows) + '\n' + s[b:]
open(p, 'w').write(s)
print('\n'.join(rows))
