#!/bin/bash
# usage: tools/confirm_seed.sh Cxx-tag   (confirms an independently written seeded change in its worktree /tmp/wt-Cxx-tag)
id=$1; wt=/tmp/wt-$id; sd=/tmp/seeded/$id
set -o pipefail
echo "== demo on unchanged /repo"; (cd /tmp && PYTHONPATH=/repo timeout 900 /venv/bin/python $sd/demo.py > /tmp/confirm-$id-base.log 2>&1); b=$?; echo "exit=$b"
echo "== demo on changed worktree"; (cd /tmp && PYTHONPATH=$wt timeout 900 /venv/bin/python $sd/demo.py > /tmp/confirm-$id-mut.log 2>&1); m=$?; echo "exit=$m"; tail -3 /tmp/confirm-$id-mut.log
echo "== test suite on changed worktree"; (cd $wt && PYTHONPATH=$wt /venv/bin/python -m pytest -q -p no:cacheprovider --timeout=900 tests 2>&1 | tail -1) | tee /tmp/confirm-$id-tests.log
echo "base=$b mut=$m"
echo "== worktree diff equals patch.diff?"; (cd $wt && git diff) | diff -q - $sd/patch.diff && echo same || echo "DIFFERENT (possible cross-contamination)"
