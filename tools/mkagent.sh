#!/bin/bash
# usage: mkagent.sh Cxx tag  -> creates worktree and prints the prompt
pid=$1; tag=$2; wt=/tmp/wt-$pid-$tag
git -C /repo worktree add -f --detach $wt HEAD >/dev/null 2>&1
mkdir -p /tmp/seeded/$pid-$tag
/venv/bin/python - <<P
import json
pid="$pid"; wt="$wt"; out="/tmp/seeded/$pid-$tag"
for l in open('/verif/properties.jsonl'):
    p=json.loads(l)
    if p['id']==pid: break
print(f'''You are helping to evaluate a verification effort for the open-source project biocircuits/bioscrape (a Cython-based chemical reaction network simulator with Python-side SBML import/export, inference set-up and sensitivity analysis). Your job: write ONE realistic, subtle code change (a "seeded defect") to bioscrape that BREAKS the semantic property below, while the code still compiles and the project's existing test suite still passes.

PROPERTY {p['id']}: {p['title']}
Statement: {p['statement']}
Quantifier: {p['quantifier']['text']}
Code anchors (where the relevant behaviour lives): {', '.join(p['anchors']['files'])}

Your private scratch git worktree of the repository is: {wt}
Work ONLY inside {wt} and {out}. Do NOT read or touch /verif, /repo, or anything under /root/.vp or other /tmp/wt-* or /tmp/seeded/* directories - your change must be independent of any existing checker.

How to build and test in the worktree (offline sandbox, no network):
  cd {wt} && /venv/bin/python setup.py build_ext --inplace -j 4 > /tmp/build-{pid}-$tag.log 2>&1     (about 1-2 minutes; needed after editing any .pyx/.pxd)
  cd {wt} && PYTHONPATH={wt} /venv/bin/python -m pytest -q -p no:cacheprovider --timeout=900 tests  (54 tests, all must still pass with your change; PYTHONPATH makes python import the worktree copy instead of the installed one - verify with: PYTHONPATH={wt} /venv/bin/python -c "import bioscrape.simulator as s; print(s.__file__)")
Pure-Python files (bioscrape/sbmlutil.py, pid_interfaces.py, inference_setup.py, analysis.py) need no rebuild.

Requirements for the change:
 - It must be the kind of mistake a developer could plausibly make (an off-by-one, a wrong variable, a dropped update, a stale cache, a mis-ordered step, a condition slightly too weak/strong, two sites that each look fine alone ...), small (a few lines), and must still compile.
 - It must need something SPECIFIC to manifest: an unusual input, a particular multi-step sequence of operations, a corner of the option space, a particular parameter regime - NOT something ordinary use or the existing tests would expose at once. All 54 existing tests must still pass.
 - It must genuinely violate the property as stated (not merely change unspecified behaviour).
Deliverables, all inside {out}/ :
 1. patch.diff  - produced with: cd {wt} && git diff > {out}/patch.diff   (only source changes; no build outputs)
 2. demo.py     - a small standalone program that, run as  PYTHONPATH=<tree> /venv/bin/python demo.py , exits 0 on the unchanged code and exits non-zero (printing what went wrong) on the changed code. It must be deterministic (seed any randomness).
 3. meta.json   - {{"property": "{pid}", "summary": "...what the change does...", "needs": "...what specific input/sequence/regime is needed to see it...", "files": [...], "ran": ["...commands you ran and their outcome (build ok, 54 passed, demo exit codes with and without the change)..."]}}
Verify yourself: demo.py passes on the unchanged tree (run it BEFORE editing, or make a second copy of the tree; do NOT use git stash - the stash is shared between worktrees of this repository and other people work in sibling worktrees), fails on the changed tree, and the full test suite passes on the changed tree. When done, leave the worktree with your change applied and built, and report briefly what you did. If a first idea turns out to be caught by the existing tests, pick another.''')
P
