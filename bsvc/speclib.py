"""Spec-level environment: functions usable inside contract clauses.

spec(name) registers a python callable fn(ex, *args) -> value;  define(name, params, expr) registers a function whose
body is a contract-language expression (evaluated by the same evaluator, parameters bound positionally)."""
from . import terms as tm
from .terms import T, REAL, INT, BOOL
from .values import *      # noqa
from . import contracts as C

SPEC_ENV = {}


def spec(name):
    def deco(fn):
        SPEC_ENV[name] = SpecFn(name, fn)
        return fn
    return deco


def define(name, params, expr):
    ir = C.parse_expr(expr)

    def fn(ex, *args):
        from .symexec import Frame
        env = dict(zip(params, args))
        fr = Frame(ex.frame.func, env, None)
        fr.local_names = set(env)
        ex.frames.append(fr)
        try:
            return ex.eval(ir)
        finally:
            ex.frames.pop()
    SPEC_ENV[name] = SpecFn(name, fn)
    return fn


@spec('real')
def _real(ex, x):
    return tm.to_real(to_term(x))


@spec('select')
def _select(ex, a, *idx):
    t = a.term if isinstance(a, Arr) else a
    for i in idx:
        t = tm.select(t, to_term(i))
    return t


@spec('ufun')
def _ufun(ex, name, *args):
    """uninterpreted real-valued function of the arguments (objects contribute their ref)"""
    ts = []
    for a in args:
        if isinstance(a, Obj):
            ts.append(a.ref)
        elif isinstance(a, Arr):
            ts.append(a.term)
        else:
            ts.append(to_term(a))
    return tm.app(name, tuple(ts), REAL)


@spec('kappa')
def _kappa(ex):
    return ex.kappa


@spec('U')
def _U(ex, k):
    return tm.app('U', (to_term(k),), REAL)


@spec('trunc')
def _trunc(ex, x):
    return tm.trunc(to_term(x))


@spec('floor')
def _floor(ex, x):
    return tm.to_int_floor(to_term(x))


@spec('same_array')
def _same_array(ex, a, b):
    """reference equality of two array values"""
    from . import arrays
    return isinstance(a, Arr) and isinstance(b, Arr) and arrays.root_of(a).oid == arrays.root_of(b).oid


@spec('arr_eq')
def _arr_eq(ex, a, b):
    ta = a.term if isinstance(a, Arr) else a
    tb = b.term if isinstance(b, Arr) else b
    return tm.eq(ta, tb)


@spec('is_none')
def _is_none(ex, v):
    return v is None


@spec('ln')
def _ln(ex, x):
    return tm.app('ln', (tm.to_real(to_term(x)),), REAL)


@spec('exp_')
def _exp(ex, x):
    return tm.app('exp', (tm.to_real(to_term(x)),), REAL)


@spec('rpow')
def _rpow(ex, x, y):
    return tm.app('rpow', (tm.to_real(to_term(x)), tm.to_real(to_term(y))), REAL)


@spec('sqrt_')
def _sqrt(ex, x):
    return tm.app('sqrt', (tm.to_real(to_term(x)),), REAL)


@spec('kappa0')
def _kappa0(ex):
    return ex.kappa_entry


@spec('sum_')
def _sum(ex, a, n):
    t = a.term if isinstance(a, Arr) else a
    return tm.app('sum', (t, to_term(n)), REAL)


def draw_uniform(ex):
    """one element of the random stream; advances the ghost position"""
    ex.note_write(('K',), 'kappa')
    u = tm.app('U', (ex.kappa,), REAL)
    ex.kappa = tm.add(ex.kappa, tm.mk_int(1))
    return u


@spec('ifun')
def _ifun(ex, name, *args):
    """uninterpreted integer-valued function"""
    ts = []
    for a in args:
        if isinstance(a, Obj):
            ts.append(a.ref)
        elif isinstance(a, Arr):
            ts.append(a.term)
        else:
            ts.append(to_term(a))
    return tm.app(name, tuple(ts), INT)


@spec('afun')
def _afun(ex, name, *args):
    """uninterpreted function returning a real vector (Array Int Real)"""
    ts = []
    for a in args:
        if isinstance(a, Obj):
            ts.append(a.ref)
        elif isinstance(a, Arr):
            ts.append(a.term)
        else:
            ts.append(to_term(a))
    return tm.app(name, tuple(ts), tm.ArraySort(INT, REAL))


@spec('arr')
def _arr(ex, a):
    """the SMT array term of an array value (whole-array comparisons)"""
    return a.term if isinstance(a, Arr) else a


@spec('ghost')
def _ghost(ex, name):
    """ghost state component (e.g. 'pvals': the interface's current parameter vector)"""
    g = ex.ghost.setdefault('g', {})
    if name not in g:
        g[name] = tm.var('ghost_%s0' % name, tm.ArraySort(INT, REAL))
    return g[name]
