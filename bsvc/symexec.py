"""Single-path symbolic executor with decision replay.

One Exec instance executes ONE path of one function under contract (FUC): every symbolic branch consults the decision
prefix; new decisions take the first feasible side and push the alternative prefix on `pending`.  The driver
(bsvc.verify) re-executes from the start for every pending prefix.  Proof obligations are collected on the way with
the path condition that held where they were emitted.
"""
import copy
from fractions import Fraction

from . import terms as tm
from .terms import T, REAL, INT, BOOL
from .values import *          # noqa
from . import solver
from .ir import N, Func, Class, walk


class Obligation(object):
    __slots__ = ('kind', 'fuc', 'label', 'line', 'hyps', 'goal', 'path', 'must_be_sat', 'text', 'note')

    def __init__(self, kind, fuc, label, line, hyps, goal, path, must_be_sat=False, note=''):
        self.kind = kind
        self.fuc = fuc
        self.label = label
        self.line = line
        self.hyps = tuple(hyps)
        self.goal = goal
        self.path = tuple(path)
        self.must_be_sat = must_be_sat
        self.note = note
        self.text = None


class Frame(object):
    def __init__(self, func, env, self_obj=None):
        self.func = func
        self.env = env
        self.ctypes = {}
        self.self_obj = self_obj
        self.globals_declared = set()
        self.local_names = set()
        self.loop_ord = {}


def assigned_names(body):
    """names bound anywhere in a function body (python scoping)"""
    out = set()

    def tgt(t):
        if t is None:
            return
        if t.k == 'Name':
            out.add(t.id)
        elif t.k in ('Tuple', 'List'):
            for e in t.elts:
                tgt(e)
        elif t.k == 'Starred':
            tgt(t.e)
    for n in walk(body):
        if n.k == 'Assign':
            for t in n.targets:
                tgt(t)
        elif n.k == 'AugAssign':
            tgt(n.target)
        elif n.k == 'CDecl':
            out.add(n.name)
        elif n.k == 'For':
            tgt(n.target)
        elif n.k == 'Try':
            for (_, nm, _) in n.handlers:
                if nm:
                    out.add(nm)
        elif n.k == 'With':
            for (_, t) in n.items:
                tgt(t)
        elif n.k == 'Comp':
            pass
    return out


def loop_ordinals(body):
    """id(node) -> ordinal for For/While statements in source order"""
    out = {}
    cnt = [0]

    def rec(stmts):
        for s in stmts:
            if s.k in ('For', 'While'):
                out[id(s)] = cnt[0]
                cnt[0] += 1
                rec(s.body)
                rec(s.orelse)
            elif s.k == 'If':
                for (_, b) in s.tests:
                    rec(b)
                rec(s.orelse)
            elif s.k == 'Try':
                rec(s.body)
                for (_, _, b) in s.handlers:
                    rec(b)
                rec(s.orelse)
                rec(s.final)
            elif s.k == 'With':
                rec(s.body)
    rec(body)
    return out


def _clone_initial(v):
    """pristine copy of an initial field value (arrays/objects keep their identity number)"""
    if isinstance(v, (Arr, Obj)):
        c = copy.copy(v)
        if isinstance(v, Arr) and not hasattr(v, 'parent'):
            c.shape = list(v.shape)
        if isinstance(v, Obj):
            c.fields = dict(v.fields)
        return c
    return v


def mutated_containers(mod):
    """names used as the base of a subscript store / delete or of a mutating method call anywhere in the module"""
    mc = getattr(mod, '_mutated_containers', None)
    if mc is None:
        from .ir import walk
        mc = set()
        MUT = ('append', 'extend', 'update', 'add', 'pop', 'popitem', 'clear', 'setdefault', 'insert', 'remove', 'discard', 'sort', 'reverse')
        funcs = list(mod.functions.values()) + [f for c in mod.classes.values() for f in c.methods.values()]
        for f in funcs:
            if f.body is None:
                continue
            for n in walk(f.body):
                if n.k in ('Assign', 'AugAssign', 'Delete'):
                    for t in (n.f.get('targets') or [n.f.get('target')]):
                        if t is not None and getattr(t, 'k', None) == 'Index' and t.base.k == 'Name':
                            mc.add(t.base.id)
                elif n.k == 'Call' and n.func.k == 'Attr' and n.func.attr in MUT and n.func.obj.k == 'Name':
                    mc.add(n.func.obj.id)
        mod._mutated_containers = mc
    return mc


def mutable_globals(mod):
    """names declared `global` inside some function of the module and assigned there"""
    cached = getattr(mod, '_mutable_globals', None)
    if cached is not None:
        return cached
    from .ir import walk
    out = set()
    funcs = list(mod.functions.values())
    for c in mod.classes.values():
        funcs.extend(c.methods.values())
    for f in funcs:
        if f.body is None:
            continue
        declared = set()
        for n in walk(f.body):
            if n.k == 'Global':
                declared.update(n.names)
        if not declared:
            continue
        for n in walk(f.body):
            if n.k in ('Assign', 'AugAssign'):
                tgts = n.f.get('targets') or [n.f.get('target')]
                for t in tgts:
                    if t is not None and getattr(t, 'k', None) == 'Name' and t.id in declared:
                        out.add(t.id)
    mod._mutable_globals = out
    return out


class Exec(object):
    def __init__(self, program, prefix=(), fuc_id='?', prune=True):
        self.program = program
        self.prefix = list(prefix)
        self.taken = []
        self.pending = []
        self.pc = []
        self.facts = []               # type invariants of symbols (monotone; never truncated with guarded pc regions)
        self.lazy_init = {}           # (oid, field) -> pristine initial value of a lazily created symbolic field
        self.obligations = []
        self.fresh_counters = {}
        self.frames = []
        self.fuc_id = fuc_id
        self.prune = prune
        self.module_globals = {}      # module short name -> {name: value}
        self.kappa = tm.var('kappa0', INT)    # random-stream position
        self.kappa_entry = self.kappa
        self.ghost = {}
        self.loop_stack = []          # active invariant-loop write sets
        self.notes = []
        self.spec_env = {}
        self.assumptions_used = set()
        self.natively_executed = set()
        self.dropped = {'print': 0, 'warn': 0, 'log': 0}
        self.call_depth = 0
        self.contract_lookup = None   # set by verify: (module, qualname, obj) -> Contract|None
        self.current_contract = None
        self.trace = []

    # ------------------------------------------------------------------ basics
    def fresh(self, base, sort):
        n = self.fresh_counters.get(base, 0)
        self.fresh_counters[base] = n + 1
        name = base if n == 0 else '%s!%d' % (base, n)
        name = ''.join(ch if (ch.isalnum() or ch in '_!.') else '_' for ch in name)
        return tm.var(name, sort)

    def assume(self, t):
        if isinstance(t, bool):
            if not t:
                raise PathEnd()
            return
        if t.is_const():
            if not t.value():
                raise PathEnd()
            return
        self.pc.append(t)

    def oblige(self, kind, goal, label='', line=0, note=''):
        if isinstance(goal, bool):
            goal = tm.mk_bool(goal)
        if goal.is_const() and goal.value():
            # trivially true: still counted (discharged syntactically)
            self.obligations.append(Obligation(kind, self.fuc_id, label, line, (), goal, self.taken, note=note))
            return
        self.obligations.append(Obligation(kind, self.fuc_id, label, line, self.facts + self.pc, goal, self.taken, note=note))

    def close_guard(self, mark, bound=()):
        """leave a guarded evaluation region: pc[mark] is the guard; whatever was assumed inside (callee postconditions,
        definitional facts) is kept as a guarded fact instead of being lost"""
        inner = self.pc[mark + 1:]
        guard = self.pc[mark] if mark < len(self.pc) else tm.TRUE
        del self.pc[mark:]
        for t in inner:
            f = tm.implies(guard, t)
            if bound:
                bs = [v for v in bound if tm.subterms(f, lambda x, v=v: x == v)]
                if bs:
                    f = tm.forall(bs, f)
            self.assume_fact(f)

    def assume_fact(self, t):
        if t.is_const():
            if not t.value():
                raise PathEnd()
            return
        self.facts.append(t)

    def _feasible(self, extra):
        if not self.prune:
            return True
        hyps = self.facts + self.pc + [extra]
        from . import axioms
        try:
            hyps = hyps + axioms.instantiate(hyps, None, depth=2)
        except Exception:
            pass
        text, _, _ = tm.script(hyps, None)
        return solver.feasible(text)

    def branch(self, c, label=''):
        """decide a (possibly symbolic) condition on this path"""
        if isinstance(c, bool):
            return c
        if isinstance(c, (int, float)):
            return bool(c)
        if c is None:
            return False
        if not isinstance(c, T):
            return self.truth(c)
        if c.sort != BOOL:
            c = tm.ne(c, tm.mk_int(0) if c.sort == INT else tm.mk_real(0))
        if c.is_const():
            return c.value()
        if getattr(self, 'in_quant', 0):
            raise Unsupported('case split on a symbolic condition under a spec quantifier (would be unsound)')
        k = len(self.taken)
        if k < len(self.prefix):
            d = self.prefix[k]
        else:
            ft = self._feasible(c)
            ff = self._feasible(tm.not_(c))
            if ft and ff:
                d = True
                self.pending.append(self.taken + [False])
            elif ft:
                d = True
            elif ff:
                d = False
            else:
                raise PathEnd()
        self.taken.append(d)
        self.pc.append(c if d else tm.not_(c))
        return d

    def choice(self, label=''):
        """nondeterministic boolean (both sides always explored)"""
        k = len(self.taken)
        if k < len(self.prefix):
            d = self.prefix[k]
        else:
            d = True
            self.pending.append(self.taken + [False])
        self.taken.append(d)
        return d

    def truth(self, v):
        """python truthiness of a value -> python bool or Bool term"""
        if isinstance(v, T):
            if v.sort == BOOL:
                return v
            return tm.ne(v, tm.mk_int(0) if v.sort == INT else tm.mk_real(0))
        if isinstance(v, (Obj, Arr, ClassRef, FuncRef, BoundMethod, Builtin)):
            if isinstance(v, Arr):
                raise Unsupported('truth value of an array')
            return True
        if v is UNBOUND:
            raise EngineError('truth of UNBOUND')
        return bool(v)

    # ------------------------------------------------------------------ frames / names
    @property
    def frame(self):
        return self.frames[-1]

    def lookup(self, name, line=0):
        fr = self.frame
        if name in fr.env and name not in fr.globals_declared:
            v = fr.env[name]
            if v is UNBOUND:
                self.oblige('bound-var', tm.FALSE, label=name, line=line,
                            note='local %r read before assignment' % name)
                raise PathEnd()
            return v
        if name in fr.local_names and name not in fr.globals_declared:
            self.oblige('bound-var', tm.FALSE, label=name, line=line, note='local %r read before assignment' % name)
            raise PathEnd()
        if name in self.spec_env:
            return self.spec_env[name]
        mod = fr.func.module if fr.func is not None else None
        if mod is not None:
            g = self.module_globals.setdefault(mod.short, {})
            if name in g:
                return g[name]
            gi = getattr(mod, 'global_inits', {})
            if name in mutable_globals(mod) and name in mod.globals_ctypes:
                # a module-level variable that some function reassigns (declared `global` there): its value at the entry of the function
                # under contract is whatever earlier calls left - arbitrary, not the initialiser
                hint = None
                cc = self.current_contract
                if cc is not None:
                    hint = cc.hints.get('global:' + name)
                if hint is not None and 'value' in hint:
                    v = hint['value'](self) if callable(hint['value']) else hint['value']
                else:
                    v = self.symbolic_of_ctype(mod.globals_ctypes[name], 'global_' + name, hint)
                g[name] = v
                return v
            if name in gi:
                # module-level cdef constant with an initialiser (never reassigned: checked by mutable_globals)
                v = self.convert(self.eval(gi[name]), mod.globals_ctypes.get(name), 0, name)
                g[name] = v
                return v
            if name in mod.functions:
                return FuncRef(mod.functions[name])
            if name in mod.classes:
                return ClassRef(mod.classes[name])
            # a module-level constant: bound by exactly one plain top-level assignment and never reassigned by a function (`global` + store)
            ta = getattr(mod, '_toplevel_assigns', None)
            if ta is None:
                ta = {}
                for st in mod.body:
                    if st.k == 'Assign' and len(st.targets) == 1 and st.targets[0].k == 'Name':
                        ta.setdefault(st.targets[0].id, []).append(st.value)
                mod._toplevel_assigns = ta
            if name in ta and len(ta[name]) == 1 and name not in mutable_globals(mod):
                if ta[name][0].k in ('Dict', 'List', 'Set', 'Call') and name in mutated_containers(mod):
                    # a module-level container that some function of the module writes into (a cache, a registry): its content at the entry of
                    # the function under contract is whatever earlier calls left there - not its initialiser. Not modelled: undecided, never "held"
                    raise Unsupported('module-level container %r is written by functions of the module: its content at function entry is arbitrary (line %s)' % (name, line))
                v = self.eval(ta[name][0])
                g[name] = v
                return v
        from . import builtins_ as bi
        if mod is not None:
            # names bound by module-level import statements
            imp = getattr(mod, '_imports', None)
            if imp is None:
                imp = {}
                for st in mod.body:
                    if st.k == 'Import':
                        for (m_, n_, as_) in st.f.get('names', []):
                            imp[as_] = (m_, n_)
                mod._imports = imp
            if name in imp and name not in bi.MODULES:
                v = bi.imported_name(self, imp[name][0], imp[name][1])
                if v is not None:
                    return v
        v = bi.global_name(self, name, mod)
        if v is not None:
            return v
        raise Unsupported('unknown name %r (line %s)' % (name, line))

    def ctype_of_local(self, name):
        return self.frame.ctypes.get(name)

    # ------------------------------------------------------------------ conversions
    def convert(self, v, ct, line=0, what=''):
        """C conversion on store into a location of declared type ct"""
        if ct is None:
            return v
        k = ct[0]
        if k == 'double':
            if len(ct) > 1 and ct[1] == 32 and isinstance(v, T) and not v.is_const():
                # store into a C float: the value is rounded to single precision; the encoding treats DOUBLE arithmetic as real
                # arithmetic, not 24-bit arithmetic, so the store must be exact (f32(x) == x; true for small whole numbers)
                r = tm.to_real(tm.bool_to_int(v))
                self.oblige('conv', tm.eq(tm.app('f32', (r,), REAL), r), label=what or 'float', line=line,
                            note='value stored into a single-precision C float must be exactly representable')
                return r
            if isinstance(v, T):
                return tm.to_real(tm.bool_to_int(v))
            if isinstance(v, bool):
                return tm.mk_real(int(v))
            if isinstance(v, (int, Fraction)):
                return tm.mk_real(v)
            if isinstance(v, float):
                if v != v or v in (float('inf'), float('-inf')):
                    return v
                return tm.mk_real(v)
            raise Unsupported('store of %r into a double (line %s)' % (v, line))
        if k == 'int':
            signed = ct[1]
            if isinstance(v, bool):
                v = int(v)
            if isinstance(v, int):
                if not signed and v < 0:
                    self.oblige('conv', tm.FALSE, label=what, line=line, note='negative value %d stored into unsigned' % v)
                    return tm.mk_int(v % (1 << ct[2]))
                return tm.mk_int(v)
            if isinstance(v, float):
                return tm.mk_int(int(v))
            if isinstance(v, T):
                if v.sort == BOOL:
                    v = tm.bool_to_int(v)
                if v.sort == REAL:
                    v = tm.trunc(v)
                if not signed:
                    self.oblige('conv', tm.ge(v, tm.mk_int(0)), label=what, line=line,
                                note='value stored into unsigned must be non-negative')
                return v
            raise Unsupported('store of %r into a C int (line %s)' % (v, line))
        if k == 'bint':
            t = self.truth(v)
            return t if isinstance(t, T) else tm.mk_bool(t)
        return v

    # ------------------------------------------------------------------ symbolic inputs
    def symbolic_of_ctype(self, ct, name, hint=None):
        k = ct[0] if ct else 'py'
        hint = hint or {}
        if k == 'double':
            return self.fresh(name, REAL)
        if k == 'int':
            v = self.fresh(name, INT)
            if not ct[1]:
                self.assume_fact(tm.ge(v, tm.mk_int(0)))
                if len(ct) > 2 and ct[2]:
                    self.assume_fact(tm.lt(v, tm.mk_int(1 << ct[2])))      # value range of the unsigned C type
            return v
        if k == 'bint':
            return self.fresh(name, BOOL)
        if k == 'ptr' and ct[1][0] == 'vector':
            return PtrTo(self.symbolic_of_ctype(ct[1], name, hint))
        if k == 'ptr':
            es = sort_of_ctype(ct[1])
            if ct[1][0] == 'void' or es is None:
                raise Unsupported('pointer to %s' % (ct[1],))
            return self.symbolic_array(name, 1, es, 'ptr')
        if k == 'vector':
            if ct[1][0] in ('void', 'ptr'):
                return self.symbolic_array(name, 1, INT, 'vector', refcls=hint.get('refcls'))
            es = sort_of_ctype(ct[1])
            return self.symbolic_array(name, 1, es, 'vector')
        if k in ('ndarray', 'memview'):
            ndim = hint.get('ndim') or (ct[1] if k == 'ndarray' else ct[1]) or None
            if ndim is None:
                raise Unsupported('array %s needs an ndim hint' % name)
            elem = hint.get('elem')
            if elem is None:
                dt = ct[2]
                elem = sort_of_ctype(dt) if dt else REAL
            return self.symbolic_array(name, ndim, elem, k)
        if k == 'obj':
            cls = self.program.find_class(ct[1])
            if cls is None:
                raise Unsupported('unknown class %s' % ct[1])
            return self.symbolic_obj(cls, name, exact=hint.get('exact', False))
        if 'value' in hint:
            v = hint['value']
            return v(self) if callable(v) else v
        raise Unsupported('no symbolic value for %s of type %s' % (name, ct))

    def symbolic_array(self, name, ndim, elem, kind, refcls=None):
        s = elem
        for _ in range(ndim):
            s = tm.ArraySort(INT, s)
        term = self.fresh(name, s)
        shape = []
        for d in range(ndim):
            n = self.fresh('%s_len%s' % (name, d if ndim > 1 else ''), INT)
            self.assume_fact(tm.ge(n, tm.mk_int(0)))
            shape.append(n)
        return Arr(term, shape, elem, kind, name, refcls=refcls)

    def symbolic_obj(self, cls, name, exact=False):
        o = Obj(cls, cls.name, symbolic=True, exact=exact, name=name)
        o.ref = self.fresh(name + '_ref', INT)
        return o

    def get_field(self, o, attr, line=0):
        if attr in o.fields:
            return o.fields[attr]
        if o.symbolic and o.cls is not None:
            fields = self.program.all_fields(o.cls)
            if attr in fields:
                hint = None
                cc = self.current_contract
                if cc is not None:
                    hint = cc.hints.get('%s.%s' % (o.name, attr))
                    if hint is None:
                        hint = cc.hints.get('%s.%s' % (o.clsname, attr))
                if hint is None:
                    from . import contracts as _C
                    for kc in self.program.mro(o.cls):
                        hint = _C.FIELD_HINTS.get('%s.%s' % (kc.name, attr))
                        if hint is not None:
                            break
                key = (o.oid, attr)
                if key in self.lazy_init:
                    v = _clone_initial(self.lazy_init[key])
                else:
                    v = self.symbolic_of_ctype(fields[attr], '%s.%s' % (o.name, attr), hint)
                    self.lazy_init[key] = _clone_initial(v)
                o.fields[attr] = v
                return v
        return UNBOUND

    # ------------------------------------------------------------------ havoc
    def havoc_value(self, v, name):
        """fresh value of the same shape"""
        if isinstance(v, T):
            return self.fresh(name, v.sort)
        if isinstance(v, bool):
            return self.fresh(name, BOOL)
        if isinstance(v, int):
            return self.fresh(name, INT)
        if isinstance(v, float):
            return self.fresh(name, REAL)
        if isinstance(v, Arr):
            v.term = self.fresh(name, v.term.sort)
            return v
        if v is UNBOUND:
            return UNBOUND
        raise Unsupported('cannot havoc %r (%s)' % (v, name))

    def note_write(self, loc, what=''):
        """loc: ('L', name) | ('A', oid) | ('F', oid, field); checks loop write sets"""
        for ls in self.loop_stack:
            if ls['frame'] is not self.frame and loc[0] == 'L':
                continue
            if loc[0] in ('A', 'F') and loc[1] in ls['fresh']:
                continue
            if loc[0] == 'A' and loc[1] > ls['oid_mark']:
                continue
            if loc[0] == 'F' and loc[1] > ls['oid_mark']:
                continue
            if loc not in ls['set']:
                raise EngineError('write to %s (%s) not in the havoc set of loop %s' % (loc, what, ls['name']))
