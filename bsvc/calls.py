"""Calls: inlining, contracts at call sites, object construction, spec-expression evaluation."""
import copy

from . import terms as tm
from .terms import T, REAL, INT, BOOL
from .values import *      # noqa
from .ir import N, Func
from .symexec import Frame, assigned_names, loop_ordinals
from . import arrays

MAX_DEPTH = 40


class CallMixin(object):

    def e_Lit(self, n):
        return n.v

    # ------------------------------------------------------------------ call expression
    def call_expr(self, n):
        f = n.func
        # dropped output calls inside expressions
        if self.is_dropped_call(n):
            self.eval_dropped_args(n)
            return None
        # spec-only forms
        if self.in_spec and f.k == 'Name':
            if f.id == 'old':
                return self.eval_old(n.args[0])
            if f.id in ('forall', 'exists'):
                return self.spec_quant(f.id, n)
            if f.id in ('entry', 'head'):
                return self.eval_snapshot(f.id, n.args[0], self.concrete_int(self.eval(n.args[1])) if len(n.args) > 1 else 0)
            if f.id == 'implies':
                a = self.spec_truth(n.args[0])
                if a.is_const() and not a.value():
                    return tm.TRUE
                if not a.is_const() and not getattr(self, 'in_quant', 0) and not self._feasible(a):
                    return tm.TRUE          # the antecedent contradicts the path condition: vacuous on this path
                mark = len(self.pc)
                self.pc.append(a)
                try:
                    b = self.spec_truth(n.args[1])
                finally:
                    self.close_guard(mark, getattr(self, 'quant_vars', ()))
                return tm.implies(a, b)
            if f.id == 'ite':
                c = self.spec_truth(n.args[0])
                a, b = self.eval(n.args[1]), self.eval(n.args[2])
                return tm.ite(c, to_term(a), to_term(b))
        fv = self.eval(f)
        args = [self.eval(a) for a in n.args]
        if n.star is not None:
            args.extend(list(self.eval(n.star)))
        kwargs = {k: self.eval(v) for (k, v) in n.kwargs}
        if n.starstar is not None:
            kwargs.update(self.eval(n.starstar))
        return self.call_value(fv, args, kwargs, n.line, n)

    def call_value(self, fv, args, kwargs, line=0, node=None):
        from . import builtins_ as bi
        if isinstance(fv, Builtin):
            return bi.call_builtin(self, fv.name, args, kwargs, line, node)
        if isinstance(fv, BuiltinMethod):
            return bi.call_builtin_method(self, fv.obj, fv.name, args, kwargs, line, node)
        if isinstance(fv, SpecFn):
            return fv.fn(self, *args, **kwargs)
        if isinstance(fv, StubMethod):
            return fv.stub.methods[fv.name](self, *args, **kwargs)
        if isinstance(fv, BoundMethod):
            if fv.name.startswith('super.'):
                # non-virtual call of the base-class body
                env, ctypes = self.bind_params(fv.func, args, dict(kwargs), fv.obj, line)
                return self.run_body(fv.func, env, ctypes, fv.obj)
            return self.call_method(fv.obj, fv.func, args, kwargs, line)
        if isinstance(fv, FuncRef):
            return self.call_function(fv.func, args, kwargs, line)
        if isinstance(fv, ClassRef):
            return self.instantiate(fv.cls, args, kwargs, line)
        if isinstance(fv, Closure):
            env = dict(fv.env)
            for (p, _, _), a in zip(fv.params, args):
                env[p] = a
            fr = Frame(self.frame.func, env, self.frame.self_obj)
            fr.local_names = set(env)
            fr.loop_ord = {}
            self.frames.append(fr)
            try:
                return self.eval(fv.body)
            finally:
                self.frames.pop()
        raise Unsupported('call of %r (line %s)' % (fv, line))

    # ------------------------------------------------------------------ functions
    def bind_params(self, func, args, kwargs, self_obj, line):
        params = list(func.params)
        env = {}
        ctypes = {}
        i = 0
        if self_obj is not None and params and func.cls is not None and 'staticmethod' not in func.decorators:
            env[params[0][0]] = self_obj
            params = params[1:]
        rest = list(args)
        for (name, ct, default) in params:
            if rest:
                v = rest.pop(0)
            elif name in kwargs:
                v = kwargs.pop(name)
            elif default is not None:
                v = self.eval_default(default, func)
            else:
                self.raise_exc('TypeError', 'missing argument %s of %s' % (name, func.qualname), line)
            if ct is not None and ct[0] in ('double', 'int', 'bint'):
                v = self.convert(v, ct, line, name)
                ctypes[name] = ct
            elif ct is not None and ct[0] != 'py':
                ctypes[name] = ct
            env[name] = v
        if rest:
            if func.star:
                env[func.star] = tuple(rest)
            else:
                self.raise_exc('TypeError', 'too many arguments for %s' % func.qualname, line)
        elif func.star:
            env[func.star] = ()
        if func.starstar:
            env[func.starstar] = dict(kwargs)
        elif kwargs:
            self.raise_exc('TypeError', 'unexpected keyword %s for %s' % (sorted(kwargs), func.qualname), line)
        return env, ctypes

    def eval_default(self, node, func):
        fr = Frame(func, {}, None)
        fr.local_names = set()
        self.frames.append(fr)
        try:
            return self.eval(node)
        finally:
            self.frames.pop()

    def run_body(self, func, env, ctypes, self_obj, contract=None, prefer_unroll=False):
        """execute func's body in a new frame; returns the return value (converted)"""
        if func.body is None:
            raise Unsupported('function %s has no body' % func.qualname)
        if self.call_depth > MAX_DEPTH:
            raise Unsupported('call depth limit (recursion?) at %s' % func.qualname)
        fr = Frame(func, env, self_obj)
        fr.ctypes = ctypes
        fr.local_names = assigned_names(func.body) | set(env)
        fr.loop_ord = loop_ordinals(func.body)
        fr.contract = contract
        fr.prefer_unroll = prefer_unroll
        self.frames.append(fr)
        self.call_depth += 1
        saved_loops = self.loop_stack
        try:
            try:
                self.exec_block(func.body)
                rv = None
            except ReturnSig as r:
                rv = r.value
            except BreakSig:
                raise EngineError('break outside loop in %s' % func.qualname)
        finally:
            self.call_depth -= 1
            if self.call_depth == 0:
                self.last_locals = dict(fr.env)
                self.last_loop_entry = dict(getattr(fr, 'loop_entry', {}))
            self.frames.pop()
        rt = func.ret
        if rt is not None and rt[0] in ('double', 'int', 'bint'):
            if rv is None:
                raise Unsupported('C function %s falls off the end without a value' % func.qualname)
            rv = self.convert(rv, rt, func.line, 'return')
        return rv

    def call_function(self, func, args, kwargs, line=0):
        c = self.find_contract(func, None)
        if c is not None:
            return self.apply_contract(c, func, None, args, kwargs, line)
        env, ctypes = self.bind_params(func, args, dict(kwargs), None, line)
        return self.run_body(func, env, ctypes, None)

    def call_method(self, obj, func, args, kwargs, line=0):
        if isinstance(obj, Obj) and obj.cls is not None:
            # virtual dispatch
            if obj.exact or not obj.symbolic:
                f2 = self.program.find_method(obj.cls, func.name)
                if f2 is not None:
                    func = f2
            else:
                # dynamic class unknown: abstract contract of the static class is the only thing known
                c = self.find_contract(func, obj, abstract_ok=True)
                if c is None:
                    f2 = self.program.find_method(obj.cls, func.name)
                    if f2 is not None and self.is_effectively_final(obj.cls, func.name):
                        func = f2
                    else:
                        raise Unsupported('virtual call %s.%s on a symbolic object needs an abstract contract (line %s)'
                                          % (obj.clsname, func.name, line))
                else:
                    return self.apply_contract(c, func, obj, args, kwargs, line)
        c = self.find_contract(func, obj)
        if c is not None and isinstance(obj, Obj) and not obj.symbolic and not c.opts.get('use_on_concrete'):
            # concrete-shaped receiver: execute the body itself (more precise than the contract); loops over symbolic
            # ranges inside it are still cut with the callee's own invariants
            return self.inline_with_loops(c, func, obj, args, kwargs, line)
        if c is not None:
            return self.apply_contract(c, func, obj, args, kwargs, line)
        env, ctypes = self.bind_params(func, args, dict(kwargs), obj, line)
        return self.run_body(func, env, ctypes, obj)

    def inline_with_loops(self, c, func, obj, args, kwargs, line):
        env, ctypes = self.bind_params(func, args, dict(kwargs), obj, line)
        saved_old = self.old_env
        if c.loops:
            self.old_env = copy.deepcopy(dict(env))
        try:
            return self.run_body(func, env, ctypes, obj, contract=c if c.loops else None, prefer_unroll=True)
        finally:
            self.old_env = saved_old

    def is_effectively_final(self, cls, mname):
        """no subclass overrides the method"""
        for sc in self.program.subclasses(cls.name):
            if sc is cls:
                continue
            m = sc.methods.get(mname)
            if m is not None and m.body is not None:
                return False
        return True

    def find_contract(self, func, obj, abstract_ok=False):
        if self.contract_lookup is None:
            return None
        if getattr(self, 'force_inline', False) and not (isinstance(obj, Obj) and obj.symbolic and not obj.exact):
            return None
        return self.contract_lookup(self, func, obj, abstract_ok)

    # ------------------------------------------------------------------ objects
    def default_field_value(self, ct):
        k = ct[0]
        if k == 'double':
            return tm.mk_real(0)
        if k == 'int':
            return tm.mk_int(0)
        if k == 'bint':
            return tm.FALSE
        if k == 'vector':
            return []
        return None

    def allocate(self, cls, name=None):
        """a new object with zero-initialised C fields (what tp_new does), constructor not yet run"""
        o = Obj(cls, cls.name, symbolic=False, exact=True, name=name or cls.name.lower())
        o.ref = self.fresh(cls.name + '_new_ref', INT)
        if getattr(cls.module, 'is_pyx', False):
            for fname, ct in self.program.all_fields(cls).items():
                o.fields[fname] = self.default_field_value(ct)
        return o

    def instantiate(self, cls, args, kwargs, line=0):
        from . import builtins_ as bi
        r = bi.instantiate_special(self, cls, args, kwargs, line)
        if r is not NotImplemented:
            return r
        o = self.allocate(cls)
        init = self.program.find_method(cls, '__init__')
        cinit = self.program.find_method(cls, '__cinit__')
        if cinit is not None:
            self.call_method(o, cinit, list(args), dict(kwargs), line)
        if init is not None:
            self.call_method(o, init, list(args), dict(kwargs), line)
        elif args or kwargs:
            self.raise_exc('TypeError', '%s() takes no arguments' % cls.name, line)
        return o

    # ------------------------------------------------------------------ contracts at call sites
    def apply_contract(self, c, func, obj, args, kwargs, line=0):
        env, ctypes = self.bind_params(func, args, dict(kwargs), obj, line)
        site = '%s@%s' % (c.fid, line)
        saved_old = self.old_env
        # spec environment over the callee's parameters
        pre_env = dict(env)
        old_snapshot = copy.deepcopy(pre_env)
        saved_old_ghost = getattr(self, 'old_ghost', None)
        saved_old_kappa = getattr(self, 'old_kappa', None)
        self.old_ghost = dict(self.ghost.get('g', {}))
        self.old_kappa = self.kappa
        fr = Frame(func, dict(env), obj)
        fr.ctypes = ctypes
        fr.local_names = set(env)
        self.frames.append(fr)
        try:
            self.bind_lets(c, fr)
            for (label, ir, txt) in c.requires_:
                g = self.spec_truth(ir)
                self.oblige('pre@call', g, label='%s:%s' % (c.fid, label), line=line, note=txt)
                self.assume(g)
            # raises clauses with conditions
            for exc, cond in c.raises_.items():
                if cond is None:
                    if self.choice('raise?' + exc):
                        raise RaiseSig(ExcVal(exc, None, line))
                else:
                    if self.branch(self.spec_truth(cond[0])):
                        raise RaiseSig(ExcVal(exc, None, line))
            # havoc modifies
            for path in (c.modifies_ or []):
                self.havoc_path(path, fr, site)
            if c.opts.get('advances_stream'):
                pass
            # result
            result = self.make_result(c, func, fr, site)
            fr.env['result'] = result
            saved_old = self.old_env
            self.old_env = old_snapshot
            for (label, ir, txt) in c.ensures_:
                self.assume(self.spec_truth(ir))
            for (label, ir, txt) in c.defines_:
                self.assume(self.spec_truth(ir))
            for hook in c.opts.get('post_hooks', []):
                hook(self, fr, result)
            self.assumed_contracts.add(c.fid)
            return fr.env['result']
        finally:
            self.old_env = saved_old
            self.old_ghost = saved_old_ghost
            self.old_kappa = saved_old_kappa
            self.frames.pop()

    def bind_lets(self, c, fr):
        for (name, ir, txt) in c.lets_:
            fr.env[name] = self.eval_spec(ir)

    def make_result(self, c, func, fr, site):
        rt = func.ret
        ro = c.opts.get('result')
        if callable(ro):
            return ro(self, fr)
        if rt is None or rt[0] == 'void':
            return None
        if rt[0] in ('double', 'int', 'bint'):
            return self.symbolic_of_ctype(rt, 'ret_%s' % func.name)
        if rt[0] == 'obj':
            cls = self.program.find_class(c.opts.get('result_class', rt[1]))
            o = self.symbolic_obj(cls, 'ret_%s' % func.name, exact=bool(c.opts.get('result_class')))
            return o
        if rt[0] in ('ndarray', 'memview', 'ptr'):
            h = c.hints.get('result', {})
            return self.symbolic_of_ctype(rt, 'ret_%s' % func.name, h)
        if c.opts.get('result_none') or func.name == '__init__':
            return None
        if 'result_sort' in c.opts:
            return self.fresh('ret_%s' % func.name, c.opts['result_sort'])
        raise Unsupported('result of contract %s of type %s' % (c.fid, rt))

    def havoc_path(self, path, fr, site):
        """path: 'name', 'name[*]' (array contents), 'self.f', 'self.f[*]', 'kappa'"""
        from .contracts import parse_expr
        if path == 'kappa':
            self.note_write(('K',), 'kappa')
            self.kappa = self.fresh('kappa', INT)
            return
        if path.startswith('ghost:'):
            name = path[6:]
            g = self.ghost.setdefault('g', {})
            cur = g.get(name)
            self.note_write(('G', name), path)
            g[name] = self.fresh('ghost_' + name, cur.sort if cur is not None else tm.ArraySort(INT, REAL))
            return
        contents = path.endswith('[*]')
        p = path[:-3] if contents else path
        node = parse_expr(p)
        if node.k == 'Name':
            v = fr.env.get(node.id)
            if isinstance(v, Arr):
                r = arrays.root_of(v)
                self.note_write(('A', r.oid), r.name)
                if isinstance(v, arrays.ViewArr) and (v.fixed or v.offset is not None):
                    # only the window may change
                    self.havoc_view(v, site)
                else:
                    r.term = self.fresh(r.name + '_mod', r.term.sort)
                return
            raise Unsupported('modifies %s: not an array' % path)
        if node.k == 'Attr':
            o = self.eval_quiet(node.obj)
            if not isinstance(o, Obj):
                raise Unsupported('modifies %s: not an object field' % path)
            cur = self.get_field(o, node.attr)
            if isinstance(cur, Arr):
                r = arrays.root_of(cur)
                self.note_write(('A', r.oid), r.name)
                r.term = self.fresh(r.name + '_mod', r.term.sort)
                return
            self.note_write(('F', o.oid, node.attr), path)
            ct = self.program.all_fields(o.cls).get(node.attr) if o.cls else None
            if ct is not None and ct[0] in ('double', 'int', 'bint'):
                o.fields[node.attr] = self.symbolic_of_ctype(ct, '%s.%s_mod' % (o.name, node.attr))
            elif isinstance(cur, T):
                o.fields[node.attr] = self.fresh('%s.%s_mod' % (o.name, node.attr), cur.sort)
            else:
                raise Unsupported('modifies %s: cannot havoc %r' % (path, cur))
            return
        raise Unsupported('modifies path %s' % path)

    def havoc_view(self, v, site):
        parent = v.parent
        old_row = parent.term
        for i in v.fixed:
            old_row = tm.select(old_row, i)
        new_row = self.fresh(parent.name + '_modw', old_row.sort)
        if v.offset is not None:
            j = self.fresh('j_modw', INT)
            self.assume(tm.forall([j], tm.implies(tm.lt(j, v.offset), tm.eq(tm.select(new_row, j), tm.select(old_row, j)))))
        parent.term = arrays._store_path(parent.term, v.fixed, new_row)

    # ------------------------------------------------------------------ spec expressions
    in_spec = False
    old_env = None

    def eval_spec(self, ir):
        """evaluate a contract clause: obligations raised by the evaluation itself (bounds of reads in the spec) are
        dropped; reads are total (SMT arrays)"""
        mark = len(self.obligations)
        was = self.in_spec
        self.in_spec = True
        try:
            return self.eval(ir)
        finally:
            self.in_spec = was
            del self.obligations[mark:]

    def eval_old(self, node):
        if self.old_env is None:
            raise EngineError('old() outside a postcondition')
        env = dict(self.frame.env)
        env.update(self.old_env)
        fr = Frame(self.frame.func, env, self.old_env.get('self'))
        fr.ctypes = self.frame.ctypes
        fr.local_names = set(self.old_env)
        self.frames.append(fr)
        saved_g = self.ghost.get('g', {})
        saved_k = self.kappa
        if getattr(self, 'old_ghost', None) is not None:
            self.ghost['g'] = dict(self.old_ghost)
        if getattr(self, 'old_kappa', None) is not None:
            self.kappa = self.old_kappa
        try:
            return self.eval(node)
        finally:
            self.frames.pop()
            self.ghost['g'] = saved_g
            self.kappa = saved_k

    def eval_snapshot(self, which, node, k):
        fr = self.frame
        # the function frame that owns the loops is the nearest one carrying loop snapshots
        owner = None
        for f in reversed(self.frames):
            if hasattr(f, 'loop_entry') and k in (f.loop_entry if which == 'entry' else f.loop_head):
                owner = f
                break
        if owner is None:
            raise EngineError('%s(.., %d): no snapshot of that loop' % (which, k))
        snap, kap, gsnap = (owner.loop_entry if which == 'entry' else owner.loop_head)[k]
        env = dict(fr.env)
        env.update(snap)
        f2 = Frame(fr.func, env, snap.get('self', fr.self_obj))
        f2.ctypes = fr.ctypes
        f2.local_names = set(env)
        saved_k = self.kappa
        saved_g = self.ghost.get('g', {})
        self.kappa = kap
        self.ghost['g'] = gsnap
        self.frames.append(f2)
        try:
            return self.eval(node)
        finally:
            self.frames.pop()
            self.kappa = saved_k
            self.ghost['g'] = saved_g

    def spec_quant(self, kind, n):
        """forall(lambda i, j: body)  /  forall(lambda i: body)  — integer-sorted bound variables"""
        lam = n.args[0]
        if lam.k != 'Lambda':
            raise EngineError('forall needs a lambda')
        vs = []
        fr = self.frame
        saved = {}
        self.in_quant = getattr(self, 'in_quant', 0) + 1
        for (p, _, _) in lam.params:
            v = self.fresh('q_' + p, INT)
            vs.append(v)
            saved[p] = fr.env.get(p, UNBOUND)
            fr.env[p] = v
        mark = len(self.pc)
        self.pc.append(tm.TRUE) if False else None
        saved_qv = getattr(self, 'quant_vars', ())
        self.quant_vars = tuple(saved_qv) + tuple(vs)
        try:
            body = self.spec_truth(lam.body)
        finally:
            self.in_quant -= 1
            self.quant_vars = saved_qv
            inner = self.pc[mark:]
            del self.pc[mark:]
            for t_ in inner:
                bs = [v for v in vs if tm.subterms(t_, lambda x, v=v: x == v)]
                self.assume_fact(tm.forall(bs, t_) if bs else t_)
            for p, v in saved.items():
                if v is UNBOUND:
                    fr.env.pop(p, None)
                else:
                    fr.env[p] = v
        return tm.forall(vs, body) if kind == 'forall' else tm.exists(vs, body)
