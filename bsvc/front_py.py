"""Python front end: ast -> IR (same node kinds as the Cython front end)."""
import ast

from .ir import N, Func, Class, Module

_BIN = {ast.Add: '+', ast.Sub: '-', ast.Mult: '*', ast.Div: '/', ast.FloorDiv: '//', ast.Mod: '%', ast.Pow: '**',
        ast.BitOr: '|', ast.BitAnd: '&', ast.BitXor: '^', ast.LShift: '<<', ast.RShift: '>>', ast.MatMult: '@'}
_CMP = {ast.Eq: '==', ast.NotEq: '!=', ast.Lt: '<', ast.LtE: '<=', ast.Gt: '>', ast.GtE: '>=', ast.Is: 'is',
        ast.IsNot: 'is_not', ast.In: 'in', ast.NotIn: 'not_in'}
_UN = {ast.USub: '-', ast.UAdd: '+', ast.Not: 'not', ast.Invert: '~'}


def expr(e):
    if e is None:
        return None
    ln = getattr(e, 'lineno', 0)
    if isinstance(e, ast.Name):
        return N('Name', ln, id=e.id)
    if isinstance(e, ast.Attribute):
        return N('Attr', ln, obj=expr(e.value), attr=e.attr)
    if isinstance(e, ast.Constant):
        v = e.value
        if isinstance(v, bool) or v is None or v is Ellipsis:
            return N('Const', ln, v=v)
        if isinstance(v, int):
            return N('Num', ln, v=v, isfloat=False, text=repr(v))
        if isinstance(v, float):
            return N('Num', ln, v=v, isfloat=True, text=repr(v))
        if isinstance(v, str):
            return N('Str', ln, s=v)
        return N('Unsupported', ln, what='Constant:%s' % type(v).__name__)
    if isinstance(e, ast.BinOp):
        return N('BinOp', ln, op=_BIN[type(e.op)], l=expr(e.left), r=expr(e.right))
    if isinstance(e, ast.UnaryOp):
        return N('UnOp', ln, op=_UN[type(e.op)], e=expr(e.operand))
    if isinstance(e, ast.BoolOp):
        return N('BoolOp', ln, op='and' if isinstance(e.op, ast.And) else 'or', operands=[expr(v) for v in e.values])
    if isinstance(e, ast.Compare):
        return N('Cmp', ln, ops=[_CMP[type(o)] for o in e.ops], operands=[expr(e.left)] + [expr(c) for c in e.comparators])
    if isinstance(e, ast.Subscript):
        return N('Index', ln, base=expr(e.value), index=expr(e.slice))
    if isinstance(e, ast.Slice):
        return N('Slice', ln, lo=expr(e.lower), hi=expr(e.upper), step=expr(e.step))
    if isinstance(e, ast.Call):
        args = []
        star = None
        for a in e.args:
            if isinstance(a, ast.Starred):
                star = expr(a.value)
            else:
                args.append(expr(a))
        kwargs = []
        starstar = None
        for k in e.keywords:
            if k.arg is None:
                starstar = expr(k.value)
            else:
                kwargs.append((k.arg, expr(k.value)))
        return N('Call', ln, func=expr(e.func), args=args, kwargs=kwargs, star=star, starstar=starstar)
    if isinstance(e, ast.Tuple):
        return N('Tuple', ln, elts=[expr(x) for x in e.elts])
    if isinstance(e, ast.List):
        return N('List', ln, elts=[expr(x) for x in e.elts])
    if isinstance(e, ast.Set):
        return N('Set', ln, elts=[expr(x) for x in e.elts])
    if isinstance(e, ast.Dict):
        return N('Dict', ln, keys=[expr(k) for k in e.keys], vals=[expr(v) for v in e.values])
    if isinstance(e, ast.IfExp):
        return N('IfExp', ln, c=expr(e.test), a=expr(e.body), b=expr(e.orelse))
    if isinstance(e, (ast.ListComp, ast.SetComp, ast.GeneratorExp, ast.DictComp)):
        gens = [(expr(g.target), expr(g.iter), [expr(i) for i in g.ifs]) for g in e.generators]
        if isinstance(e, ast.DictComp):
            return N('Comp', ln, ckind='dict', elt=expr(e.value), key=expr(e.key), gens=gens)
        kind = 'list' if isinstance(e, ast.ListComp) else 'set' if isinstance(e, ast.SetComp) else 'gen'
        return N('Comp', ln, ckind=kind, elt=expr(e.elt), key=None, gens=gens)
    if isinstance(e, ast.JoinedStr):
        return N('JoinedStr', ln, parts=[expr(v) for v in e.values])
    if isinstance(e, ast.FormattedValue):
        return N('Format', ln, e=expr(e.value), spec=expr(e.format_spec), conv=e.conversion)
    if isinstance(e, ast.Starred):
        return N('Starred', ln, e=expr(e.value))
    if isinstance(e, ast.Lambda):
        params = [(a.arg, ('py',), None) for a in e.args.args]
        return N('Lambda', ln, params=params, body=expr(e.body))
    return N('Unsupported', ln, what=type(e).__name__)


def stmts(body):
    out = []
    for s in body:
        out.extend(stmt(s))
    return out


def stmt(s):
    ln = getattr(s, 'lineno', 0)
    if isinstance(s, ast.Assign):
        return [N('Assign', ln, targets=[expr(t) for t in s.targets], value=expr(s.value))]
    if isinstance(s, ast.AnnAssign):
        if s.value is None:
            return []
        return [N('Assign', ln, targets=[expr(s.target)], value=expr(s.value))]
    if isinstance(s, ast.AugAssign):
        return [N('AugAssign', ln, op=_BIN[type(s.op)], target=expr(s.target), value=expr(s.value))]
    if isinstance(s, ast.Expr):
        if isinstance(s.value, ast.Constant) and isinstance(s.value.value, str):
            return []
        return [N('Expr', ln, e=expr(s.value))]
    if isinstance(s, ast.If):
        tests = [(expr(s.test), stmts(s.body))]
        orelse = s.orelse
        while len(orelse) == 1 and isinstance(orelse[0], ast.If):
            tests.append((expr(orelse[0].test), stmts(orelse[0].body)))
            orelse = orelse[0].orelse
        return [N('If', ln, tests=tests, orelse=stmts(orelse))]
    if isinstance(s, ast.For):
        return [N('For', ln, target=expr(s.target), iter=expr(s.iter), body=stmts(s.body), orelse=stmts(s.orelse))]
    if isinstance(s, ast.While):
        return [N('While', ln, cond=expr(s.test), body=stmts(s.body), orelse=stmts(s.orelse))]
    if isinstance(s, ast.Return):
        return [N('Return', ln, value=expr(s.value))]
    if isinstance(s, ast.Raise):
        e = s.exc
        if isinstance(e, ast.Call):
            val = expr(e.args[0]) if e.args else None
            return [N('Raise', ln, exc=expr(e.func), val=val)]
        return [N('Raise', ln, exc=expr(e), val=None)]
    if isinstance(s, ast.Pass):
        return [N('Pass', ln)]
    if isinstance(s, ast.Break):
        return [N('Break', ln)]
    if isinstance(s, ast.Continue):
        return [N('Continue', ln)]
    if isinstance(s, ast.Assert):
        return [N('Assert', ln, cond=expr(s.test), msg=expr(s.msg))]
    if isinstance(s, ast.Delete):
        return [N('Del', ln, targets=[expr(t) for t in s.targets])]
    if isinstance(s, ast.Global):
        return [N('Global', ln, names=list(s.names))]
    if isinstance(s, ast.Try):
        handlers = []
        for h in s.handlers:
            handlers.append((expr(h.type), h.name, stmts(h.body)))
        return [N('Try', ln, body=stmts(s.body), handlers=handlers, orelse=stmts(s.orelse), final=stmts(s.finalbody))]
    if isinstance(s, ast.With):
        return [N('With', ln, items=[(expr(i.context_expr), expr(i.optional_vars)) for i in s.items], body=stmts(s.body))]
    if isinstance(s, ast.Import):
        return [N('Import', ln, names=[(a.name, None, a.asname or a.name.split('.')[0]) for a in s.names])]
    if isinstance(s, ast.ImportFrom):
        return [N('Import', ln, names=[(s.module or '', a.name, a.asname or a.name) for a in s.names])]
    if isinstance(s, (ast.FunctionDef,)):
        return [N('FuncDef', ln, func=None, raw=s)]
    if isinstance(s, ast.ClassDef):
        return [N('ClassDef', ln, raw=s)]
    return [N('Unsupported', ln, what=type(s).__name__)]


def func_of(node, module, cls=None):
    a = node.args
    params = []
    pos = list(a.posonlyargs) + list(a.args)
    defaults = [None] * (len(pos) - len(a.defaults)) + list(a.defaults)
    for p, d in zip(pos, defaults):
        params.append((p.arg, ('py',), expr(d)))
    for p, d in zip(a.kwonlyargs, a.kw_defaults):
        params.append((p.arg, ('py',), expr(d)))
    decs = []
    for d in node.decorator_list:
        e = expr(d)
        decs.append(e.id if e.k == 'Name' else getattr(e, 'attr', '?'))
    return Func(node.name, (cls.name + '.' if cls else '') + node.name, 'py', params, ('py',), stmts(node.body),
                node.lineno, module, cls, decs, doc=ast.get_docstring(node),
                star=a.vararg.arg if a.vararg else None, starstar=a.kwarg.arg if a.kwarg else None)


def load_module(path, modname):
    m = Module(modname, path)
    with open(path) as fh:
        src = fh.read()
    m.source_lines = src.split('\n')
    tree = ast.parse(src, path)
    for st in tree.body:
        if isinstance(st, ast.FunctionDef):
            m.functions[st.name] = func_of(st, m)
        elif isinstance(st, ast.ClassDef):
            bases = []
            for b in st.bases:
                e = expr(b)
                bases.append(e.id if e.k == 'Name' else getattr(e, 'attr', '?'))
            c = Class(st.name, bases, m, st.lineno)
            for x in st.body:
                if isinstance(x, ast.FunctionDef):
                    c.methods[x.name] = func_of(x, m, c)
                else:
                    c.body.extend(stmt(x))
            m.classes[st.name] = c
        else:
            m.body.extend(stmt(st))
    return m
