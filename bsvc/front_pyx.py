"""Cython front end: the compiler's own parser (Cython.Compiler.Main.Context.parse) -> IR.

No type analysis phase is run; C types are read from the declarations.
"""
import os
from Cython.Compiler.Main import Context, CompilationOptions, default_options, FileSourceDescriptor
from Cython.Compiler import Nodes as CN, ExprNodes as CE

from .ir import N, Func, Class, Module

_ctx = None


def _context():
    global _ctx
    if _ctx is None:
        opts = CompilationOptions(default_options, language_level=2)
        _ctx = Context.from_options(opts)
    return _ctx


def parse_tree(path, modname):
    ctx = _context()
    src = FileSourceDescriptor(path)
    scope = ctx.find_module(modname, pos=(src, 1, 0), need_pxd=0)
    return ctx.parse(src, scope, pxd=path.endswith('.pxd'), full_module_name=modname)


def line_of(node):
    try:
        return node.pos[1]
    except Exception:
        return 0


# ------------------------------------------------------------------------------------------ types

def ctype_of(base_type, declarator=None):
    """(ctype, name) from a base type node and a declarator"""
    t = _base_ctype(base_type)
    name = None
    d = declarator
    while d is not None:
        cn = type(d).__name__
        if cn == 'CNameDeclaratorNode':
            name = d.name
            break
        elif cn == 'CPtrDeclaratorNode':
            t = ('ptr', t)
            d = d.base
        elif cn == 'CArrayDeclaratorNode':
            t = ('carray', t, d.dimension)
            d = d.base
        elif cn == 'CFuncDeclaratorNode':
            d = d.base
        elif cn == 'CReferenceDeclaratorNode':
            d = d.base
        else:
            break
    return t, name


_INT_NAMES = {'int': 32, 'long': 64, 'short': 16, 'char': 8, 'size_t': 64, 'Py_ssize_t': 64, 'uint64_t': 64,
              'int64_t': 64, 'uint32_t': 32, 'int32_t': 32, 'unsigned': 32}


def _base_ctype(bt):
    cn = type(bt).__name__
    if cn == 'CSimpleBaseTypeNode':
        name = bt.name
        if name is None:
            return ('py',)
        if bt.module_path:
            full = '.'.join(list(bt.module_path) + [name])
            if full in ('np.ndarray', 'numpy.ndarray'):
                return ('ndarray', None, None)
            if full in ('np.double_t', 'np.float64_t', 'np.float_t'):
                return ('double',)
            if full in ('np.int_t', 'np.int64_t', 'np.long_t'):
                return ('int', True, 64)
            return ('obj', name)
        if name == 'float':
            return ('double', 32)        # C float: single precision (a store into it rounds to 24 bits: 'conv' obligation)
        if name == 'double':
            return ('double',)
        if name == 'bint':
            return ('bint',)
        if name == 'void':
            return ('void',)
        if name == 'object':
            return ('py',)
        if name in ('list', 'dict', 'tuple', 'str', 'set', 'bytes', 'unicode'):
            return ('py', name)
        if name in _INT_NAMES and bt.is_basic_c_type:
            signed = bt.signed != 0
            bits = _INT_NAMES[name]
            if name == 'int' and bt.longness == 1:
                bits = 64
            if name == 'int' and bt.longness == 2:
                bits = 64
            if name == 'size_t' or name.startswith('uint'):
                signed = False
            return ('int', signed, bits)
        if name in _INT_NAMES:
            signed = not (name.startswith('u') or name == 'size_t')
            return ('int', signed, _INT_NAMES[name])
        if bt.is_basic_c_type:
            return ('int', bt.signed != 0, 32)
        return ('obj', name)
    if cn == 'TemplatedTypeNode':
        base = _base_ctype(bt.base_type_node)
        if base == ('obj', 'vector'):
            elem = bt.positional_args[0] if bt.positional_args else None
            et = _template_arg_type(elem)
            return ('vector', et)
        if base[0] == 'ndarray':
            ndim = None
            dtype = None
            if bt.positional_args:
                dtype = _template_arg_type(bt.positional_args[0])
            kw = bt.keyword_args
            if kw is not None:
                for item in kw.key_value_pairs:
                    if item.key.value == 'ndim':
                        ndim = int(item.value.value)
            return ('ndarray', ndim, dtype)
        return base
    if cn == 'MemoryViewSliceTypeNode':
        return ('memview', len(bt.axes), _base_ctype(bt.base_type_node))
    if cn == 'CComplexBaseTypeNode':
        t, _ = ctype_of(bt.base_type, bt.declarator)
        return t
    if cn == 'CConstOrVolatileTypeNode':
        return _base_ctype(bt.base_type)
    return ('py',)


def _template_arg_type(e):
    """template arguments are parsed as expressions or types"""
    cn = type(e).__name__
    if cn in ('CSimpleBaseTypeNode', 'TemplatedTypeNode', 'CComplexBaseTypeNode'):
        return _base_ctype(e)
    if cn == 'NameNode':
        nm = e.name
        if nm == 'float':
            return ('double', 32)
        if nm == 'double':
            return ('double',)
        if nm in _INT_NAMES:
            return ('int', nm not in ('unsigned', 'size_t'), _INT_NAMES[nm])
        if nm == 'void':
            return ('void',)
        return ('obj', nm)
    if cn == 'AttributeNode':
        if e.attribute in ('double_t', 'float64_t', 'float_t'):
            return ('double',)
        if e.attribute in ('int_t', 'int64_t'):
            return ('int', True, 64)
        return ('obj', e.attribute)
    if cn == 'CPtrTypeNode' or cn == 'CPtrDeclaratorNode':
        return ('ptr', ('void',))
    return ('py',)


# ------------------------------------------------------------------------------------------ expressions

_BINOPS = {'AddNode': '+', 'SubNode': '-', 'MulNode': '*', 'DivNode': '/', 'ModNode': '%', 'PowNode': '**',
           'IntBinopNode': None, 'BitwiseOrNode': '|', 'MatMultNode': '@'}


def expr(e):
    if e is None:
        return None
    cn = type(e).__name__
    ln = line_of(e)
    if cn == 'NameNode':
        return N('Name', ln, id=str(e.name))
    if cn == 'AttributeNode':
        return N('Attr', ln, obj=expr(e.obj), attr=str(e.attribute))
    if cn == 'IntNode':
        txt = str(e.value)
        try:
            v = int(txt, 0)
        except ValueError:
            v = int(txt.rstrip('uUlL'), 0)
        return N('Num', ln, v=v, isfloat=False, text=txt)
    if cn == 'FloatNode':
        return N('Num', ln, v=float(e.value), isfloat=True, text=str(e.value))
    if cn == 'BoolNode':
        return N('Const', ln, v=bool(e.value))
    if cn == 'NoneNode':
        return N('Const', ln, v=None)
    if cn == 'EllipsisNode':
        return N('Const', ln, v=Ellipsis)
    if cn in ('UnicodeNode', 'IdentifierStringNode', 'StringNode', 'BytesNode'):
        return N('Str', ln, s=str(e.value))
    if cn in _BINOPS or (hasattr(e, 'operand1') and hasattr(e, 'operand2') and hasattr(e, 'operator')
                         and cn not in ('PrimaryCmpNode', 'CascadedCmpNode', 'BoolBinopNode')):
        op = str(e.operator)
        if cn == 'DivNode' and op == '/':
            op = '/'
        return N('BinOp', ln, op=op, l=expr(e.operand1), r=expr(e.operand2))
    if cn == 'BoolBinopNode':
        return N('BoolOp', ln, op=str(e.operator), operands=[expr(e.operand1), expr(e.operand2)])
    if cn == 'NotNode':
        return N('UnOp', ln, op='not', e=expr(e.operand))
    if cn == 'UnaryMinusNode':
        return N('UnOp', ln, op='-', e=expr(e.operand))
    if cn == 'UnaryPlusNode':
        return N('UnOp', ln, op='+', e=expr(e.operand))
    if cn == 'TildeNode':
        return N('UnOp', ln, op='~', e=expr(e.operand))
    if cn == 'PrimaryCmpNode':
        ops = [str(e.operator)]
        operands = [expr(e.operand1), expr(e.operand2)]
        c = e.cascade
        while c is not None:
            ops.append(str(c.operator))
            operands.append(expr(c.operand2))
            c = c.cascade
        return N('Cmp', ln, ops=ops, operands=operands)
    if cn == 'IndexNode':
        return N('Index', ln, base=expr(e.base), index=expr(e.index))
    if cn == 'SliceIndexNode':
        return N('Index', ln, base=expr(e.base), index=N('Slice', ln, lo=expr(e.start), hi=expr(e.stop), step=None))
    if cn == 'SliceNode':
        return N('Slice', ln, lo=expr(e.start), hi=expr(e.stop), step=expr(e.step))
    if cn == 'SimpleCallNode':
        return N('Call', ln, func=expr(e.function), args=[expr(a) for a in e.args], kwargs=[], star=None, starstar=None)
    if cn == 'GeneralCallNode':
        args = []
        star = None
        pa = e.positional_args
        if type(pa).__name__ == 'TupleNode':
            args = [expr(a) for a in pa.args]
        elif type(pa).__name__ == 'AsTupleNode':
            star = expr(pa.arg)
        else:
            star = expr(pa)
        kwargs = []
        starstar = None
        ka = e.keyword_args
        if ka is not None:
            if type(ka).__name__ == 'DictNode':
                for item in ka.key_value_pairs:
                    kwargs.append((str(item.key.value), expr(item.value)))
            elif type(ka).__name__ == 'MergedDictNode':
                for sub in ka.keyword_args:
                    if type(sub).__name__ == 'DictNode':
                        for item in sub.key_value_pairs:
                            kwargs.append((str(item.key.value), expr(item.value)))
                    else:
                        starstar = expr(sub)
            else:
                starstar = expr(ka)
        return N('Call', ln, func=expr(e.function), args=args, kwargs=kwargs, star=star, starstar=starstar)
    if cn == 'TupleNode':
        return N('Tuple', ln, elts=[expr(a) for a in e.args])
    if cn == 'ListNode':
        n = N('List', ln, elts=[expr(a) for a in e.args])
        if getattr(e, 'mult_factor', None) is not None:
            return N('BinOp', ln, op='*', l=n, r=expr(e.mult_factor))
        return n
    if cn == 'SetNode':
        return N('Set', ln, elts=[expr(a) for a in e.args])
    if cn == 'DictNode':
        return N('Dict', ln, keys=[expr(i.key) for i in e.key_value_pairs], vals=[expr(i.value) for i in e.key_value_pairs])
    if cn == 'TypecastNode':
        t, _ = ctype_of(e.base_type, e.declarator)
        return N('Cast', ln, ctype=t, e=expr(e.operand), typecheck=bool(e.typecheck))
    if cn == 'AmpersandNode':
        return N('Addr', ln, e=expr(e.operand))
    if cn == 'CondExprNode':
        return N('IfExp', ln, c=expr(e.test), a=expr(e.true_val), b=expr(e.false_val))
    if cn == 'ComprehensionNode':
        return _comprehension(e)
    if cn == 'JoinedStrNode':
        return N('JoinedStr', ln, parts=[expr(v) for v in e.values])
    if cn == 'FormattedValueNode':
        return N('Format', ln, e=expr(e.value), spec=expr(e.format_spec) if e.format_spec is not None else None,
                 conv=e.conversion_char)
    if cn == 'LambdaNode':
        return N('Unsupported', ln, what='LambdaNode')
    if cn == 'StarredUnpackingNode':
        return N('Starred', ln, e=expr(e.target))
    return N('Unsupported', ln, what=cn)


def _comprehension(e):
    ln = line_of(e)
    gens = []
    node = e.loop
    elt = key = None
    ckind = 'list'
    while True:
        cn = type(node).__name__
        if cn == 'ForInStatNode':
            gens.append([expr(node.target), expr(node.iterator.sequence), []])
            node = node.body
        elif cn == 'IfStatNode':
            gens[-1][2].append(expr(node.if_clauses[0].condition))
            node = node.if_clauses[0].body
        elif cn == 'StatListNode' and len(node.stats) == 1:
            node = node.stats[0]
        elif cn == 'ExprStatNode':
            node = node.expr
        elif cn == 'ComprehensionAppendNode':
            elt = expr(node.expr)
            break
        elif cn == 'DictComprehensionAppendNode':
            key = expr(node.dict_item.key)
            elt = expr(node.dict_item.value)
            ckind = 'dict'
            break
        else:
            return N('Unsupported', ln, what='comprehension:' + cn)
    tn = str(getattr(e, 'type', ''))
    if 'set' in tn:
        ckind = 'set'
    return N('Comp', ln, ckind=ckind, elt=elt, key=key, gens=[tuple(g) for g in gens])


# ------------------------------------------------------------------------------------------ statements

def stmts(node):
    """list of IR statements for a statement node"""
    if node is None:
        return []
    cn = type(node).__name__
    ln = line_of(node)
    if cn == 'StatListNode':
        out = []
        for s in node.stats:
            out.extend(stmts(s))
        return out
    if cn == 'SingleAssignmentNode':
        if type(node.rhs).__name__ == 'ImportNode':
            mn = str(node.rhs.module_name.value)
            tgt = expr(node.lhs)
            return [N('Import', ln, names=[(mn, None, tgt.id if tgt.k == 'Name' else mn.split('.')[0])])]
        return [N('Assign', ln, targets=[expr(node.lhs)], value=expr(node.rhs))]
    if cn == 'CascadedAssignmentNode':
        return [N('Assign', ln, targets=[expr(x) for x in node.lhs_list], value=expr(node.rhs))]
    if cn == 'ParallelAssignmentNode':
        out = []
        for s in node.stats:
            out.extend(stmts(s))
        return [N('Unsupported', ln, what='ParallelAssignmentNode')]
    if cn == 'InPlaceAssignmentNode':
        return [N('AugAssign', ln, op=str(node.operator), target=expr(node.lhs), value=expr(node.rhs))]
    if cn == 'CVarDefNode':
        out = []
        for d in node.declarators:
            t, name = ctype_of(node.base_type, d)
            dd = d
            while type(dd).__name__ != 'CNameDeclaratorNode' and hasattr(dd, 'base'):
                dd = dd.base
            init = expr(dd.default) if getattr(dd, 'default', None) is not None else None
            out.append(N('CDecl', ln, ctype=t, name=str(name), init=init))
        return out
    if cn == 'ExprStatNode':
        e = node.expr
        if type(e).__name__ in ('UnicodeNode', 'StringNode', 'BytesNode'):
            return []   # docstring / bare string
        return [N('Expr', ln, e=expr(e))]
    if cn == 'IfStatNode':
        tests = [(expr(c.condition), stmts(c.body)) for c in node.if_clauses]
        return [N('If', ln, tests=tests, orelse=stmts(node.else_clause))]
    if cn == 'ForInStatNode':
        return [N('For', ln, target=expr(node.target), iter=expr(node.iterator.sequence), body=stmts(node.body),
                  orelse=stmts(node.else_clause))]
    if cn == 'ForFromStatNode':
        return [N('Unsupported', ln, what=cn)]
    if cn == 'WhileStatNode':
        return [N('While', ln, cond=expr(node.condition), body=stmts(node.body), orelse=stmts(node.else_clause))]
    if cn == 'ReturnStatNode':
        return [N('Return', ln, value=expr(node.value))]
    if cn == 'RaiseStatNode':
        return [N('Raise', ln, exc=expr(node.exc_type), val=expr(node.exc_value))]
    if cn == 'ReraiseStatNode':
        return [N('Raise', ln, exc=None, val=None)]
    if cn == 'PassStatNode':
        return [N('Pass', ln)]
    if cn == 'BreakStatNode':
        return [N('Break', ln)]
    if cn == 'ContinueStatNode':
        return [N('Continue', ln)]
    if cn == 'PrintStatNode':
        return [N('Print', ln)]
    if cn == 'AssertStatNode':
        return [N('Assert', ln, cond=expr(node.condition), msg=expr(node.value))]
    if cn == 'DelStatNode':
        return [N('Del', ln, targets=[expr(a) for a in node.args])]
    if cn == 'GlobalNode':
        return [N('Global', ln, names=[str(x) for x in node.names])]
    if cn == 'TryExceptStatNode':
        handlers = []
        for h in node.except_clauses:
            pats = h.pattern
            if pats is None:
                te = None
            elif isinstance(pats, list):
                te = [expr(p) for p in pats]
                te = te[0] if len(te) == 1 else N('Tuple', ln, elts=te)
            else:
                te = expr(pats)
            tgt = expr(h.target) if h.target is not None else None
            handlers.append((te, tgt.id if tgt is not None and tgt.k == 'Name' else None, stmts(h.body)))
        return [N('Try', ln, body=stmts(node.body), handlers=handlers, orelse=stmts(node.else_clause), final=[])]
    if cn == 'TryFinallyStatNode':
        inner = stmts(node.body)
        if len(inner) == 1 and inner[0].k == 'Try':
            t = inner[0]
            return [N('Try', ln, body=t.body, handlers=t.handlers, orelse=t.orelse, final=stmts(node.finally_clause))]
        return [N('Try', ln, body=inner, handlers=[], orelse=[], final=stmts(node.finally_clause))]
    if cn == 'WithStatNode':
        return [N('With', ln, items=[(expr(node.manager), expr(node.target) if node.target is not None else None)],
                  body=stmts(node.body))]
    if cn == 'FromImportStatNode':
        mn = str(node.module.module_name.value)
        names = []
        for (nm, tgt) in node.items:
            t = expr(tgt)
            names.append((mn, str(nm), t.id if t.k == 'Name' else str(nm)))
        return [N('Import', ln, names=names)]
    if cn in ('CImportStatNode', 'FromCImportStatNode'):
        return [N('Import', ln, names=[])]
    if cn in ('DefNode', 'CFuncDefNode'):
        return [N('FuncDef', ln, func=None, raw=node)]
    if cn in ('CEnumDefNode', 'CTypeDefNode', 'CStructOrUnionDefNode', 'CDefExternNode', 'DecoratorNode'):
        return []
    if cn in ('CClassDefNode', 'PyClassDefNode'):
        return [N('ClassDef', ln, raw=node)]
    return [N('Unsupported', ln, what=cn)]


# ------------------------------------------------------------------------------------------ declarations

def _params(args, is_def):
    out = []
    for a in args:
        t, name = ctype_of(a.base_type, a.declarator)
        if not name:
            # untyped argument: the "type" is the name
            bt = a.base_type
            name = getattr(bt, 'name', None)
            t = ('py',)
        default = expr(a.default) if a.default is not None else None
        out.append((str(name), t, default))
    return out


def _decorator_names(decs):
    out = []
    for d in decs or []:
        e = expr(d.decorator)
        if e.k == 'Name':
            out.append(e.id)
        elif e.k == 'Attr':
            out.append(e.attr)
        elif e.k == 'Call':
            f = e.func
            out.append(f.id if f.k == 'Name' else getattr(f, 'attr', '?'))
    return out


def func_of(node, module, cls=None):
    cn = type(node).__name__
    ln = line_of(node)
    if cn == 'DefNode':
        name = str(node.name)
        params = _params(node.args, True)
        star = str(node.star_arg.name) if node.star_arg is not None else None
        starstar = str(node.starstar_arg.name) if node.starstar_arg is not None else None
        f = Func(name, (cls.name + '.' if cls else '') + name, 'def', params, ('py',), stmts(node.body), ln, module, cls,
                 _decorator_names(node.decorators), star=star, starstar=starstar)
        return f
    if cn == 'CFuncDefNode':
        d = node.declarator
        ret, _ = ctype_of(node.base_type, None)
        # pointer return types: declarator chain CPtrDeclaratorNode(CFuncDeclaratorNode(...))
        fd = d
        ptr_depth = 0
        while type(fd).__name__ != 'CFuncDeclaratorNode':
            if type(fd).__name__ == 'CPtrDeclaratorNode':
                ptr_depth += 1
            fd = fd.base
        for _ in range(ptr_depth):
            ret = ('ptr', ret)
        nd = fd.base
        while type(nd).__name__ != 'CNameDeclaratorNode':
            if type(nd).__name__ == 'CPtrDeclaratorNode':
                ret = ('ptr', ret)
            nd = nd.base
        name = str(nd.name)
        params = _params(fd.args, False)
        kind = 'cpdef' if node.overridable else 'cdef'
        body = stmts(node.body) if node.body is not None else None
        return Func(name, (cls.name + '.' if cls else '') + name, kind, params, ret, body, ln, module, cls,
                    _decorator_names(getattr(node, 'decorators', None)))
    raise TypeError(cn)


def load_module(path, modname, pxd_path=None):
    """parse a .pyx (and its .pxd) into a Module"""
    m = Module(modname, path)
    with open(path) as fh:
        m.source_lines = fh.read().split('\n')
    for ln in m.source_lines[:20]:
        s = ln.strip()
        if s.startswith('# cython:'):
            k, _, v = s[len('# cython:'):].partition('=')
            m.directives[k.strip()] = v.strip()
    if pxd_path and os.path.exists(pxd_path):
        _load_tree(parse_tree(pxd_path, modname), m, from_pxd=True)
    _load_tree(parse_tree(path, modname), m, from_pxd=False)
    return m


def _load_tree(tree, m, from_pxd):
    body = tree.body
    for st in (body.stats if type(body).__name__ == 'StatListNode' else [body]):
        _load_top(st, m, from_pxd)


def _load_top(st, m, from_pxd):
    cn = type(st).__name__
    if cn == 'StatListNode':
        for s in st.stats:
            _load_top(s, m, from_pxd)
        return
    if cn == 'CClassDefNode' or cn == 'PyClassDefNode':
        name = str(st.class_name if cn == 'CClassDefNode' else st.name)
        bases = []
        b = st.bases
        if b is not None:
            for x in getattr(b, 'args', []):
                e = expr(x)
                bases.append(e.id if e.k == 'Name' else e.attr if e.k == 'Attr' else '?')
        cls = m.classes.get(name)
        if cls is None:
            cls = Class(name, bases, m, line_of(st))
            m.classes[name] = cls
        elif bases and not cls.bases:
            cls.bases = bases
        if not from_pxd:
            cls.line = line_of(st)
            cls.decorators = _decorator_names(getattr(st, 'decorators', None))
        _load_class_body(st.body, cls, m, from_pxd)
        return
    if cn in ('DefNode', 'CFuncDefNode'):
        f = func_of(st, m)
        if f.body is not None or f.name not in m.functions:
            m.functions[f.name] = f
        return
    if cn == 'CVarDefNode':
        for d in st.declarators:
            t, name = ctype_of(st.base_type, d)
            m.globals_ctypes[str(name)] = t
            dd = d
            while type(dd).__name__ != 'CNameDeclaratorNode' and hasattr(dd, 'base'):
                dd = dd.base
            if getattr(dd, 'default', None) is not None:
                if not hasattr(m, 'global_inits'):
                    m.global_inits = {}
                m.global_inits[str(name)] = expr(dd.default)
        return
    if cn == 'CDefExternNode':
        return
    if cn == 'CEnumDefNode':
        items = {}
        nxt = 0
        for it in st.items:
            if it.value is not None:
                e = expr(it.value)
                if e.k == 'Num':
                    nxt = e.v
                elif e.k == 'UnOp' and e.op == '-' and e.e.k == 'Num':
                    nxt = -e.e.v
            items[str(it.name)] = nxt
            nxt += 1
        if not hasattr(m, 'enums'):
            m.enums = {}
        m.enums[str(st.name)] = items
        return
    m.body.extend(stmts(st))


def _has_func_declarator(d):
    while d is not None:
        if type(d).__name__ == 'CFuncDeclaratorNode':
            return True
        d = getattr(d, 'base', None)
    return False


def _load_class_body(body, cls, m, from_pxd):
    if body is None:
        return
    sts = body.stats if type(body).__name__ == 'StatListNode' else [body]
    for st in sts:
        cn = type(st).__name__
        if cn == 'StatListNode':
            _load_class_body(st, cls, m, from_pxd)
        elif cn == 'CVarDefNode':
            for d in st.declarators:
                if _has_func_declarator(d):
                    continue     # method declaration in a .pxd
                t, name = ctype_of(st.base_type, d)
                cls.fields[str(name)] = t
        elif cn in ('DefNode', 'CFuncDefNode'):
            f = func_of(st, m, cls)
            if f.body is not None:
                cls.methods[f.name] = f
            elif f.name not in cls.methods:
                cls.methods[f.name] = f      # declaration only (pxd)
            elif cls.methods[f.name].body is not None and from_pxd:
                pass
        elif cn in ('PassStatNode',):
            pass
        else:
            cls.body.extend(stmts(st))
