"""Property check driver:  ./check Cxx [--tier quick|thorough] [--replay FILE] [--update-lock]

exit 0 held (or only KNOWN-FINDINGs) / 1 VIOLATION / 2 UNDECIDED / 3 CHECKER-ERROR
"""
import argparse
import importlib
import json
import multiprocessing as mp
import os
import sys
import time
import traceback

ROOT = os.path.dirname(os.path.dirname(os.path.abspath(__file__)))
if ROOT not in sys.path:
    sys.path.insert(0, ROOT)

from bsvc import contracts as C, verify, lemmas as L, axioms, terms as tm      # noqa
from bsvc.program import Program, repo_root                                     # noqa
from bsvc.values import Unsupported                                             # noqa

DROPPED_BY_EXTRACTION = [
    'docstrings and comments',
    'print / logging.* / warnings.warn / sys.stderr.write calls (their output is dropped; argument expressions containing an operator or a call are evaluated for the exceptions they can raise, what is outside the subset inside them is ignored); an `if` statement whose only body is such a call and whose test is outside the subset is dropped with it',
    'import and cimport statements (names resolve through a fixed table of known modules)',
    'GIL / nogil annotations, reference counting, allocation failure',
    'pointer-view casts of one buffer (<double*> a.data is the array a); value-changing casts are kept',
    'decorators other than @staticmethod',
]
ENCODING_ASSUMPTIONS = [
    'double / Python float arithmetic is treated as mathematical real arithmetic (no rounding, no overflow); NaN/inf only as explicit values where the code produces or tests them',
    'C integers are mathematical integers; the only conversion obligation is "value stored into unsigned is non-negative"; real->int stores truncate toward zero',
    'cdivision: int/int truncates, % is the C remainder; / on Python objects is true division',
    'every array subscript yields a bounds obligation (the extension is compiled with boundscheck=False)',
    'object graph: concrete shape with symbolic leaves; two distinct symbolic array/object inputs do not alias unless the contract says so',
    'partial correctness: termination is not proved except for for-range loops',
]

_P = None
_PID = None
_TIER = 'quick'


def _load_prop(pid):
    pm = importlib.import_module('props.' + pid)
    for m in getattr(pm, 'CONTRACT_MODULES', []):
        importlib.import_module('contracts.' + m)
    for m in getattr(pm, 'SPEC_MODULES', []):
        importlib.import_module('spec.' + m)
    return pm


def _record(ob, r, with_text=False):
    rec = dict(fuc=ob.fuc, kind=ob.kind, label=ob.label, line=ob.line, note=ob.note, status=r['status'],
               backend=r['backend'], seconds=round(r['seconds'], 4), tried=r.get('tried', []),
               must_be_sat=ob.must_be_sat, path=''.join('T' if d else 'F' for d in ob.path))
    if with_text or r['status'] != 'unsat':
        rec['text'] = ob.text
    return rec


def _verify_one(key):
    """worker: verify + discharge one FUC (or lemma); returns plain data"""
    t0 = time.time()
    try:
        budget = 10 if _TIER == 'quick' else 60
        allb = _TIER != 'quick'
        if key[0] == '__lemma__':
            lem = [l for l in L.LEMMAS if l.name == key[1]][0]
            obs = L.obligations_of(_P, lem)
            rs, used = verify.discharge_all(obs, budget=budget, all_backends=allb, workers=1)
            return dict(key=key, fid='lemma::' + lem.name, paths=1, undecided=[], errors=[], source_hash=None,
                        line=0, file='(spec)', records=[_record(o, r, True) for o, r in zip(obs, rs)],
                        axioms=sorted(used), assumed=[], dropped={}, seconds=time.time() - t0, outcomes={},
                        assumes=[], notes=[lem.note] if lem.note else [])
        c = C.REGISTRY[key]
        res = verify.verify_contract(_P, c)
        rs, used = verify.discharge_all(res.obligations, budget=budget, all_backends=allb, workers=1)
        recs = []
        for i, (o, r) in enumerate(zip(res.obligations, rs)):
            recs.append(_record(o, r, with_text=(i < 400 and o.kind in ('post', 'inv-keep', 'lemma', 'step', 'compose'))))
        return dict(key=key, fid=c.fid, paths=res.paths, undecided=res.undecided, errors=res.errors,
                    source_hash=res.source_hash, line=getattr(res, 'func_line', 0), file=getattr(res, 'func_file', ''),
                    records=recs, axioms=sorted(used), assumed=sorted(res.assumed), dropped=res.dropped,
                    seconds=time.time() - t0, outcomes=res.outcomes,
                    assumes=[(lab, txt, reason) for (lab, _, txt, reason) in c.assume_] +
                            [(lab, txt, 'definitional clause (introduces the symbol as the value this function returns)') for (lab, _, txt) in c.defines_],
                    notes=list(c.notes), bounded_cuts=getattr(res, 'bounded_cuts', 0),
                    abstract=c.abstract, verify_body=c.verify_body)
    except Exception as e:
        return dict(key=key, fid=str(key), paths=0, undecided=[], errors=['worker crash: %s\n%s' % (e, traceback.format_exc())],
                    source_hash=None, line=0, file='', records=[], axioms=[], assumed=[], dropped={}, seconds=time.time() - t0,
                    outcomes={}, assumes=[], notes=[])


def load_known():
    p = os.path.join(ROOT, 'known_findings.json')
    if not os.path.exists(p):
        return []
    with open(p) as fh:
        return json.load(fh)


def match_finding(known, pid, rec):
    for k in known:
        if k.get('kind') != 'finding' or k.get('property') != pid:
            continue
        if k.get('fuc') and k['fuc'] != rec['fuc']:
            continue
        if k.get('fuc_prefix') and not rec['fuc'].startswith(k['fuc_prefix']):
            continue
        if k.get('obligation_kind') and k['obligation_kind'] != rec['kind']:
            continue
        if k.get('label') and k['label'] not in (rec['label'] or ''):
            continue
        return k
    return None


def load_lock():
    p = os.path.join(ROOT, 'obligations.lock.json')
    if not os.path.exists(p):
        return {}
    with open(p) as fh:
        return json.load(fh)


def ob_key(rec):
    return '%s|%s|%s' % (rec['fuc'], rec['kind'], rec['label'])


def run(pid, tier, seed, update_lock=False, verbose=False, only=None):
    global _P, _PID, _TIER
    t0 = time.time()
    _TIER = tier
    _PID = pid
    pm = _load_prop(pid)
    _P = Program()
    # preload the modules the contracts touch (so forked workers share the parse)
    keys = [c.key for c in C.contracts_for(pid) if c.verify_body or True]
    # contracts marked opt(tier='thorough') (bounded, expensive explorations) run in the thorough tier, or when named with --only
    if tier != 'thorough' and not only:
        keys = [k for k in keys if C.REGISTRY[k].opts.get('tier') != 'thorough']
    if only:
        keys = [k for k in keys if only in (k[1] + '@' + k[2])]
    for k in keys:
        try:
            _P.module(k[0])
        except Exception:
            pass
    for mn in getattr(pm, 'PRELOAD', []):
        _P.module(mn)
    lem_keys = [('__lemma__', l.name) for l in L.lemmas_for(pid)]
    if only:
        lem_keys = [k for k in lem_keys if only in k[1]]
    tasks = keys + lem_keys
    results = []
    if tasks:
        nproc = min(16, len(tasks), os.cpu_count() or 4)
        if nproc <= 1 or os.environ.get('BSVC_SERIAL'):
            results = [_verify_one(k) for k in tasks]
        else:
            ctx = mp.get_context('fork')
            with ctx.Pool(nproc) as pool:
                results = pool.map(_verify_one, tasks, chunksize=1)
    # ------------------------------------------------------------------ classify
    known = load_known()
    lock = load_lock().get(pid, {})
    n_obl = n_dis = 0
    covers = covers_sat = 0
    refuted, undecided, errors, vacuous = [], [], [], []
    known_hits = []
    by_backend = {}
    kinds = {}
    fuc_rows = []
    axioms_used = set()
    assumed_contracts = set()
    assumes = []
    samples = []
    dropped = {'print': 0, 'warn': 0, 'log': 0}
    for r in results:
        for e in r['errors']:
            errors.append('%s: %s' % (r['fid'], e))
        for u in r['undecided']:
            undecided.append('%s: %s' % (r['fid'], u))
        axioms_used.update(r['axioms'])
        assumed_contracts.update(r['assumed'])
        for a in r['assumes']:
            assumes.append('%s: assumed %s -- %s' % (r['fid'], a[1], a[2]))
        for k, v in (r['dropped'] or {}).items():
            dropped[k] = dropped.get(k, 0) + v
        nf = df = 0
        for rec in r['records']:
            if rec['must_be_sat']:
                covers += 1
                if rec['status'] == 'sat':
                    covers_sat += 1
                elif rec['status'] == 'unsat' and rec['label'] in ('pre', 'hyps'):
                    vacuous.append('%s: precondition/hypotheses unsatisfiable' % r['fid'])
                continue
            n_obl += 1
            nf += 1
            kinds[rec['kind']] = kinds.get(rec['kind'], 0) + 1
            be = rec['backend'] or 'none'
            b = by_backend.setdefault(be, {'count': 0, 'seconds': 0.0})
            b['count'] += 1
            b['seconds'] = round(b['seconds'] + rec['seconds'], 4)
            if rec['status'] == 'unsat':
                n_dis += 1
                df += 1
                if len(samples) < 3 and rec.get('text') and rec['kind'] in ('post', 'inv-keep', 'lemma'):
                    samples.append(dict(obligation=ob_key(rec), clause=rec['note'], answer='unsat', backend=rec['backend'],
                                        smtlib=rec['text'][:4000]))
            elif rec['status'] == 'sat':
                kf = match_finding(known, pid, rec)
                if kf is not None:
                    known_hits.append((kf, rec))
                    n_obl -= 1          # reported separately (coverage.refuted_as_known_finding), not among the proved ones
                    nf -= 1
                else:
                    refuted.append(rec)
            elif rec['status'] == 'disagree':
                errors.append('%s: back ends disagree on %s' % (r['fid'], ob_key(rec)))
            else:
                undecided.append('%s: solver %s on %s (line %s)' % (r['fid'], rec['status'], ob_key(rec), rec['line']))
        # a FUC whose every path ended early has no path-end cover that is sat
        pe = [x for x in r['records'] if x['must_be_sat'] and x['label'] == 'path-end']
        if r['records'] and r['key'][0] != '__lemma__' and r.get('verify_body', True) and pe and all(x['status'] == 'unsat' for x in pe) \
                and not r['undecided'] and not r['errors']:
            vacuous.append('%s: no feasible path reaches the end of the function' % r['fid'])
        fuc_rows.append(dict(function=r['fid'], file=os.path.relpath(r['file'], repo_root()) if r['file'] and r['file'] != '(spec)' else r['file'],
                             line=r['line'], source_sha1=r['source_hash'], paths=r['paths'], obligations=nf, discharged=df,
                             seconds=round(r['seconds'], 2), outcomes=r['outcomes']))
    if (not tasks or n_obl == 0) and not undecided:
        errors.append('zero obligations generated for %s' % pid)
    # lock: obligations that used to be discharged and have disappeared
    if lock and not update_lock and not only:
        have = {}
        for r in results:
            for rec in r['records']:
                if not rec['must_be_sat']:
                    have[ob_key(rec)] = have.get(ob_key(rec), 0) + 1
        have_fucs = set(r['fid'] for r in results if r['records'])
        for fid in lock.get('fucs', []):
            if fid not in have_fucs:
                undecided.append('%s: function under contract produced no obligations (was in the lock)' % fid)
    # ------------------------------------------------------------------ violations: replay
    violations = []
    if refuted:
        from bsvc import replay
        violations = replay.handle_refuted(pid, pm, refuted, seed, lock)
    # ------------------------------------------------------------------ evidence
    level = getattr(pm, 'LEVEL', 'proof')
    bounded = []
    if tier == 'thorough' and getattr(pm, 'NATIVE_SWEEPS', None) and repo_root() == '/repo' and not only:
        # bounded stand-in (labelled bounded, never counted as proved): the native runtime-contract sweep on a scratch build
        from bsvc import replay
        for name, sw in pm.NATIVE_SWEEPS.items():
            for sd in (seed, seed + 1, seed + 2):
                try:
                    r = replay.run_native(sw(sd, None), timeout=1500)
                except Exception as e:
                    r = dict(ok=False, error=str(e))
                entry = dict(kind='native runtime-contract sweep (bounded)', sweep=name, seed=sd, result=r)
                bounded.append(entry)
                if r.get('ok') and r['result'].get('reproduced'):
                    fn = os.path.join(ROOT, 'out', 'replay', '%s-native-sweep-%d.json' % (pid, sd))
                    os.makedirs(os.path.dirname(fn), exist_ok=True)
                    with open(fn, 'w') as fh:
                        json.dump(dict(property=pid, obligation='native-sweep', native=r), fh, indent=1, default=str)
                    violations.append('VIOLATION property=%s replay=%s obligation=native-runtime-contract-sweep' % (pid, fn))
        replay.cleanup_scratch()
    for r in results:
        if r.get('bounded_cuts'):
            bounded.append(dict(kind='bounded unrolling (labelled bounded, not counted as proved beyond the bound)', function=r['fid'],
                                paths_cut_at_the_bound=r['bounded_cuts']))
    selftest = None
    if tier == 'thorough' and repo_root() == '/repo' and not only and not os.environ.get('BSVC_NO_SELFTEST'):
        # engine self-test for this property: registered source mutants / seeded changes must be refuted, neutral edits must hold
        try:
            import importlib.util
            spec_ = importlib.util.spec_from_file_location('bsvc_selftest', os.path.join(ROOT, 'tools', 'selftest.py'))
            st = importlib.util.module_from_spec(spec_)
            spec_.loader.exec_module(st)
            rows = []
            env_keep = os.environ.get('BSVC_NO_SELFTEST')
            os.environ['BSVC_NO_SELFTEST'] = '1'
            try:
                for e in st.entries(pid, True):
                    rows.append(st.one(e))
            finally:
                if env_keep is None:
                    os.environ.pop('BSVC_NO_SELFTEST', None)
            selftest = dict(entries=len(rows), as_expected=sum(1 for r in rows if r['ok']), skipped=sum(1 for r in rows if r['ok'] is None),
                            mismatches=[r for r in rows if r['ok'] is False], rows=rows)
            for r in selftest['mismatches']:
                errors.append('engine self-test: %s expected %s, got %s' % (r['id'], r.get('expect'), r['got']))
        except Exception as e:
            selftest = dict(error=str(e))
    wall = time.time() - t0
    trusted = list(getattr(pm, 'TRUSTED', []))
    trusted += ['bsvc VC generator and encoding (DESIGN 3.3)', 'SMT back ends z3 5.1.0 (in-process), z3 4.8.12, cvc5 1.0.3']
    trusted += ['axiom schema %s: %s' % (a, axioms.DESCRIPTIONS.get(a, '')) for a in sorted(axioms_used)]
    trusted += ['assumed callee contract: %s' % a for a in sorted(assumed_contracts)
                if a not in set(r['fid'] for r in results)]
    ev = dict(
        property_id=pid, tier=tier, seed=seed, level=level,
        coverage=dict(
            obligations=n_obl, discharged=n_dis,
            checker_cmd='./check %s --tier %s' % (pid, tier),
            trusted_base=trusted,
            samples=samples or [dict(note='no discharged post/invariant obligation to show')],
            functions_under_contract=fuc_rows,
            kinds=kinds, by_backend=by_backend,
            covers=dict(run=covers, satisfiable=covers_sat),
            refuted=[dict(obligation=ob_key(r), line=r['line'], clause=r['note']) for r in refuted],
            refuted_as_known_finding=len(known_hits),
            known_findings_reported=[dict(obligation=ob_key(rec), what=k.get('what')) for k, rec in known_hits],
            undecided=undecided, outside_subset=[u for u in undecided if 'outside-subset' in u],
            dropped_by_extraction=dict(rules=DROPPED_BY_EXTRACTION, measured_calls_dropped=dropped),
            bounded=bounded,
            engine_selftest=selftest,
            explanation=getattr(pm, 'EXPLANATION', ''),
            repo_root=repo_root(),
        ),
        assumptions=ENCODING_ASSUMPTIONS + list(getattr(pm, 'ASSUMPTIONS', [])) + assumes,
        wall_s=round(wall, 2), violations=len(violations))
    # runs against a scratch copy of the sources (BSVC_REPO) or a subset (--only) never overwrite the registered evidence
    evdir = os.path.join(ROOT, 'evidence') if (repo_root() == '/repo' and not only) else os.path.join(ROOT, 'out', 'evidence-scratch')
    os.makedirs(evdir, exist_ok=True)
    with open(os.path.join(evdir, pid + '.json'), 'w') as fh:
        json.dump(ev, fh, indent=1, default=str)
    if update_lock and not errors and not undecided:
        lk = load_lock()
        lk[pid] = dict(fucs=sorted(set(r['fid'] for r in results if r['records'])),
                       discharged=sorted(set(ob_key(rec) for r in results for rec in r['records']
                                             if not rec['must_be_sat'] and rec['status'] == 'unsat')))
        with open(os.path.join(ROOT, 'obligations.lock.json'), 'w') as fh:
            json.dump(lk, fh, indent=1, sort_keys=True)
    # ------------------------------------------------------------------ verdict
    for k, rec in known_hits:
        print('KNOWN-FINDING: property=%s %s [%s]' % (pid, k.get('what', ''), ob_key(rec)))
    if verbose:
        for row in fuc_rows:
            print('  %-70s paths=%-3d obl=%-3d dis=%-3d %.1fs' % (row['function'], row['paths'], row['obligations'],
                                                               row['discharged'], row['seconds']))
    if errors or vacuous:
        for e in errors + vacuous:
            print('CHECKER-ERROR %s' % e.split('\n')[0])
            if verbose:
                print(e)
        return 3
    if violations:
        for v in violations:
            print(v)
        return 1
    if undecided:
        for u in undecided[:20]:
            print('UNDECIDED property=%s obligation=%s' % (pid, u))
        return 2
    print('HELD property=%s obligations=%d discharged=%d functions=%d wall=%.1fs' % (pid, n_obl, n_dis, len(fuc_rows), wall))
    return 0


def main(argv=None):
    ap = argparse.ArgumentParser()
    ap.add_argument('prop')
    ap.add_argument('--tier', default=os.environ.get('VERIF_TIER', 'quick'))
    ap.add_argument('--replay')
    ap.add_argument('--update-lock', action='store_true')
    ap.add_argument('-v', '--verbose', action='store_true')
    ap.add_argument('--only')
    a = ap.parse_args(argv)
    seed = int(os.environ.get('VERIF_SEED', '0') or 0)
    if a.replay:
        from bsvc import replay
        return replay.replay_file(a.prop, a.replay)
    try:
        return run(a.prop, a.tier, seed, a.update_lock, a.verbose, a.only)
    except Exception as e:
        print('CHECKER-ERROR %s' % e)
        traceback.print_exc()
        return 3


if __name__ == '__main__':
    sys.exit(main())
