"""Optional models (pandas, libsbml, sympy records ...) installed into an executor.  Filled by spec/ modules."""
INSTALLERS = []


def install(ex):
    for fn in INSTALLERS:
        fn(ex)
