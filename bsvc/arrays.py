"""Array operations on Arr values (ndarray / memoryview / pointer / vector), including views."""
from . import terms as tm
from .terms import T, REAL, INT, BOOL
from .values import *      # noqa


class View(object):
    """a writable window into a parent Arr: fixed leading indices and/or an offset on the first free axis"""

    def __init__(self, parent, fixed, offset=None, length=None):
        self.parent = parent
        self.fixed = list(fixed)          # Int terms for leading axes
        self.offset = offset              # Int term added to the next axis index (pointer arithmetic / slices)
        self.length = length
        self.oid = parent.oid

    @property
    def name(self):
        return self.parent.name + '[view]'


def _index_list(ex, idx):
    """evaluate an index expression into a list of (kind, value): ('i', term) | ('s', lo, hi)"""
    items = idx.elts if idx.k == 'Tuple' else [idx]
    out = []
    for it in items:
        if it.k == 'Slice':
            lo = ex.eval(it.lo) if it.lo is not None else None
            hi = ex.eval(it.hi) if it.hi is not None else None
            st = ex.eval(it.step) if it.step is not None else None
            if st is not None and not (isinstance(st, int) and st == 1):
                raise Unsupported('strided slice')
            out.append(('s', lo, hi))
        else:
            v = ex.eval(it)
            if isinstance(v, tuple):
                for x in v:
                    out.append(('i', x))
            else:
                out.append(('i', v))
    return out


def index(ex, base, idx, line):
    if isinstance(base, ViewArr):
        return base.index(ex, idx, line)
    items = _index_list(ex, idx)
    if base.objs is not None:
        j = ex.concrete_int(items[0][1], 'object-array index')
        return base.objs[j]
    if all(k == 'i' for (k, *_) in items) and len(items) == base.ndim:
        t = base.term
        for d, (_, i) in enumerate(items):
            it = ex.norm_index(base, d, i, line)
            t = tm.select(t, it)
        if getattr(base, 'nan', None) is not None and base.ndim == 1 and not ex.in_spec:
            m = tm.select(base.nan, it)
            if ex.branch(m):
                return float('nan')
        return t
    # partial indexing / slices -> view
    return make_view(ex, base, items, line)


def make_view(ex, base, items, line):
    fixed = []
    d = 0
    for it in items:
        if it[0] == 'i':
            fixed.append(ex.norm_index(base, d, it[1], line))
            d += 1
        else:
            break
    rest = items[d:]
    offset = None
    length = base.shape[d] if d < base.ndim else None
    if rest:
        k, lo, hi = rest[0]
        if any(r[0] != 's' or r[1] is not None or r[2] is not None for r in rest[1:]):
            raise Unsupported('slice pattern (line %s)' % line)
        if lo is not None or hi is not None:
            n = to_term(base.shape[d])
            lo_t = to_term(lo) if lo is not None else tm.mk_int(0)
            hi_t = to_term(hi) if hi is not None else n
            if isinstance(lo, int) and lo < 0:
                lo_t = tm.add(n, tm.mk_int(lo))
            if isinstance(hi, int) and hi < 0:
                hi_t = tm.add(n, tm.mk_int(hi))
            # numpy clamps slice bounds; we require them in range (obligation) to keep the view exact
            ex.oblige('bounds', tm.and_(tm.le(tm.mk_int(0), lo_t), tm.le(lo_t, hi_t), tm.le(hi_t, n)), label=base.name,
                      line=line, note='slice bounds within the array')
            offset = lo_t
            length = tm.sub(hi_t, lo_t)
    return ViewArr(base, fixed, offset, length)


class ViewArr(Arr):
    """Arr-compatible view: reads and writes go to the parent"""

    def __init__(self, parent, fixed, offset, length):
        self.parent = parent
        self.fixed = list(fixed)
        self.offset = offset
        self._length = length
        self.elem = parent.elem
        self.kind = parent.kind
        self.name = parent.name
        self.refcls = parent.refcls
        self.oid = parent.oid
        self.objs = None

    @property
    def shape(self):
        k = len(self.fixed)
        sh = list(self.parent.shape[k:])
        if sh:
            sh[0] = self._length
        return sh

    @property
    def term(self):
        t = self.parent.term
        for i in self.fixed:
            t = tm.select(t, i)
        if self.offset is not None:
            raise Unsupported('whole-array read of an offset view')
        return t

    @term.setter
    def term(self, v):
        if self.offset is not None:
            raise Unsupported('whole-array write of an offset view')
        self.parent.term = _store_path(self.parent.term, self.fixed, v)

    def _full(self, ex, idxs, line):
        k = len(self.fixed)
        out = list(self.fixed)
        for d, i in enumerate(idxs):
            it = to_term(i) if not (isinstance(i, int) and i < 0) else tm.add(to_term(self.shape[d]), tm.mk_int(i))
            if d == 0:
                n = self.shape[0]
                if n is None:
                    ex.oblige('bounds', tm.ge(it, tm.mk_int(0)), label=self.name, line=line)
                else:
                    ex.oblige('bounds', tm.and_(tm.ge(it, tm.mk_int(0)), tm.lt(it, to_term(n))), label=self.name, line=line)
                if self.offset is not None:
                    it = tm.add(it, self.offset)
                out.append(it)
            else:
                out.append(ex.norm_index(self.parent, k + d, i, line))
        return out

    def index(self, ex, idx, line):
        items = _index_list(ex, idx)
        if items and items[0][0] == 's' and all(r[0] == 's' and r[1] is None and r[2] is None for r in items[1:]):
            # slice of a view along its first axis: compose the offsets
            _, lo, hi = items[0]
            n = to_term(self.shape[0])
            lo_t = to_term(lo) if lo is not None else tm.mk_int(0)
            hi_t = to_term(hi) if hi is not None else n
            if isinstance(lo, int) and lo < 0:
                lo_t = tm.add(n, tm.mk_int(lo))
            if isinstance(hi, int) and hi < 0:
                hi_t = tm.add(n, tm.mk_int(hi))
            ex.oblige('bounds', tm.and_(tm.le(tm.mk_int(0), lo_t), tm.le(lo_t, hi_t), tm.le(hi_t, n)), label=self.name, line=line,
                      note='slice bounds within the view')
            off = lo_t if self.offset is None else tm.add(self.offset, lo_t)
            return ViewArr(self.parent, self.fixed, off, tm.sub(hi_t, lo_t))
        if not all(k == 'i' for (k, *_) in items) or len(items) != len(self.shape):
            raise Unsupported('partial indexing of a view (line %s)' % line)
        full = self._full(ex, [i for (_, i) in items], line)
        t = self.parent.term
        for i in full:
            t = tm.select(t, i)
        return t

    def store_at(self, ex, idxs, v, line):
        full = self._full(ex, idxs, line)
        self.parent.term = _store_path(self.parent.term, full, v)


def _store_path(term, idxs, v):
    if not idxs:
        return v
    i = idxs[0]
    if len(idxs) == 1:
        return tm.store(term, i, v)
    inner = _store_path(tm.select(term, i), idxs[1:], v)
    return tm.store(term, i, inner)


def root_of(a):
    while isinstance(a, ViewArr):
        a = a.parent
    return a


def store(ex, base, idx, v, line):
    """base[idx] = v"""
    root = root_of(base)
    ex.note_write(('A', root.oid), root.name)
    if base.objs is not None:
        j = ex.concrete_int(ex.eval(idx), 'object-array index')
        base.objs[j] = v
        return
    items = _index_list(ex, idx)
    if all(k == 'i' for (k, *_) in items) and len(items) == base.ndim:
        isnan = isinstance(v, float) and v != v
        if isnan or getattr(root, 'nan', None) is not None:
            if base.ndim != 1 or isinstance(base, ViewArr):
                if isnan:
                    raise Unsupported('NaN stored into a view / rank>1 array (line %s)' % line)
            else:
                it0 = to_term(items[0][1])
                if root.nan is None:
                    root.nan = tm.constarr(tm.ArraySort(INT, BOOL), tm.FALSE)
                root.nan = tm.store(root.nan, it0, tm.mk_bool(isnan))
                if isnan:
                    v = ex.fresh('nanval', REAL)
        v = coerce_elem(ex, base, v, line)
        if isinstance(base, ViewArr):
            base.store_at(ex, [i for (_, i) in items], v, line)
            return
        idxs = [ex.norm_index(base, d, i, line) for d, (_, i) in enumerate(items)]
        base.term = _store_path(base.term, idxs, v)
        return
    # slice / row assignment
    if isinstance(base, ViewArr):
        raise Unsupported('slice assignment into a view (line %s)' % line)
    view = make_view(ex, base, items, line)
    assign_view(ex, view, v, line)


def coerce_elem(ex, base, v, line):
    if base.elem == REAL:
        if isinstance(v, T):
            return tm.to_real(tm.bool_to_int(v))
        return tm.mk_real(v)
    if base.elem == INT:
        if isinstance(v, T):
            if v.sort == REAL:
                return tm.trunc(v)
            return tm.bool_to_int(v)
        return tm.mk_int(int(v))
    if base.elem == BOOL:
        t = ex.truth(v)
        return t if isinstance(t, T) else tm.mk_bool(t)
    raise Unsupported('element sort')


def assign_view(ex, view, v, line):
    """view[...] = v  (whole remaining extent)"""
    rem = len(view.shape)
    if isinstance(v, Arr):
        if len(v.shape) != rem:
            raise Unsupported('broadcast in slice assignment (line %s)' % line)
        # shapes must agree
        for a, b in zip(view.shape, v.shape):
            if a is not None and b is not None:
                ex.oblige('bounds', tm.eq(to_term(a), to_term(b)), label=view.name, line=line, note='slice assignment shape')
        if view.offset is None:
            src = v.term
            view.term = src
            return
        if rem == 1:
            # parent[fixed][offset + j] = v[j] for 0 <= j < length: fresh array constrained pointwise
            parent = view.parent
            old_row = parent.term
            for i in view.fixed:
                old_row = tm.select(old_row, i)
            new_row = ex.fresh(parent.name + '_sl', old_row.sort)
            j = ex.fresh('j_sl', INT)
            inr = tm.and_(tm.le(view.offset, j), tm.lt(j, tm.add(view.offset, to_term(view._length))))
            ex.assume_fact(tm.forall([j], tm.ite(inr, tm.eq(tm.select(new_row, j), tm.select(v.term, tm.sub(j, view.offset))),
                                            tm.eq(tm.select(new_row, j), tm.select(old_row, j)))))
            parent.term = _store_path(parent.term, view.fixed, new_row)
            return
        raise Unsupported('offset slice assignment of rank %d' % rem)
    # scalar fill
    if rem == 1 and is_num(v):
        parent = view.parent
        old_row = parent.term
        for i in view.fixed:
            old_row = tm.select(old_row, i)
        new_row = ex.fresh(parent.name + '_fill', old_row.sort)
        j = ex.fresh('j_fill', INT)
        off = view.offset if view.offset is not None else tm.mk_int(0)
        inr = tm.and_(tm.le(off, j), tm.lt(j, tm.add(off, to_term(view._length))))
        val = coerce_elem(ex, parent, v, line)
        ex.assume_fact(tm.forall([j], tm.ite(inr, tm.eq(tm.select(new_row, j), val),
                                        tm.eq(tm.select(new_row, j), tm.select(old_row, j)))))
        parent.term = _store_path(parent.term, view.fixed, new_row)
        return
    raise Unsupported('slice assignment of %r (line %s)' % (type(v).__name__, line))


def address_of(ex, base, idx, line):
    """&a[i] / &a[i, 0]: pointer view starting there"""
    items = _index_list(ex, idx)
    if not all(k == 'i' for (k, *_) in items):
        raise Unsupported('address of a slice')
    if len(items) == base.ndim and base.ndim >= 1:
        fixed = [to_term(i) for (_, i) in items[:-1]]
        last = to_term(items[-1][1])
        length = tm.sub(to_term(base.shape[-1]), last) if base.shape[-1] is not None else None
        v = ViewArr(base, fixed, None if (last.is_const() and last.value() == 0) else last, length)
        v.kind = 'ptr'
        return v
    raise Unsupported('address-of pattern (line %s)' % line)


def fresh_like(ex, a, name=None):
    """np.copy / a.copy(): fresh array object with the same contents"""
    n = Arr(a.term, list(a.shape), a.elem, 'ndarray' if a.kind != 'vector' else 'vector', name or (a.name + '_copy'),
            refcls=a.refcls)
    if a.objs is not None:
        n.objs = list(a.objs)
    n.nan = getattr(a, 'nan', None)
    return n


def zeros(ex, shape, elem=REAL, name='zeros', fill=0):
    s = elem
    v = tm.mk_real(fill) if elem == REAL else tm.mk_int(fill) if elem == INT else tm.mk_bool(bool(fill))
    t = v
    for _ in shape:
        s = tm.ArraySort(INT, s)
        t = tm.constarr(s, t)
    return Arr(t, list(shape), elem, 'ndarray', name)


def pointwise(ex, shape0, name, elem, fn_of_index):
    """new 1-D array r with  forall j in [0,n): r[j] == fn(j)"""
    r = Arr(ex.fresh(name, tm.ArraySort(INT, elem)), [shape0], elem, 'ndarray', name)
    j = ex.fresh('j_' + name, INT)
    body = tm.eq(tm.select(r.term, j), fn_of_index(j))
    ex.assume_fact(tm.forall([j], tm.implies(tm.and_(tm.le(tm.mk_int(0), j), tm.lt(j, to_term(shape0))), body)))
    return r


def elem1(a, j):
    """element j of a 1-D array or view"""
    if isinstance(a, ViewArr):
        t = a.parent.term
        for i in a.fixed:
            t = tm.select(t, i)
        return tm.select(t, tm.add(j, a.offset) if a.offset is not None else j)
    return tm.select(a.term, j)


def binop(ex, op, a, b, line):
    for x, y in ((a, b), (b, a)):
        if isinstance(x, Arr) and isinstance(y, float) and y != y:
            r = fresh_like(ex, root_of(x) if not isinstance(x, ViewArr) else x)
            r.term = ex.fresh('allnan', r.term.sort)
            r.allnan = True
            return r

    def f(x, y):
        return ex.binop(op, x, y)
    if isinstance(a, Arr) and isinstance(b, Arr) and a.ndim == 1 and b.ndim == 1 and (isinstance(a, ViewArr) or isinstance(b, ViewArr)):
        ex.oblige('bounds', tm.eq(to_term(a.shape[0]), to_term(b.shape[0])), label='broadcast', line=line,
                  note='elementwise operands have equal length')
        return pointwise(ex, a.shape[0], 'ew', REAL, lambda j: tm.to_real(f(elem1(a, j), elem1(b, j))))
    if isinstance(a, Arr) and isinstance(b, Arr) and a.ndim == 2 and b.ndim == 2:
        for d in range(2):
            ex.oblige('bounds', tm.eq(to_term(a.shape[d]), to_term(b.shape[d])), label='broadcast', line=line,
                      note='elementwise operands have equal shape')
        r = Arr(ex.fresh('ew2', tm.ArraySort(INT, tm.ArraySort(INT, REAL))), list(a.shape), REAL, 'ndarray', 'ew2')
        i, j = ex.fresh('i_ew2', INT), ex.fresh('j_ew2', INT)
        ex.assume_fact(tm.forall([i, j], tm.eq(tm.select(tm.select(r.term, i), j),
                                          tm.to_real(f(tm.select(tm.select(a.term, i), j), tm.select(tm.select(b.term, i), j))))))
        return r
    if isinstance(a, Arr) and isinstance(b, Arr):
        if a.ndim != 1 or b.ndim != 1:
            raise Unsupported('elementwise op on rank>1 arrays (line %s)' % line)
        ex.oblige('bounds', tm.eq(to_term(a.shape[0]), to_term(b.shape[0])), label='broadcast', line=line,
                  note='elementwise operands have equal length')
        return pointwise(ex, a.shape[0], 'ew', REAL, lambda j: tm.to_real(f(tm.select(a.term, j), tm.select(b.term, j))))
    if isinstance(a, Arr):
        if a.ndim != 1:
            raise Unsupported('elementwise op on rank>1 arrays (line %s)' % line)
        return pointwise(ex, a.shape[0], 'ew', REAL, lambda j: tm.to_real(f(tm.select(a.term, j), b)))
    if b.ndim != 1:
        raise Unsupported('elementwise op on rank>1 arrays (line %s)' % line)
    return pointwise(ex, b.shape[0], 'ew', REAL, lambda j: tm.to_real(f(a, tm.select(b.term, j))))


def map1(ex, a, fn):
    # constant arrays of any rank: apply to the constant
    t = a.term
    depth = 0
    while t is not None and t.op == 'constarr':
        t = t.args[0]
        depth += 1
    if depth == a.ndim and t is not None and a.ndim >= 1:
        v = fn(t)
        s = v.sort
        for _ in a.shape:
            s = tm.ArraySort(INT, s)
            v = tm.constarr(s, v)
        return Arr(v, list(a.shape), a.elem, 'ndarray', a.name + '_m')
    if a.ndim != 1:
        raise Unsupported('elementwise op on rank>1 arrays')
    return pointwise(ex, a.shape[0], 'ew', a.elem, lambda j: fn(tm.select(a.term, j)))
