"""Loads the source of biocircuits/bioscrape (re-read and re-parsed on every run; no cache)."""
import hashlib
import os

from . import front_pyx, front_py

PYX = [('types', 'bioscrape/types.pyx', 'bioscrape/types.pxd'),
       ('simulator', 'bioscrape/simulator.pyx', 'bioscrape/simulator.pxd'),
       ('random', 'bioscrape/random.pyx', 'bioscrape/random.pxd'),
       ('inference', 'bioscrape/inference.pyx', 'bioscrape/inference.pxd'),
       ('lineage', 'lineage/lineage.pyx', 'lineage/lineage.pxd')]
PY = [('sbmlutil', 'bioscrape/sbmlutil.py'),
      ('pid_interfaces', 'bioscrape/pid_interfaces.py'),
      ('inference_setup', 'bioscrape/inference_setup.py'),
      ('analysis', 'bioscrape/analysis.py')]


def repo_root():
    return os.environ.get('BSVC_REPO', '/repo')


class Program(object):
    def __init__(self, root=None, only=None):
        self.root = root or repo_root()
        self.modules = {}
        self.only = only
        self._loaded = set()

    def module(self, name):
        if name in self.modules:
            return self.modules[name]
        for n, pyx, pxd in PYX:
            if n == name:
                m = front_pyx.load_module(os.path.join(self.root, pyx), 'bioscrape.' + n, os.path.join(self.root, pxd))
                m.short = n
                m.is_pyx = True
                self.modules[n] = m
                return m
        for n, py in PY:
            if n == name:
                m = front_py.load_module(os.path.join(self.root, py), 'bioscrape.' + n)
                m.short = n
                m.is_pyx = False
                self.modules[n] = m
                return m
        raise KeyError(name)

    def find_class(self, name, prefer=None):
        order = []
        if prefer:
            order.append(prefer)
        order += [n for n, _, _ in PYX] + [n for n, _ in PY]
        for mn in order:
            try:
                m = self.module(mn)
            except KeyError:
                continue
            c = m.classes.get(name)
            if c is not None and (c.methods or c.fields or c.bases or True):
                return c
        return None

    def mro(self, cls):
        out = []
        seen = set()
        c = cls
        while c is not None and c.name not in seen:
            out.append(c)
            seen.add(c.name)
            nxt = None
            for b in c.bases:
                nxt = self.find_class(b, prefer=c.module.short)
                if nxt is not None:
                    break
            c = nxt
        return out

    def find_method(self, cls, name, with_body=True):
        for c in self.mro(cls):
            f = c.methods.get(name)
            if f is not None and (f.body is not None or not with_body):
                return f
        return None

    def all_fields(self, cls):
        out = {}
        for c in reversed(self.mro(cls)):
            out.update(c.fields)
        return out

    def is_subclass(self, cls, basename):
        return any(c.name == basename for c in self.mro(cls))

    def subclasses(self, basename):
        out = []
        for mn in [n for n, _, _ in PYX] + [n for n, _ in PY]:
            m = self.module(mn)
            for c in m.classes.values():
                if self.is_subclass(c, basename):
                    out.append(c)
        return out

    def func(self, module, qualname):
        m = self.module(module)
        if '.' in qualname:
            cn, fn = qualname.split('.', 1)
            c = m.classes.get(cn)
            if c is None:
                return None
            return c.methods.get(fn)
        return m.functions.get(qualname)

    def source_hash(self, func):
        """hash of the function's source lines (for evidence)"""
        m = func.module
        lines = m.source_lines
        start = func.line - 1
        # function extent: until the next line with indentation <= the def's indentation
        ind = len(lines[start]) - len(lines[start].lstrip())
        end = start + 1
        while end < len(lines):
            l = lines[end]
            if l.strip() and (len(l) - len(l.lstrip())) <= ind and not l.lstrip().startswith(('#', ')')):
                break
            end += 1
        return hashlib.sha1('\n'.join(lines[start:end]).encode()).hexdigest()[:12]
