"""bsvc: verification-condition generator for bioscrape (Cython/Python source -> SMT-LIB)."""
