"""Spec-level lemmas: pure SMT obligations over the contract language (no code of the system under test).

lemma('name', props, vars={'x': 'Real', 'n': 'Int', 'a': ('Array', 'Int', 'Real')}, hyps=[...], goal='...')
"""
from . import terms as tm
from .terms import REAL, INT, BOOL
from .values import *      # noqa
from .symexec import Obligation, Frame
from . import contracts as C

LEMMAS = []


class Lemma(object):
    def __init__(self, name, props, vars_, hyps, goal, note=''):
        self.name = name
        self.props = list(props)
        self.vars = vars_
        self.hyps = hyps
        self.goal = goal
        self.note = note


def lemma(name, props, vars, hyps, goal, note=''):
    LEMMAS.append(Lemma(name, props, vars, hyps, goal, note))


def _sort(s):
    if isinstance(s, (tuple, list)):
        return tm.ArraySort(_sort(s[1]), _sort(s[2]))
    return {'Real': REAL, 'Int': INT, 'Bool': BOOL}[s]


def lemmas_for(prop):
    return [l for l in LEMMAS if prop in l.props]


def obligations_of(program, lem):
    from .verify import Executor
    from . import speclib
    ex = Executor(program, (), 'lemma::' + lem.name, prune=False)
    ex.spec_env = dict(speclib.SPEC_ENV)
    env = {}
    for name, s in lem.vars.items():
        so = _sort(s)
        if isinstance(so, tuple):
            nd = 0
            x = so
            while isinstance(x, tuple):
                nd += 1
                x = x[2]
            a = Arr(tm.var(name, so), [tm.var('%s_len%d' % (name, d), INT) for d in range(nd)], x, 'ndarray', name)
            env[name] = a
        else:
            env[name] = tm.var(name, so)
    fr = Frame(None, env, None)
    fr.local_names = set(env)
    ex.frames.append(fr)
    ex.in_spec = True
    for h in lem.hyps:
        ex.assume(ex.spec_truth(C.parse_expr(h)))
    obs = [Obligation('cover', ex.fuc_id, 'hyps', 0, list(ex.pc), None, (), must_be_sat=True)]
    g = ex.spec_truth(C.parse_expr(lem.goal))
    obs.append(Obligation('lemma', ex.fuc_id, lem.name, 0, ex.facts + ex.pc, g, (), note=lem.goal))
    return obs
