"""Common IR for Cython (.pyx/.pxd) and Python (.py) sources.

Every node is N(kind, line, **fields).  Kinds:

expressions
  Num(v, isfloat, text)  Str(s)  Const(v: None|True|False|Ellipsis)  Name(id)  Attr(obj, attr)
  Index(base, index)  Slice(lo, hi, step)  Call(func, args, kwargs:[(name, expr)], star, starstar)
  BinOp(op, l, r)  UnOp(op, e)  Cmp(ops:[str], operands:[expr])  BoolOp(op, operands)  IfExp(c, a, b)
  Tuple(elts)  List(elts)  Dict(keys, vals)  Set(elts)  Cast(ctype, e, typecheck)  Addr(e)
  Comp(ckind: list|dict|set|gen, elt, key, gens:[(target, iter, [ifs])])  JoinedStr(parts)  Lambda(params, body)
  Starred(e)
statements
  Assign(targets, value)  AugAssign(op, target, value)  CDecl(ctype, name, init)
  If(tests:[(cond, body)], orelse)  For(target, iter, body, orelse)  While(cond, body, orelse)
  Return(value)  Raise(exc, cause)  Expr(e)  Pass  Break  Continue
  Try(body, handlers:[(type_expr, name, body)], orelse, final)  Assert(cond, msg)  Del(targets)
  Global(names)  Print(args)  With(items:[(ctx, target)], body)  FuncDef(func)  ClassDef(cls)  Import
types (ctype): tuples
  ('double',) ('int', signed, bits) ('bint',) ('ptr', elem) ('obj', clsname) ('vector', elem)
  ('ndarray', ndim|None, dtype|None) ('memview', ndim, elem) ('void',) ('py',) ('voidptr',)
"""


class N(object):
    __slots__ = ('k', 'line', 'f')

    def __init__(self, k, line=0, **f):
        self.k = k
        self.line = line
        self.f = f

    def __getattr__(self, name):
        try:
            return self.f[name]
        except KeyError:
            raise AttributeError(name)

    def __deepcopy__(self, memo):
        return self

    def __repr__(self):
        return 'N(%s@%s %s)' % (self.k, self.line, ', '.join('%s=%r' % kv for kv in self.f.items()))


class Func(object):
    """a function or method"""

    def __init__(self, name, qualname, kind, params, ret, body, line, module, cls=None, decorators=(), doc=None,
                 star=None, starstar=None):
        self.name = name
        self.qualname = qualname
        self.kind = kind          # 'cdef' | 'def' | 'cpdef' | 'py'
        self.params = params      # [(name, ctype, default_expr|None)]
        self.ret = ret            # ctype
        self.body = body          # [N]
        self.line = line
        self.module = module      # Module
        self.cls = cls            # Class|None
        self.decorators = list(decorators)
        self.doc = doc
        self.star = star
        self.starstar = starstar

    def __deepcopy__(self, memo):
        return self

    def __repr__(self):
        return 'Func(%s)' % self.qualname


class Class(object):
    def __init__(self, name, bases, module, line):
        self.name = name
        self.bases = bases        # [str]
        self.module = module
        self.line = line
        self.fields = {}          # name -> ctype   (from .pxd / cdef attributes)
        self.methods = {}         # name -> Func
        self.decorators = []
        self.body = []            # class-level statements other than methods/fields

    def __deepcopy__(self, memo):
        return self

    def __repr__(self):
        return 'Class(%s)' % self.name


class Module(object):
    def __init__(self, name, path):
        self.name = name
        self.path = path
        self.classes = {}
        self.functions = {}
        self.globals_ctypes = {}   # module-level cdef variables
        self.body = []             # module-level statements (assignments etc.)
        self.directives = {}
        self.source_lines = []

    def __deepcopy__(self, memo):
        return self


def walk(n):
    """yield all N nodes below n (inclusive); n may be N, list, tuple"""
    stack = [n]
    while stack:
        x = stack.pop()
        if isinstance(x, N):
            yield x
            stack.extend(x.f.values())
        elif isinstance(x, (list, tuple)):
            stack.extend(x)
        elif isinstance(x, Func):
            stack.extend(x.body)
