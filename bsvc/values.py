"""Run-time (symbolic) values of the executor."""
from . import terms as tm
from .terms import T, REAL, INT, BOOL


class Unsupported(Exception):
    """construct outside the verified subset -> the obligation set is undecided (never a violation)"""


class EngineError(Exception):
    pass


class PathEnd(Exception):
    """path ends (assume false / loop iteration closed)"""


class ReturnSig(Exception):
    def __init__(self, value):
        self.value = value


class BreakSig(Exception):
    pass


class ContinueSig(Exception):
    pass


class RaiseSig(Exception):
    def __init__(self, exc):
        self.exc = exc


class ExcVal(object):
    def __init__(self, clsname, msg=None, line=0):
        self.clsname = clsname
        self.msg = msg
        self.line = line

    def __repr__(self):
        return 'Exc(%s@%s)' % (self.clsname, self.line)


class _Unbound(object):
    def __repr__(self):
        return 'UNBOUND'

    def __deepcopy__(self, memo):
        return self


UNBOUND = _Unbound()

_oid = [0]


def next_oid():
    _oid[0] += 1
    return _oid[0]


class Arr(object):
    """array-like heap object: ndarray, typed memoryview, C pointer, C++ vector.
    term: SMT array (nested for ndim>1); shape: list of Int terms / ints (None = unknown extent, for raw pointers)"""

    def __init__(self, term, shape, elem, kind='ndarray', name='arr', refcls=None):
        self.term = term
        self.shape = list(shape)
        self.elem = elem
        self.kind = kind
        self.name = name
        self.refcls = refcls     # for arrays of object references: static class name
        self.oid = next_oid()
        self.objs = None         # for concrete python-object arrays (dtype=object): list
        self.nan = None          # 1-D only: (Array Int Bool) term marking NaN entries (None = no NaN anywhere)

    @property
    def ndim(self):
        return len(self.shape)

    def __repr__(self):
        return 'Arr(%s %s %s)' % (self.name, self.kind, self.shape)


class Obj(object):
    def __init__(self, cls, clsname=None, symbolic=False, exact=True, ref=None, name='obj'):
        self.cls = cls                # ir.Class or None
        self.clsname = clsname or (cls.name if cls is not None else '?')
        self.fields = {}
        self.symbolic = symbolic      # fields are created lazily as symbolic values
        self.exact = exact            # dynamic class == cls (else: some subclass of cls)
        self.ref = ref                # Int term identifying the object (for uninterpreted method symbols)
        self.name = name
        self.oid = next_oid()

    def __repr__(self):
        return 'Obj(%s:%s)' % (self.name, self.clsname)


class BoundMethod(object):
    def __init__(self, obj, func, name=None):
        self.obj = obj
        self.func = func
        self.name = name or func.name


class BuiltinMethod(object):
    def __init__(self, obj, name):
        self.obj = obj
        self.name = name


class ClassRef(object):
    def __init__(self, cls):
        self.cls = cls

    def __eq__(self, o):
        return isinstance(o, ClassRef) and o.cls is self.cls

    def __hash__(self):
        return hash(('ClassRef', id(self.cls)))

    def __deepcopy__(self, memo):
        return self


class ModRef(object):
    def __init__(self, name):
        self.name = name

    def __deepcopy__(self, memo):
        return self


class Builtin(object):
    def __init__(self, name):
        self.name = name

    def __deepcopy__(self, memo):
        return self

    def __repr__(self):
        return 'Builtin(%s)' % self.name

    def __eq__(self, o):
        return isinstance(o, Builtin) and o.name == self.name

    def __hash__(self):
        return hash(('Builtin', self.name))


class FuncRef(object):
    def __init__(self, func):
        self.func = func

    def __eq__(self, o):
        return isinstance(o, FuncRef) and o.func is self.func

    def __hash__(self):
        return hash(('FuncRef', id(self.func)))

    def __deepcopy__(self, memo):
        return self


class SpecFn(object):
    """spec-level function usable in contract clauses"""

    def __init__(self, name, fn):
        self.name = name
        self.fn = fn

    def __deepcopy__(self, memo):
        return self


class Closure(object):
    def __init__(self, params, body, env, ex_lambda=True):
        self.params = params
        self.body = body
        self.env = env


class SuperRef(object):
    def __init__(self, obj, after_cls):
        self.obj = obj
        self.after_cls = after_cls


class PtrTo(object):
    """C pointer to a non-array value (e.g. vector[void*]*): p[0] is the value"""

    def __init__(self, target):
        self.target = target


class Stub(object):
    """opaque dependency object whose methods are python callables fn(ex, *args, **kwargs)"""

    def __init__(self, name, methods=None, attrs=None):
        self.name = name
        self.methods = methods or {}
        self.attrs = attrs or {}

    def __deepcopy__(self, memo):
        return self


class StubMethod(object):
    def __init__(self, stub, name):
        self.stub = stub
        self.name = name

    def __deepcopy__(self, memo):
        return self


class Atom(object):
    """opaque identifier-like string atom (structured strings)"""

    def __init__(self, name):
        self.name = name

    def __repr__(self):
        return 'Atom(%s)' % self.name

    def __eq__(self, o):
        return isinstance(o, Atom) and o.name == self.name

    def __hash__(self):
        return hash(('Atom', self.name))


def is_num(v):
    return isinstance(v, (int, float, bool)) or (isinstance(v, T) and v.sort in (REAL, INT, BOOL))


def is_sym(v):
    return isinstance(v, T)


def to_term(v):
    """python number / term -> term"""
    if isinstance(v, T):
        return v
    if isinstance(v, bool):
        return tm.mk_bool(v)
    if isinstance(v, int):
        return tm.mk_int(v)
    if isinstance(v, float):
        return tm.mk_real(v)
    from fractions import Fraction
    if isinstance(v, Fraction):
        return tm.mk_real(v)
    raise Unsupported('cannot convert %r to a term' % (v,))


def sort_of_ctype(ct):
    if ct is None:
        return None
    k = ct[0]
    if k == 'double':
        return REAL
    if k == 'int':
        return INT
    if k == 'bint':
        return BOOL
    return None
