"""numpy reshape / flatten in C order for arrays of concrete shape (explicit index arithmetic)."""
from . import terms as tm
from .terms import REAL, INT
from .values import Arr, Unsupported, to_term


def _dims(ex, a):
    return [ex.concrete_int(s, 'array extent') for s in a.shape]


def flat_items(ex, a):
    dims = _dims(ex, a)
    out = []

    def rec(t, d):
        if d == len(dims):
            out.append(t)
            return
        for i in range(dims[d]):
            rec(tm.select(t, tm.mk_int(i)), d + 1)
    rec(a.term, 0)
    return out


def build(ex, items, shape, elem, name='reshaped'):
    pos = [0]

    def rec(d):
        s = elem
        for _ in shape[d + 1:]:
            s = tm.ArraySort(INT, s)
        if d == len(shape) - 1:
            t = tm.constarr(tm.ArraySort(INT, elem), tm.mk_real(0) if elem == REAL else tm.mk_int(0))
            for i in range(shape[d]):
                t = tm.store(t, tm.mk_int(i), items[pos[0]])
                pos[0] += 1
            return t
        inner0 = None
        rows = [rec(d + 1) for _ in range(shape[d])]
        srt = tm.ArraySort(INT, rows[0].sort) if rows else None
        t = tm.constarr(srt, rows[0]) if rows else None
        for i, r in enumerate(rows):
            t = tm.store(t, tm.mk_int(i), r)
        return t
    if any(s == 0 for s in shape):
        raise Unsupported('reshape to an empty array')
    return Arr(rec(0), list(shape), elem, 'ndarray', name)


def reshape(ex, a, args, kwargs, line):
    shape = args[0] if len(args) == 1 and isinstance(args[0], (tuple, list)) else args
    shape = [ex.concrete_int(s, 'reshape extent') for s in shape]
    items = flat_items(ex, a)
    n = 1
    for s in shape:
        n *= s
    if -1 in shape:
        known = 1
        for s in shape:
            if s != -1:
                known *= s
        shape = [len(items) // known if s == -1 else s for s in shape]
        n = len(items)
    if n != len(items):
        ex.raise_exc('ValueError', 'cannot reshape array of size %d into shape %r' % (len(items), tuple(shape)), line)
    return build(ex, items, shape, a.elem)
