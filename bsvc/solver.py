"""Solver access: in-process z3 (z3-solver 5.1.0 wheel of the tooling venv, loaded by path) for feasibility pruning and
as first discharge back end; CLI /usr/bin/z3 4.8.12 and /usr/bin/cvc5 1.0.3 as independent back ends."""
import os
import subprocess
import sys
import tempfile
import time

_Z3 = None
_Z3_DIR = '/opt/veriftools/pyvenv/lib/python3.11/site-packages'


def z3mod():
    global _Z3
    if _Z3 is None:
        try:
            import z3 as _z
        except ImportError:
            sys.path.append(_Z3_DIR)
            try:
                import z3 as _z
            finally:
                try:
                    sys.path.remove(_Z3_DIR)
                except ValueError:
                    pass
        _Z3 = _z
    return _Z3


_feas_cache = {}


def check_text_inproc(text, timeout_ms=5000):
    """returns ('sat'|'unsat'|'unknown', seconds, model_text|None)"""
    z3 = z3mod()
    t0 = time.time()
    s = z3.Solver()
    s.set('timeout', int(timeout_ms))
    try:
        s.from_string(text)
        r = s.check()
    except z3.Z3Exception as e:
        return 'error', time.time() - t0, str(e)
    res = str(r)
    model = None
    if res == 'sat':
        try:
            model = s.model().sexpr()
        except Exception:
            model = None
    return res, time.time() - t0, model


def feasible(text, timeout_ms=1500):
    """True unless the script is proved unsat"""
    r = _feas_cache.get(text)
    if r is None:
        res, _, _ = check_text_inproc(text, timeout_ms)
        r = (res != 'unsat')
        if len(_feas_cache) > 50000:
            _feas_cache.clear()
        _feas_cache[text] = r
    return r


def run_cli(backend, text, timeout_s=10, want_model=False):
    """backend in {'z3-4.8', 'z3-5.1', 'cvc5'}; returns (status, seconds, output)"""
    fd, path = tempfile.mkstemp(suffix='.smt2', prefix='bsvc-')
    try:
        with os.fdopen(fd, 'w') as fh:
            fh.write(text)
        if backend == 'z3-4.8':
            cmd = ['/usr/bin/z3', '-T:%d' % int(timeout_s), path]
        elif backend == 'z3-5.1':
            cmd = ['z3-new', '-T:%d' % int(timeout_s), path]
        elif backend == 'cvc5':
            cmd = ['/usr/bin/cvc5', '--tlimit=%d' % int(timeout_s * 1000), '--produce-models', path]
        else:
            raise ValueError(backend)
        t0 = time.time()
        try:
            p = subprocess.run(cmd, stdout=subprocess.PIPE, stderr=subprocess.STDOUT, timeout=timeout_s + 5)
            out = p.stdout.decode(errors='replace')
        except subprocess.TimeoutExpired:
            return 'unknown', time.time() - t0, 'timeout'
        dt = time.time() - t0
        first = out.strip().split('\n', 1)[0].strip() if out.strip() else ''
        if first in ('sat', 'unsat', 'unknown'):
            return first, dt, out
        if 'timeout' in out or 'interrupted' in out:
            return 'unknown', dt, out
        return 'error', dt, out
    finally:
        try:
            os.unlink(path)
        except OSError:
            pass


def discharge(text, budget_s=10, backends=('z3-5.1-inproc', 'z3-4.8', 'cvc5'), all_backends=False):
    """portfolio; returns dict(status, backend, seconds, tried=[...], model)"""
    tried = []
    final = None
    for be in backends:
        if be == 'z3-5.1-inproc':
            st, dt, out = check_text_inproc(text, int(budget_s * 1000))
        else:
            st, dt, out = run_cli(be, text, budget_s)
        tried.append((be, st, round(dt, 3)))
        if st in ('sat', 'unsat'):
            if final is None:
                final = dict(status=st, backend=be, seconds=dt, model=out if st == 'sat' else None)
            elif final['status'] != st:
                return dict(status='disagree', backend=be, seconds=dt, tried=tried, model=None)
            if not all_backends:
                break
    if final is None:
        final = dict(status='unknown', backend=None, seconds=sum(t[2] for t in tried), model=None)
    final['tried'] = tried
    return final
