"""Models of Python builtins, numpy, libc.math and bioscrape's random module (the assumed contracts on
dependencies, DESIGN section 4.4).  Everything here is part of the trusted base and is listed in evidence."""
import math
from fractions import Fraction

from . import terms as tm
from .terms import T, REAL, INT, BOOL
from .values import *      # noqa
from . import arrays

INF = float('inf')
NAN = float('nan')

MODULES = {'np': 'numpy', 'numpy': 'numpy', 'math': 'math', 'cyrandom': 'cyrandom', 'warnings': 'warnings',
           'logging': 'logging', 'sys': 'sys', 'copy': 'copy', 'scipy': 'scipy', 'random': 'pyrandom',
           'libsbml': 'libsbml', 'pd': 'pandas', 'sympy': 'sympy', 'os': 'os', 're': 're', 'time': 'time',
           'pickle': 'pickle', 'cmath': 'cmath', 'special': 'scipy.special'}

BUILTIN_NAMES = {'len', 'int', 'float', 'abs', 'max', 'min', 'range', 'isinstance', 'str', 'bool', 'list', 'dict',
                 'tuple', 'set', 'sum', 'enumerate', 'zip', 'sorted', 'print', 'type', 'round', 'any', 'all',
                 'hasattr', 'getattr', 'setattr', 'callable', 'repr', 'reversed', 'map', 'filter', 'iter', 'next',
                 'id', 'unicode', 'long', 'xrange', 'super', 'fabs', 'exp', 'log', 'sqrt', 'cos', 'sin', 'pow',
                 'floor', 'ceil', 'issubclass', 'object', 'divmod', 'ord', 'chr', 'format'}
EXC_NAMES = {'ValueError', 'TypeError', 'RuntimeError', 'KeyError', 'IndexError', 'NotImplementedError',
             'AttributeError', 'SyntaxError', 'Exception', 'AssertionError', 'ZeroDivisionError', 'Warning',
             'UserWarning', 'DeprecationWarning', 'RuntimeWarning', 'StopIteration', 'NameError', 'OSError',
             'IOError', 'ImportError', 'FileNotFoundError', 'LookupError', 'ArithmeticError'}


def global_name(ex, name, mod):
    if name in MODULES:
        return ModRef(MODULES[name])
    if name in BUILTIN_NAMES:
        return Builtin(name)
    if name in EXC_NAMES:
        return Builtin('exc:' + name)
    if name == 'vector':
        return Builtin('vector')
    for mn in ('types', 'simulator', 'lineage', 'inference'):
        try:
            em = getattr(ex.program.module(mn), 'enums', {})
        except KeyError:
            continue
        if name in em:
            return ModRef('enum:%s:%s' % (mn, name))
        for en, items in em.items():
            if name in items:
                return items[name]
    if name in ('True', 'False', 'None'):
        return {'True': True, 'False': False, 'None': None}[name]
    if name == 'NotImplemented':
        return NotImplemented
    # classes / functions from other bioscrape modules (cimported / imported names)
    cls = ex.program.find_class(name, prefer=mod.short if mod is not None else None)
    if cls is not None:
        return ClassRef(cls)
    for mn in ('types', 'simulator', 'random', 'inference', 'lineage', 'sbmlutil', 'pid_interfaces', 'inference_setup',
               'analysis'):
        try:
            m = ex.program.module(mn)
        except KeyError:
            continue
        if name in m.functions:
            return FuncRef(m.functions[name])
    return None


def imported_name(ex, mod, name):
    """value bound by `import mod` / `from mod import name` inside a function body"""
    top = mod.split('.')[0]
    if name is None:
        return ModRef(MODULES.get(mod, mod)) if (mod in MODULES or top in ('scipy', 'numpy')) else ModRef(mod)
    full = '%s.%s' % (mod, name)
    if full in ('scipy.special', 'scipy.integrate', 'scipy.stats'):
        return ModRef(full)
    if mod in ('scipy.special', 'scipy.integrate', 'math', 'numpy'):
        return Builtin(('np.' + name) if mod == 'numpy' else full)
    if top == 'bioscrape' or mod in ('types', 'simulator', 'inference', 'lineage'):
        return None      # resolved through the program's class/function tables
    return Builtin(full)


def module_attr(ex, m, attr, line):
    if m.name.startswith('enum:'):
        _, mn, en = m.name.split(':')
        items = ex.program.module(mn).enums[en]
        if attr not in items:
            ex.raise_exc('AttributeError', attr, line)
        return items[attr]
    if m.name == 'numpy':
        if attr == 'inf' or attr == 'Inf' or attr == 'infty':
            return INF
        if attr == 'nan' or attr == 'NaN':
            return NAN
        if attr == 'pi':
            return tm.app('pi', (), REAL)
        if attr in ('double', 'float64', 'float', 'float_'):
            return Builtin('dtype:float')
        if attr in ('int', 'int64', 'int32', 'int_', 'long'):
            return Builtin('dtype:int')
        if attr in ('ndarray',):
            return Builtin('np.ndarray')
        if attr in ('random', 'linalg'):
            return ModRef('numpy.' + attr)
        return Builtin('np.' + attr)
    if m.name == 'math':
        if attr == 'pi':
            return tm.app('pi', (), REAL)
        if attr == 'inf':
            return INF
        if attr == 'nan':
            return NAN
        return Builtin('math.' + attr)
    if m.name == 'cyrandom':
        f = ex.program.module('random').functions.get(attr)
        if f is not None:
            return FuncRef(f)
        raise Unsupported('cyrandom.%s' % attr)
    if m.name == 'scipy':
        return ModRef('scipy.' + attr)
    if m.name == 'sys':
        if attr == 'stderr' or attr == 'stdout':
            return ModRef('sys.' + attr)
    if m.name == 'copy':
        return Builtin('copy.' + attr)
    return Builtin('%s.%s' % (m.name, attr))


def array_attr(ex, a, attr, line):
    if attr == 'shape':
        return tuple(a.shape)
    if attr == 'data':
        return a
    if attr == 'size' and a.kind == 'vector':
        return BuiltinMethod(a, 'size')
    if attr == 'size':
        r = to_term(a.shape[0])
        for s in a.shape[1:]:
            r = tm.mul(r, to_term(s))
        return r
    if attr == 'ndim':
        return a.ndim
    if attr == 'T':
        raise Unsupported('array transpose attribute')
    if attr in ('copy', 'fill', 'reshape', 'flatten', 'astype', 'tolist', 'push_back', 'size_', 'clear', 'sum', 'any',
                'all', 'transpose'):
        return BuiltinMethod(a, attr)
    if attr == 'dtype':
        return Builtin('dtype:float' if a.elem == REAL else 'dtype:int')
    raise Unsupported('array attribute %s (line %s)' % (attr, line))


def value_attr(ex, o, attr, line):
    if isinstance(o, (list, dict, str, tuple, set)):
        return BuiltinMethod(o, attr)
    if o is None:
        ex.raise_exc('AttributeError', "'NoneType' object has no attribute %r" % attr, line)
    from . import strings
    if isinstance(o, strings.SStr):
        return BuiltinMethod(o, attr)
    if isinstance(o, ExcVal):
        if attr == 'args':
            return (o.msg,)
    if isinstance(o, Builtin) and (o.name + '.' + attr) in ex.ext_builtins:
        return Builtin(o.name + '.' + attr)
    if isinstance(o, T):
        return BuiltinMethod(o, attr)
    if isinstance(o, SuperRef):
        mro = ex.program.mro(o.after_cls)[1:]
        for c in mro:
            f = c.methods.get(attr)
            if f is not None and f.body is not None:
                return BoundMethod(o.obj, f, name='super.' + attr)
        if attr == '__init__':
            return Builtin('noop')
        raise Unsupported('super().%s not found' % attr)
    if isinstance(o, Stub):
        if attr in o.attrs:
            return o.attrs[attr]
        if attr in o.methods:
            return StubMethod(o, attr)
        raise Unsupported('stub %s has no attribute %s (line %s)' % (o.name, attr, line))
    handler = ex.ext_attr_handlers.get(type(o).__name__)
    if handler is not None:
        return handler(ex, o, attr, line)
    raise Unsupported('attribute %s of %r (line %s)' % (attr, type(o).__name__, line))


def index_other(ex, base, i, line):
    handler = ex.ext_index_handlers.get(type(base).__name__)
    if handler is not None:
        return handler(ex, base, i, line)
    if base is None:
        ex.raise_exc('TypeError', "'NoneType' object is not subscriptable", line)
    raise Unsupported('indexing of %r (line %s)' % (type(base).__name__, line))


def setitem_other(ex, base, i, v, line):
    handler = ex.ext_setitem_handlers.get(type(base).__name__)
    if handler is not None:
        return handler(ex, base, i, v, line)
    raise Unsupported('item assignment into %r (line %s)' % (type(base).__name__, line))


def setattr_other(ex, o, attr, v, line):
    raise Unsupported('attribute assignment on %r (line %s)' % (type(o).__name__, line))


def instantiate_special(ex, cls, args, kwargs, line):
    return NotImplemented


def iterate(ex, seq, line):
    if isinstance(seq, (list, tuple)):
        return list(seq)
    if isinstance(seq, dict):
        return list(seq.keys())
    if isinstance(seq, set):
        return sorted(seq, key=repr)
    if isinstance(seq, str):
        return list(seq)
    if isinstance(seq, Arr):
        if seq.objs is not None:
            return list(seq.objs)
        n = seq.shape[0]
        if isinstance(n, T) and not n.is_const():
            raise Unsupported('iteration over an array of symbolic length (line %s)' % line)
        n = ex.concrete_int(n)
        if seq.ndim == 1:
            return [tm.select(seq.term, tm.mk_int(i)) for i in range(n)]
        return [arrays.ViewArr(seq, [tm.mk_int(i)], None, seq.shape[1]) for i in range(n)]
    if isinstance(seq, range):
        return list(seq)
    handler = ex.ext_iter_handlers.get(type(seq).__name__)
    if handler is not None:
        return handler(ex, seq, line)
    raise Unsupported('iteration over %r (line %s)' % (type(seq).__name__, line))


def comprehension(ex, n):
    out = [] if n.ckind in ('list', 'gen', 'set') else {}
    fr = ex.frame

    def rec(gi):
        if gi == len(n.gens):
            if n.ckind == 'dict':
                out[ex.hashable(ex.eval(n.key))] = ex.eval(n.elt)
            else:
                out.append(ex.eval(n.elt))
            return
        tgt, it, ifs = n.gens[gi]
        for x in iterate(ex, ex.eval(it), n.line):
            _bind(ex, tgt, x)
            ok = True
            for c in ifs:
                if not ex.branch(ex.truth(ex.eval(c))):
                    ok = False
                    break
            if ok:
                rec(gi + 1)
    saved = dict(fr.env)
    saved_ln = set(fr.local_names)
    try:
        rec(0)
    finally:
        # comprehension variables do not leak (py3); restore names that were shadowed
        for k in list(fr.env.keys()):
            if k not in saved:
                del fr.env[k]
            else:
                fr.env[k] = saved[k] if k in _targets(n) else fr.env[k]
        fr.local_names = saved_ln
    if n.ckind == 'set':
        return set(out)
    return out


def _targets(n):
    names = set()

    def t(x):
        if x.k == 'Name':
            names.add(x.id)
        elif x.k in ('Tuple', 'List'):
            for e in x.elts:
                t(e)
    for (tg, _, _) in n.gens:
        t(tg)
    return names


def _bind(ex, tgt, v):
    fr = ex.frame
    if tgt.k == 'Name':
        fr.env[tgt.id] = v
    elif tgt.k in ('Tuple', 'List'):
        if len(v) != len(tgt.elts):
            ex.raise_exc('ValueError', 'unpack')
        for te, ve in zip(tgt.elts, v):
            _bind(ex, te, ve)
    else:
        raise Unsupported('comprehension target')


# ---------------------------------------------------------------------------------------------- math

def _unary_real(ex, fname, x, line, domain=None):
    """uninterpreted real function with axioms attached at emission time (bsvc.axioms)"""
    if isinstance(x, Arr):
        return arrays.map1(ex, x, lambda e: tm.app(fname, (tm.to_real(e),), REAL))
    if isinstance(x, float) and (x != x or x in (INF, -INF)):
        return _nonfinite_fn(fname, x)
    t = tm.to_real(to_term(x))
    return tm.app(fname, (t,), REAL)


def _nonfinite_fn(fname, x):
    if x != x:
        return NAN
    if fname == 'exp':
        return INF if x > 0 else tm.mk_real(0)
    if fname == 'ln':
        return INF if x > 0 else NAN
    if fname == 'sqrt':
        return INF if x > 0 else NAN
    if fname == 'abs':
        return INF
    return NAN


def np_log(ex, x, line):
    """numpy/math log: ln x for x>0, -inf at 0 (numpy) / ValueError (math), nan below"""
    if isinstance(x, float) and (x != x or x in (INF, -INF)):
        return _nonfinite_fn('ln', x)
    if isinstance(x, Arr):
        return arrays.map1(ex, x, lambda e: tm.app('ln', (tm.to_real(e),), REAL))
    t = tm.to_real(to_term(x))
    if t.is_const():
        v = t.value()
        if v > 0:
            if v == 1:
                return tm.mk_real(0)
            return tm.app('ln', (t,), REAL)
        return -INF if v == 0 else NAN
    if ex.branch(tm.gt(t, tm.mk_real(0))):
        return tm.app('ln', (t,), REAL)
    if ex.branch(tm.eq(t, tm.mk_real(0))):
        return -INF
    return NAN


def c_log(ex, x, line):
    """libc log on a double: same value model as numpy (no exception)"""
    return np_log(ex, x, line)


def fn_abs(ex, x):
    if isinstance(x, T):
        zero = tm.mk_int(0) if x.sort == INT else tm.mk_real(0)
        return tm.ite(tm.ge(x, zero), x, tm.neg(x))
    if isinstance(x, Arr):
        return arrays.map1(ex, x, lambda e: tm.ite(tm.ge(e, tm.mk_real(0)), e, tm.neg(e)))
    return abs(x)


def fn_minmax(ex, which, args, kwargs, line):
    if len(args) == 1 and isinstance(args[0], (list, tuple)):
        args = list(args[0])
    if len(args) == 1 and isinstance(args[0], Arr):
        raise Unsupported('min/max over an array (line %s)' % line)
    if not args:
        ex.raise_exc('ValueError', 'min/max of empty sequence', line)
    acc = args[0]
    for b in args[1:]:
        if isinstance(acc, T) or isinstance(b, T):
            ta, tb = to_term(acc), to_term(b)
            # python: max(a,b) returns a unless b > a ; min(a,b) returns a unless b < a
            if which == 'max':
                c = tm.gt(tb, ta)
            else:
                c = tm.lt(tb, ta)
            acc = tm.ite(c, tb, ta) if ta.sort == tb.sort else tm.ite(c, tm.to_real(tb), tm.to_real(ta))
        else:
            acc = max(acc, b) if which == 'max' else min(acc, b)
    return acc


def fn_int(ex, x, line):
    if isinstance(x, T):
        if x.sort == REAL:
            return tm.trunc(x)
        return tm.bool_to_int(x)
    if isinstance(x, str):
        try:
            return int(x)
        except ValueError:
            ex.raise_exc('ValueError', 'invalid literal for int()', line)
    if isinstance(x, float) and (x != x or x in (INF, -INF)):
        ex.raise_exc('ValueError' if x != x else 'OverflowError', 'cannot convert float to int', line)
    from . import strings
    if isinstance(x, strings.SStr):
        return strings.to_int(ex, x, line)
    return int(x)


def fn_float(ex, x, line):
    if isinstance(x, T):
        return tm.to_real(tm.bool_to_int(x))
    if isinstance(x, str):
        try:
            f = float(x)
        except ValueError:
            ex.raise_exc('ValueError', 'could not convert string to float', line)
        if f != f or f in (INF, -INF):
            return f
        try:
            return tm.mk_real(Fraction(x.strip()))
        except (ValueError, ZeroDivisionError):
            return tm.mk_real(f)
    from . import strings
    if isinstance(x, strings.SStr):
        return strings.to_float(ex, x, line)
    if isinstance(x, (int, bool)):
        return tm.mk_real(int(x))
    if isinstance(x, float):
        return x if (x != x or x in (INF, -INF)) else tm.mk_real(x)
    if isinstance(x, Fraction):
        return tm.mk_real(x)
    ex.raise_exc('TypeError', 'float() argument', line)


def shape_arg(ex, s):
    if isinstance(s, (tuple, list)):
        return [x if isinstance(x, T) else int(x) for x in s]
    return [s if isinstance(s, T) else int(s)]


def call_builtin(ex, name, args, kwargs, line, node=None):
    if name.startswith('exc:'):
        return ExcVal(name[4:], args[0] if args else None, line)
    h = ex.ext_builtins.get(name)
    if h is not None:
        return h(ex, args, kwargs, line)
    a0 = args[0] if args else None
    if name == 'noop':
        return None
    if name == 'len':
        if isinstance(a0, Arr):
            if a0.objs is not None:
                return len(a0.objs)
            return a0.shape[0]
        if isinstance(a0, (list, tuple, dict, str, set)):
            return len(a0)
        from . import strings
        if isinstance(a0, strings.SStr):
            return strings.length(ex, a0)
        hnd = ex.ext_len_handlers.get(type(a0).__name__)
        if hnd:
            return hnd(ex, a0, line)
        ex.raise_exc('TypeError', 'object has no len()', line)
    if name in ('int', 'long'):
        return fn_int(ex, a0 if args else 0, line)
    if name == 'float':
        return fn_float(ex, a0 if args else 0, line)
    if name in ('abs', 'fabs', 'math.fabs', 'np.abs', 'np.fabs', 'np.absolute'):
        return fn_abs(ex, a0)
    if name in ('max', 'min'):
        return fn_minmax(ex, name, args, kwargs, line)
    if name in ('np.maximum', 'np.minimum'):
        return fn_minmax(ex, name[3:6], args, kwargs, line)
    if name in ('exp', 'math.exp', 'np.exp'):
        return _unary_real(ex, 'exp', a0, line)
    if name in ('np.log', 'math.log', 'log'):
        if len(args) == 2:
            raise Unsupported('log with base')
        return np_log(ex, a0, line)
    if name == 'np.where' and len(args) == 3:
        # numpy: a NEW array, element j is x[j] where the mask holds and y[j] elsewhere (x, y arrays of the mask's length or scalars)
        from . import arrays
        c, x, y = args
        if not (isinstance(c, Arr) and c.ndim == 1 and c.elem == BOOL):
            raise Unsupported('np.where with a condition that is not a 1-D boolean array (line %s)' % line)
        for o in (x, y):
            if isinstance(o, Arr):
                if o.ndim != 1:
                    raise Unsupported('np.where on rank>1 operands (line %s)' % line)
                ex.oblige('bounds', tm.eq(to_term(c.shape[0]), to_term(o.shape[0])), label='broadcast', line=line, note='np.where operands have the length of the mask')
        pick = lambda o, j: tm.to_real(arrays.elem1(o, j)) if isinstance(o, Arr) else tm.to_real(to_term(o))
        return arrays.pointwise(ex, c.shape[0], 'where', REAL, lambda j: tm.ite(arrays.elem1(c, j), pick(x, j), pick(y, j)))
    if name in ('sqrt', 'math.sqrt', 'np.sqrt'):
        return _unary_real(ex, 'sqrt', a0, line)
    if name in ('cos', 'math.cos', 'np.cos'):
        return _unary_real(ex, 'cos', a0, line)
    if name in ('sin', 'math.sin', 'np.sin'):
        return _unary_real(ex, 'sin', a0, line)
    if name in ('pow', 'math.pow', 'np.power'):
        return ex.power(tm.to_real(to_term(args[0])), tm.to_real(to_term(args[1])), line)
    if name in ('math.gamma', 'scipy.special.gamma', 'sc.gamma'):
        return tm.app('Gamma', (tm.to_real(to_term(a0)),), REAL)
    if name == 'scipy.special.beta':
        return tm.app('Beta', (tm.to_real(to_term(args[0])), tm.to_real(to_term(args[1]))), REAL)
    if name in ('math.floor', 'np.floor', 'floor'):
        t = to_term(a0)
        r = tm.to_int_floor(t)
        return r if name == 'math.floor' else tm.to_real(r)
    if name in ('math.ceil', 'np.ceil', 'ceil'):
        t = to_term(a0)
        r = tm.neg(tm.to_int_floor(tm.neg(t)))
        return r if name == 'math.ceil' else tm.to_real(r)
    if name in ('np.isnan', 'math.isnan'):
        if isinstance(a0, float):
            return a0 != a0
        if isinstance(a0, (T, int)):
            return False
        if isinstance(a0, Arr):
            return arrays.pointwise(ex, a0.shape[0], 'isnan', BOOL, lambda j: tm.FALSE)
        raise Unsupported('isnan of %r' % (a0,))
    if name in ('np.isfinite', 'math.isfinite'):
        if isinstance(a0, float):
            return not (a0 != a0 or a0 in (INF, -INF))
        if isinstance(a0, (T, int)):
            return True
        raise Unsupported('isfinite of %r' % (a0,))
    if name in ('np.isinf', 'math.isinf'):
        if isinstance(a0, float):
            return a0 in (INF, -INF)
        if isinstance(a0, (T, int)):
            return False
        raise Unsupported('isinf of %r' % (a0,))
    if name == 'isinstance':
        return fn_isinstance(ex, args[0], args[1], line)
    if name == 'issubclass':
        a, b = args
        if isinstance(a, ClassRef) and isinstance(b, ClassRef):
            return ex.program.is_subclass(a.cls, b.cls.name)
        raise Unsupported('issubclass')
    if name == 'bool':
        t = ex.truth(a0) if args else False
        return t
    if name == 'str' or name == 'repr' or name == 'unicode':
        if not args:
            return ''
        return ex.to_str(a0)
    if name == 'list':
        if not args:
            return []
        return list(iterate(ex, a0, line))
    if name == 'tuple':
        if not args:
            return ()
        return tuple(iterate(ex, a0, line))
    if name == 'set':
        if not args:
            return set()
        return set(iterate(ex, a0, line))
    if name == 'dict':
        d = {}
        if args:
            if isinstance(a0, dict):
                d.update(a0)
            else:
                for k, v in iterate(ex, a0, line):
                    d[ex.hashable(k)] = v
        d.update(kwargs)
        return d
    if name == 'range' or name == 'xrange':
        return list(range(*[ex.concrete_int(a, 'range bound') for a in args]))
    if name == 'enumerate':
        start = ex.concrete_int(args[1]) if len(args) > 1 else kwargs.get('start', 0)
        return [(i + start, x) for i, x in enumerate(iterate(ex, a0, line))]
    if name == 'zip':
        return list(zip(*[iterate(ex, a, line) for a in args]))
    if name == 'reversed':
        return list(reversed(iterate(ex, a0, line)))
    if name == 'sorted':
        items = iterate(ex, a0, line)
        if any(isinstance(x, T) for x in items):
            raise Unsupported('sorting symbolic values')
        return sorted(items, reverse=bool(kwargs.get('reverse', False)))
    if name == 'sum':
        acc = args[1] if len(args) > 1 else 0
        if isinstance(a0, Arr) and not (isinstance(a0.shape[0], int) or a0.shape[0].is_const()):
            return tm.app('sum', (a0.term, to_term(a0.shape[0])), REAL)
        for x in iterate(ex, a0, line):
            acc = ex.binop('+', acc, x)
        return acc
    if name in ('any', 'all'):
        items = iterate(ex, a0, line)
        acc = (name == 'all')
        for x in items:
            t = ex.truth(x)
            if isinstance(t, bool) and isinstance(acc, bool):
                acc = (acc and t) if name == 'all' else (acc or t)
            else:
                ta = acc if isinstance(acc, T) else tm.mk_bool(acc)
                tt = t if isinstance(t, T) else tm.mk_bool(t)
                acc = tm.and_(ta, tt) if name == 'all' else tm.or_(ta, tt)
        return acc
    if name == 'round' or name == 'np.round' or name == 'np.around':
        return fn_round(ex, args, kwargs, line)
    if name == 'type':
        if isinstance(a0, Obj):
            return ClassRef(a0.cls)
        if isinstance(a0, (list, dict, tuple, str, set)):
            return Builtin(type(a0).__name__)
        if type(a0).__name__ == 'DataFrameVal':
            return Builtin('pandas.DataFrame')
        return Builtin('type:' + type(a0).__name__)
    if name == 'hasattr':
        o, attr = args
        if isinstance(o, Obj):
            if o.cls is not None and getattr(o.cls.module, 'is_pyx', False):
                # cdef attributes (not declared public) are invisible to Python-level attribute lookup; def methods are visible
                m = ex.program.find_method(o.cls, attr, with_body=False)
                return bool(m is not None and m.kind in ('def', 'cpdef', 'py'))
            if attr in o.fields:
                return True
            if o.cls is not None and ex.program.find_method(o.cls, attr, with_body=False):
                return True
            return False
        raise Unsupported('hasattr on %r' % type(o).__name__)
    if name == 'getattr':
        o, attr = args[0], args[1]
        try:
            return ex.getattr_value(o, attr, line)
        except RaiseSig:
            if len(args) > 2:
                return args[2]
            raise
    if name == 'setattr':
        ex.set_attr(args[0], args[1], args[2], line)
        return None
    if name == 'callable':
        return isinstance(a0, (FuncRef, BoundMethod, Builtin, ClassRef, Closure, BuiltinMethod))
    if name == 'id':
        return id(a0)
    if name == 'print':
        return None
    if name.startswith('np.') or name.startswith('numpy.'):
        return call_numpy(ex, name.split('.', 1)[1], args, kwargs, line)
    if name.startswith('copy.'):
        from . import pyobjects
        return pyobjects.copy_value(ex, a0, deep=name.endswith('deepcopy'))
    if name == 'vector':
        return []
    if name == 'super':
        fr = ex.frame
        if fr.func is None or fr.func.cls is None or fr.self_obj is None:
            raise Unsupported('super() outside a method')
        return SuperRef(fr.self_obj, fr.func.cls)
    raise Unsupported('builtin %s (line %s)' % (name, line))


def fn_round(ex, args, kwargs, line):
    x = args[0]
    nd = args[1] if len(args) > 1 else kwargs.get('decimals', kwargs.get('ndigits', 0))
    nd = ex.concrete_int(nd) if not isinstance(nd, int) else nd
    if isinstance(x, Arr) and x.ndim == 2:
        r = Arr(ex.fresh('rounded', x.term.sort), list(x.shape), REAL, 'ndarray', 'rounded')
        i, j = ex.fresh('i_rnd', INT), ex.fresh('j_rnd', INT)
        ex.assume_fact(tm.forall([i, j], tm.eq(tm.select(tm.select(r.term, i), j),
                                               tm.app('round%d' % nd, (tm.select(tm.select(x.term, i), j),), REAL))))
        return r
    if isinstance(x, Arr):
        return arrays.map1(ex, x, lambda e: tm.app('round%d' % nd, (tm.to_real(e),), REAL))
    return tm.app('round%d' % nd, (tm.to_real(to_term(x)),), REAL)


def fn_isinstance(ex, v, c, line):
    if isinstance(c, tuple):
        acc = False
        for x in c:
            r = fn_isinstance(ex, v, x, line)
            if r is True:
                return True
        return acc
    if isinstance(c, ClassRef):
        if isinstance(v, Obj) and v.cls is not None:
            if ex.program.is_subclass(v.cls, c.cls.name):
                return True
            if v.symbolic and not v.exact and ex.program.is_subclass(c.cls, v.cls.name):
                raise Unsupported('isinstance on an object of unknown dynamic class (line %s)' % line)
            return False
        if isinstance(v, Arr) and c.cls.name == 'ndarray':
            return True
        return False
    if isinstance(c, Builtin):
        n = c.name
        if n in ('int', 'long', 'dtype:int'):
            return (isinstance(v, int) and not isinstance(v, bool)) or (isinstance(v, T) and v.sort == INT)
        if n in ('float', 'dtype:float'):
            return isinstance(v, float) or (isinstance(v, T) and v.sort == REAL)
        if n == 'str' or n == 'unicode':
            from . import strings
            return isinstance(v, (str, strings.SStr))
        if n == 'bool':
            return isinstance(v, bool) or (isinstance(v, T) and v.sort == BOOL)
        if n == 'list':
            return isinstance(v, list)
        if n == 'dict':
            return isinstance(v, dict)
        if n == 'tuple':
            return isinstance(v, tuple)
        if n == 'set':
            return isinstance(v, set)
        if n == 'np.ndarray':
            return isinstance(v, Arr)
        if n == 'object':
            return True
        if n.startswith('exc:'):
            return isinstance(v, ExcVal) and v.clsname == n[4:]
        h = ex.ext_isinstance.get(n)
        if h is not None:
            return h(ex, v)
    raise Unsupported('isinstance(%r, %r) (line %s)' % (type(v).__name__, c, line))


def call_numpy(ex, fn, args, kwargs, line):
    a0 = args[0] if args else None
    if fn in ('zeros', 'ones', 'empty'):
        shape = shape_arg(ex, a0)
        dt = kwargs.get('dtype', args[1] if len(args) > 1 else None)
        if isinstance(dt, Builtin) and dt.name == 'object' or (isinstance(dt, Builtin) and dt.name == 'dtype:object'):
            a = Arr(None, shape, None, 'ndarray', 'objarr')
            a.objs = [None] * ex.concrete_int(shape[0])
            return a
        elem = INT if (isinstance(dt, Builtin) and dt.name in ('dtype:int', 'int')) else REAL
        if fn == 'empty':
            s = elem
            for _ in shape:
                s = tm.ArraySort(INT, s)
            return Arr(ex.fresh('empty', s), shape, elem, 'ndarray', 'empty')
        return arrays.zeros(ex, shape, elem, fn, 1 if fn == 'ones' else 0)
    if fn in ('zeros_like', 'ones_like'):
        return arrays.zeros(ex, list(a0.shape), a0.elem, fn, 1 if fn == 'ones_like' else 0)
    if fn in ('array', 'asarray', 'copy', 'ascontiguousarray'):
        if isinstance(a0, Arr):
            if fn == 'asarray':
                return a0
            return arrays.fresh_like(ex, a0)
        return array_from_list(ex, a0, kwargs, line)
    if fn == 'copyto':
        dst, src = args
        if not isinstance(dst, Arr) or not isinstance(src, Arr):
            raise Unsupported('copyto operands')
        ex.note_write(('A', arrays.root_of(dst).oid), dst.name)
        dst.term = src.term
        if getattr(dst, 'is_ghost_pvals', False):
            ex.note_write(('G', 'pvals'), 'ghost:pvals')
            ex.ghost.setdefault('g', {})['pvals'] = src.term       # the accessor's array IS the interface parameter vector
        return None
    if fn == 'concatenate':
        parts = list(a0)
        if not all(isinstance(x, Arr) and x.ndim == 1 for x in parts):
            raise Unsupported('np.concatenate of non-1-D operands (line %s)' % line)
        lens = [x.shape[0] for x in parts]
        conc = all(isinstance(n, int) or (isinstance(n, T) and n.is_const()) for n in lens)
        elem = REAL if any(x.elem == REAL for x in parts) else parts[0].elem
        if conc:
            t = tm.constarr(tm.ArraySort(INT, elem), tm.mk_real(0) if elem == REAL else tm.mk_int(0))
            pos = 0
            nanmask = None
            if any(getattr(x, 'nan', None) is not None for x in parts):
                nanmask = tm.constarr(tm.ArraySort(INT, BOOL), tm.FALSE)
            for x in parts:
                for j in range(ex.concrete_int(x.shape[0])):
                    v = tm.select(x.term, tm.mk_int(j))
                    t = tm.store(t, tm.mk_int(pos), tm.to_real(v) if elem == REAL else v)
                    if nanmask is not None and getattr(x, 'nan', None) is not None:
                        nanmask = tm.store(nanmask, tm.mk_int(pos), tm.select(x.nan, tm.mk_int(j)))
                    pos += 1
            r = Arr(t, [pos], elem, 'ndarray', 'concat')
            r.nan = nanmask
            return r
        if len(parts) != 2:
            raise Unsupported('np.concatenate of %d symbolic-length arrays' % len(parts))
        a, b = parts
        n1 = to_term(a.shape[0])
        return arrays.pointwise(ex, tm.add(n1, to_term(b.shape[0])), 'concat', elem,
                                lambda j: tm.ite(tm.lt(j, n1), tm.to_real(tm.select(a.term, j)) if elem == REAL else tm.select(a.term, j),
                                                 tm.to_real(tm.select(b.term, tm.sub(j, n1))) if elem == REAL else tm.select(b.term, tm.sub(j, n1))))
    if fn == 'transpose':
        from . import reshape as _rs
        if isinstance(a0, Arr) and a0.ndim == 2:
            r, cc = [ex.concrete_int(x) for x in a0.shape]
            items = [tm.select(tm.select(a0.term, tm.mk_int(i)), tm.mk_int(j)) for j in range(cc) for i in range(r)]
            return _rs.build(ex, items, [cc, r], a0.elem, 'transposed')
        if isinstance(a0, Arr) and a0.ndim == 1:
            return a0
        raise Unsupported('np.transpose of rank %r (line %s)' % (getattr(a0, 'ndim', None), line))
    if fn == 'reshape':
        from . import reshape as _rs
        return _rs.reshape(ex, args[0], [args[1]], kwargs, line)
    if fn == 'shape':
        if isinstance(a0, Arr):
            return tuple(a0.shape)
        if isinstance(a0, (list, tuple)):
            def shp(x):
                if isinstance(x, Arr):
                    return tuple(x.shape)
                if isinstance(x, (list, tuple)) and x:
                    return (len(x),) + shp(x[0])
                if isinstance(x, (list, tuple)):
                    return (0,)
                return ()
            return shp(a0)
        return ()
    if fn == 'isscalar':
        return is_num(a0)
    if fn == 'prod':
        acc = 1
        for x in iterate(ex, a0, line):
            acc = ex.binop('*', acc, x)
        return acc
    if fn == 'sum':
        return call_builtin(ex, 'sum', args, {}, line)
    if fn == 'linspace' or fn == 'arange':
        return np_linspace(ex, fn, args, kwargs, line)
    h = ex.ext_numpy.get(fn)
    if h is not None:
        return h(ex, args, kwargs, line)
    raise Unsupported('numpy.%s (line %s)' % (fn, line))


def np_linspace(ex, fn, args, kwargs, line):
    if fn == 'arange':
        if len(args) == 1:
            lo, hi, st = 0, args[0], 1
        elif len(args) == 2:
            lo, hi, st = args[0], args[1], 1
        else:
            lo, hi, st = args
        raise Unsupported('np.arange (line %s)' % line)
    raise Unsupported('np.linspace (line %s)' % line)


def array_from_list(ex, v, kwargs, line):
    """np.array(list of numbers / list of lists / list of 1-D arrays)"""
    if isinstance(v, (list, tuple)):
        if len(v) == 0:
            return arrays.zeros(ex, [0], REAL, 'arr0')
        if all(is_num(x) or isinstance(x, Fraction) for x in v):
            elem = REAL
            if all((isinstance(x, int) and not isinstance(x, bool)) or (isinstance(x, T) and x.sort == INT) for x in v) and \
                    not (isinstance(kwargs.get('dtype'), Builtin) and 'float' in kwargs['dtype'].name):
                elem = INT
            t = tm.constarr(tm.ArraySort(INT, elem), tm.mk_real(0) if elem == REAL else tm.mk_int(0))
            nanmask = None
            for i, x in enumerate(v):
                if isinstance(x, float) and x != x:
                    if nanmask is None:
                        nanmask = tm.constarr(tm.ArraySort(INT, BOOL), tm.FALSE)
                    nanmask = tm.store(nanmask, tm.mk_int(i), tm.TRUE)
                    x = ex.fresh('nanval', REAL)
                    elem_is_real = True
                xt = to_term(x)
                t = tm.store(t, tm.mk_int(i), tm.to_real(xt) if elem == REAL else xt)
            r = Arr(t, [len(v)], elem, 'ndarray', 'arr')
            r.nan = nanmask
            return r
        if all(isinstance(x, (list, tuple)) for x in v):
            rows = [array_from_list(ex, list(x), kwargs, line) for x in v]
        elif all(isinstance(x, Arr) for x in v):
            rows = list(v)
        else:
            if all(isinstance(x, Obj) or x is None for x in v):
                a = Arr(None, [len(v)], None, 'ndarray', 'objarr')
                a.objs = list(v)
                return a
            raise Unsupported('np.array of mixed content (line %s)' % line)
        if all(r.ndim == 2 for r in rows):
            from . import reshape as _rs
            items = []
            for r in rows:
                items.extend(_rs.flat_items(ex, r))
            return _rs.build(ex, items, [len(rows)] + [ex.concrete_int(x) for x in rows[0].shape], REAL, 'arr3')
        if any(r.ndim != 1 for r in rows):
            raise Unsupported('np.array of rank>1 rows (line %s)' % line)
        n0 = rows[0].shape[0]
        for r in rows[1:]:
            ex.oblige('bounds', tm.eq(to_term(r.shape[0]), to_term(n0)), label='np.array', line=line, note='ragged rows')
        elem = REAL
        t = tm.constarr(tm.ArraySort(INT, tm.ArraySort(INT, elem)), tm.constarr(tm.ArraySort(INT, elem), tm.mk_real(0)))
        for i, r in enumerate(rows):
            rt = r.term
            if r.elem != REAL:
                raise Unsupported('np.array of int rows')
            t = tm.store(t, tm.mk_int(i), rt)
        return Arr(t, [len(rows), n0], elem, 'ndarray', 'arr2')
    if is_num(v):
        return v
    raise Unsupported('np.array(%r) (line %s)' % (type(v).__name__, line))


def call_builtin_method(ex, o, name, args, kwargs, line, node=None):
    from . import pyobjects
    return pyobjects.call_method(ex, o, name, args, kwargs, line)
