"""Contract registry (sidecar contracts: nothing in /repo is annotated).

A contract is keyed by (module short name, qualified function name).  Clauses are Python-expression strings that are
parsed with `ast` and evaluated by the *same* symbolic evaluator as the code under verification (bsvc.symexec), in
an environment that binds the parameters, `result`, `old(...)`, `self`, and the spec functions of /verif/spec.
"""
import ast

from . import front_py

REGISTRY = {}      # (module, qualname, variant) -> Contract
FIELD_HINTS = {}   # 'Class.field' -> dict(ndim=, elem=, refcls=)   (shape hints for untyped array fields)
ORDER = []


class LoopSpec(object):
    def __init__(self, ordinal):
        self.ordinal = ordinal
        self.invariants = []     # [(label, expr_ir)]
        self.steps = []          # [(label, expr_ir, text)] two-state clauses checked at the end of one iteration
        self.breaks = []         # [(label, expr_ir, text)] clauses that must hold whenever the loop is left by `break`
        self.unroll = None       # int: concrete unrolling allowed up to this many iterations
        self.cut_at = None       # int: BOUNDED exploration - a path reaching this many iterations of a concretely unrolled loop is cut (counted)
        self.modifies_extra = [] # extra havoc targets (expression strings)
        self.decreases = None


class Contract(object):
    def __init__(self, module, qualname, props, variant=''):
        self.module = module
        self.qualname = qualname
        self.variant = variant
        self.props = list(props)
        self.requires_ = []       # [(label, ir)]
        self.ensures_ = []        # [(label, ir)]
        self.defines_ = []        # [(label, ir, text)] definitional clauses: introduce a symbol as "the value this function returns";
                                  # assumed at call sites, not checked against the body (listed in evidence)
        self.raises_ = {}         # exc class name -> condition ir (when it MUST/MAY be raised); None = may
        self.raises_iff = []      # [(exc name, cond ir)]
        self.modifies_ = None     # None = unspecified (no frame check); [] = pure
        self.loops = {}           # ordinal -> LoopSpec
        self.hints = {}           # param/field path -> dict(ndim=, elem=, len=)
        self.setup_ = []          # python callables (ex, st) run after the symbolic inputs exist
        self.inline_ = set()      # callee qualnames to inline even if they have contracts
        self.use_contract_ = set()
        self.self_class = None    # verify the (inherited) body with self of this concrete class
        self.abstract = False     # contract of an abstract method: never verified against a body, only assumed
        self.pure_fn = None       # name of the uninterpreted function standing for the result (abstract methods)
        self.verify_body = True
        self.notes = []
        self.ghost_ = []
        self.assume_ = []         # [(label, ir, reason)] -- listed in evidence as assumptions
        self.lets_ = []           # [(name, ir)] spec-level local definitions usable in clauses
        self.path_limit = 400
        self.concrete_self = None  # callable building a concrete-shaped self
        self.after_ = []           # python hooks run at function exit (ex, st, result)
        self.opts = {}

    # ---- clause builders ---------------------------------------------------------------------
    def requires(self, expr, label=None):
        self.requires_.append((label or 'pre#%d' % (len(self.requires_) + 1), parse_expr(expr), expr))
        return self

    def ensures(self, expr, label=None):
        self.ensures_.append((label or 'post#%d' % (len(self.ensures_) + 1), parse_expr(expr), expr))
        return self

    def defines(self, expr, label=None):
        self.defines_.append((label or 'def#%d' % (len(self.defines_) + 1), parse_expr(expr), expr))
        return self

    def assume(self, expr, reason, label=None):
        self.assume_.append((label or 'assume#%d' % (len(self.assume_) + 1), parse_expr(expr), expr, reason))
        return self

    def let(self, name, expr):
        self.lets_.append((name, parse_expr(expr), expr))
        return self

    def raises(self, exc, when=None):
        """the function may raise `exc`; with `when`, it raises exactly when the condition holds in the pre-state"""
        self.raises_[exc] = (parse_expr(when), when) if when is not None else None
        return self

    def modifies(self, *paths):
        self.modifies_ = list(paths)
        return self

    def loop(self, ordinal):
        ls = self.loops.get(ordinal)
        if ls is None:
            ls = self.loops[ordinal] = LoopSpecBuilder(ordinal)
        return ls

    def array(self, path, ndim=1, elem='Real', shape=None):
        self.hints[path] = dict(ndim=ndim, elem=elem, shape=shape)
        return self

    def setup(self, fn):
        self.setup_.append(fn)
        return fn

    def after(self, fn):
        self.after_.append(fn)
        return fn

    def inline(self, *names):
        self.inline_.update(names)
        return self

    def note(self, s):
        self.notes.append(s)
        return self

    def opt(self, **kw):
        self.opts.update(kw)
        return self

    @property
    def key(self):
        return (self.module, self.qualname, self.variant)

    @property
    def fid(self):
        return '%s::%s%s' % (self.module, self.qualname, ('@' + self.variant) if self.variant else '')


class LoopSpecBuilder(LoopSpec):
    def invariant(self, expr, label=None):
        self.invariants.append((label or 'inv#%d' % (len(self.invariants) + 1), parse_expr(expr), expr))
        return self

    def step(self, expr, label=None):
        """clause over head(...) (state at the head of an arbitrary iteration) and the state at the end of the body"""
        self.steps.append((label or 'step#%d' % (len(self.steps) + 1), parse_expr(expr), expr))
        return self

    def at_break(self, expr, label=None):
        """clause (may use head(...)) that must hold in the state in which the loop is left by a break statement"""
        self.breaks.append((label or 'break#%d' % (len(self.breaks) + 1), parse_expr(expr), expr))
        return self

    def unroll_up_to(self, n):
        self.unroll = n
        return self

    def cut_after(self, n):
        """bounded stand-in: paths with more than n iterations of this (concretely unrolled) loop are not explored; the cuts are
        counted and reported in the evidence as bounded"""
        self.cut_at = n
        return self

    def also_modifies(self, *paths):
        self.modifies_extra.extend(paths)
        return self


def field_hint(path, **kw):
    FIELD_HINTS[path] = kw


def parse_expr(s):
    if s is None:
        return None
    node = ast.parse(s.strip(), mode='eval').body
    return front_py.expr(node)


def fuc(module, qualname, props=(), variant=''):
    """decorator: @fuc('simulator', 'ArrayDelayQueue.add_reaction', props=['C20'])"""
    def deco(fn):
        c = Contract(module, qualname, props, variant)
        fn(c)
        if c.key in REGISTRY:
            raise KeyError('duplicate contract %s' % (c.key,))
        REGISTRY[c.key] = c
        ORDER.append(c.key)
        return fn
    return deco


def lookup(module, qualname, variant=''):
    return REGISTRY.get((module, qualname, variant))


def contracts_for(prop):
    return [REGISTRY[k] for k in ORDER if prop in REGISTRY[k].props]
