"""SMT terms: immutable, sorted, printable as SMT-LIB 2.

Sorts: 'Real', 'Int', 'Bool', ('Array', idx_sort, elem_sort).
A term is T(op, args, sort).  Leaves: op == 'const' (args = (python value,)), op == 'var' (args = (name,)).
Uninterpreted applications: op == 'app', args = (fname, a1, ..., an).
"""
from fractions import Fraction

REAL, INT, BOOL = 'Real', 'Int', 'Bool'


def ArraySort(idx, elem):
    return ('Array', idx, elem)


def sort_str(s):
    if isinstance(s, tuple):
        return '(Array %s %s)' % (sort_str(s[1]), sort_str(s[2]))
    return s


class T(object):
    __slots__ = ('op', 'args', 'sort', '_h')

    def __init__(self, op, args, sort):
        self.op = op
        self.args = tuple(args)
        self.sort = sort
        self._h = hash((op, self.args, sort if not isinstance(sort, list) else tuple(sort)))

    def __hash__(self):
        return self._h

    def __eq__(self, o):
        return isinstance(o, T) and self._h == o._h and self.op == o.op and self.sort == o.sort and self.args == o.args

    def __ne__(self, o):
        return not self.__eq__(o)

    def __deepcopy__(self, memo):
        return self

    def __copy__(self):
        return self

    def __repr__(self):
        return 'T<%s>' % smt(self)

    # no truthiness: using a term in a Python `if` is an engine bug
    def __bool__(self):
        raise TypeError('symbolic term used as Python bool: %s' % smt(self))

    def is_const(self):
        return self.op == 'const'

    def value(self):
        return self.args[0]


def is_term(x):
    return isinstance(x, T)


TRUE = T('const', (True,), BOOL)
FALSE = T('const', (False,), BOOL)


def mk_bool(b):
    return TRUE if b else FALSE


def mk_int(v):
    return T('const', (int(v),), INT)


def mk_real(v):
    if isinstance(v, float):
        if v != v or v in (float('inf'), float('-inf')):
            raise ValueError('non-finite real constant')
        v = Fraction(repr(v))
    elif isinstance(v, str):
        v = Fraction(v)
    elif isinstance(v, bool):
        v = Fraction(int(v))
    elif not isinstance(v, Fraction):
        v = Fraction(v)
    return T('const', (v,), REAL)


def var(name, sort):
    return T('var', (name,), sort)


def app(fname, args, sort):
    return T('app', (fname,) + tuple(args), sort)


def to_real(t):
    if t.sort == REAL:
        return t
    if t.sort == BOOL:
        return ite(t, mk_real(1), mk_real(0))
    assert t.sort == INT, t
    if t.is_const():
        return mk_real(t.value())
    return T('to_real', (t,), REAL)


def bool_to_int(t):
    if t.sort == BOOL:
        if t.is_const():
            return mk_int(1 if t.value() else 0)
        return ite(t, mk_int(1), mk_int(0))
    return t


def _num2(a, b):
    """coerce two numeric terms to a common sort"""
    a = bool_to_int(a)
    b = bool_to_int(b)
    if a.sort == b.sort:
        return a, b, a.sort
    return to_real(a), to_real(b), REAL


def _flat(op, a, b):
    xs = []
    for t in (a, b):
        if t.op == op:
            xs.extend(t.args)
        else:
            xs.append(t)
    return xs


def add(a, b):
    a, b, s = _num2(a, b)
    if a.is_const() and b.is_const():
        return T('const', (a.value() + b.value(),), s)
    if a.is_const() and a.value() == 0:
        return b
    if b.is_const() and b.value() == 0:
        return a
    return T('+', _flat('+', a, b), s)


def sub(a, b):
    a, b, s = _num2(a, b)
    if a.is_const() and b.is_const():
        return T('const', (a.value() - b.value(),), s)
    if b.is_const() and b.value() == 0:
        return a
    if a == b:
        return T('const', (0 if s == INT else Fraction(0),), s)
    return T('-', (a, b), s)


def neg(a):
    a = bool_to_int(a)
    if a.is_const():
        return T('const', (-a.value(),), a.sort)
    if a.op == 'neg':
        return a.args[0]
    return T('neg', (a,), a.sort)


def mul(a, b):
    a, b, s = _num2(a, b)
    if a.is_const() and b.is_const():
        return T('const', (a.value() * b.value(),), s)
    for x, y in ((a, b), (b, a)):
        if x.is_const():
            if x.value() == 1:
                return y
            if x.value() == 0:
                return x
    return T('*', _flat('*', a, b), s)


def rdiv(a, b):
    """real division"""
    a = to_real(bool_to_int(a))
    b = to_real(bool_to_int(b))
    if a.is_const() and b.is_const() and b.value() != 0:
        return mk_real(Fraction(a.value()) / Fraction(b.value()))
    if b.is_const() and b.value() == 1:
        return a
    return T('/', (a, b), REAL)


def idiv_floor(a, b):
    """SMT-LIB div (floor for positive divisor)"""
    assert a.sort == INT and b.sort == INT
    if a.is_const() and b.is_const() and b.value() != 0:
        return mk_int(_smt_div(a.value(), b.value()))
    return T('div', (a, b), INT)


def _smt_div(x, y):
    # SMT-LIB: x = y*q + r with 0 <= r < |y|
    r = x % abs(y)
    return (x - r) // y


def imod(a, b):
    """SMT-LIB mod (result in [0,|b|))"""
    assert a.sort == INT and b.sort == INT
    if a.is_const() and b.is_const() and b.value() != 0:
        return mk_int(a.value() % abs(b.value()))
    return T('mod', (a, b), INT)


def ite(c, a, b):
    if c.is_const():
        return a if c.value() else b
    if a.sort != b.sort:
        if a.sort == BOOL or b.sort == BOOL:
            a, b = bool_to_int(a), bool_to_int(b)
        a, b, _ = _num2(a, b)
    if a == b:
        return a
    return T('ite', (c, a, b), a.sort)


def eq(a, b):
    if a.sort != b.sort:
        if isinstance(a.sort, tuple) or isinstance(b.sort, tuple):
            raise TypeError('eq on different array sorts')
        a, b, _ = _num2(a, b)
    if a.is_const() and b.is_const():
        return mk_bool(a.value() == b.value())
    if a == b:
        return TRUE
    return T('=', (a, b), BOOL)


def ne(a, b):
    return not_(eq(a, b))


def _cmp(op, pyop, a, b):
    a, b, _ = _num2(a, b)
    if a.is_const() and b.is_const():
        return mk_bool(pyop(a.value(), b.value()))
    if a == b:
        return mk_bool(pyop(0, 0))
    return T(op, (a, b), BOOL)


def lt(a, b):
    return _cmp('<', lambda x, y: x < y, a, b)


def le(a, b):
    return _cmp('<=', lambda x, y: x <= y, a, b)


def gt(a, b):
    return lt(b, a)


def ge(a, b):
    return le(b, a)


def not_(a):
    assert a.sort == BOOL, a
    if a.is_const():
        return mk_bool(not a.value())
    if a.op == 'not':
        return a.args[0]
    return T('not', (a,), BOOL)


def and_(*xs):
    out = []
    for x in xs:
        assert x.sort == BOOL, x
        if x.is_const():
            if not x.value():
                return FALSE
            continue
        if x.op == 'and':
            out.extend(x.args)
        else:
            out.append(x)
    # dedupe, keep order
    seen = set()
    o2 = []
    for x in out:
        if x not in seen:
            seen.add(x)
            o2.append(x)
    if not o2:
        return TRUE
    if len(o2) == 1:
        return o2[0]
    return T('and', o2, BOOL)


def or_(*xs):
    out = []
    for x in xs:
        assert x.sort == BOOL, x
        if x.is_const():
            if x.value():
                return TRUE
            continue
        if x.op == 'or':
            out.extend(x.args)
        else:
            out.append(x)
    seen = set()
    o2 = []
    for x in out:
        if x not in seen:
            seen.add(x)
            o2.append(x)
    if not o2:
        return FALSE
    if len(o2) == 1:
        return o2[0]
    return T('or', o2, BOOL)


def implies(a, b):
    if a.is_const():
        return b if a.value() else TRUE
    if b.is_const() and b.value():
        return TRUE
    return T('=>', (a, b), BOOL)


def select(a, i):
    assert isinstance(a.sort, tuple), a
    if a.sort[1] == REAL:
        i = to_real(i)
    # read-over-write with syntactically equal / distinct-constant index
    t = a
    while t.op == 'store':
        j = t.args[1]
        if j == i:
            return t.args[2]
        if j.is_const() and i.is_const():
            t = t.args[0]
            continue
        break
    if t.op == 'constarr':
        return t.args[0]
    return T('select', (t, i), a.sort[2])


def store(a, i, v):
    assert isinstance(a.sort, tuple), a
    es = a.sort[2]
    if es == REAL and not isinstance(v.sort, tuple):
        v = to_real(bool_to_int(v))
    if es == INT and v.sort == BOOL:
        v = bool_to_int(v)
    assert v.sort == es, (v, es)
    return T('store', (a, i, v), a.sort)


def constarr(sort, v):
    return T('constarr', (v,), sort)


def to_int_floor(a):
    """SMT-LIB to_int (floor)"""
    if a.sort == INT:
        return a
    if a.is_const():
        import math
        return mk_int(math.floor(a.value()))
    return T('to_int', (a,), INT)


def trunc(a):
    """C truncation toward zero of a real"""
    if a.sort == INT:
        return a
    if a.is_const():
        v = a.value()
        import math
        return mk_int(math.floor(v) if v >= 0 else -math.floor(-v))
    return ite(ge(a, mk_real(0)), to_int_floor(a), neg(to_int_floor(neg(a))))


def forall(vars_, body):
    """vars_: list of var terms"""
    if body.is_const():
        return body
    return T('forall', (tuple(vars_), body), BOOL)


def exists(vars_, body):
    if body.is_const():
        return body
    return T('exists', (tuple(vars_), body), BOOL)


# ----------------------------------------------------------------------------------------------
# printing

def _const_str(v, sort):
    if sort == BOOL:
        return 'true' if v else 'false'
    if sort == INT:
        return str(v) if v >= 0 else '(- %d)' % (-v)
    f = Fraction(v)
    n, d = f.numerator, f.denominator
    s = '%d.0' % abs(n)
    if d != 1:
        s = '(/ %s %d.0)' % (s, d)
    if n < 0:
        s = '(- %s)' % s
    return s


_memo_print = {}


def smt(t):
    r = _memo_print.get(t)
    if r is not None:
        return r
    op = t.op
    if op == 'const':
        r = _const_str(t.args[0], t.sort)
    elif op == 'var':
        r = t.args[0]
    elif op == 'app':
        if len(t.args) == 1:
            r = t.args[0]
        else:
            r = '(%s %s)' % (t.args[0], ' '.join(smt(a) for a in t.args[1:]))
    elif op == 'neg':
        r = '(- %s)' % smt(t.args[0])
    elif op == 'constarr':
        r = '((as const %s) %s)' % (sort_str(t.sort), smt(t.args[0]))
    elif op in ('forall', 'exists'):
        vs = ' '.join('(%s %s)' % (v.args[0], sort_str(v.sort)) for v in t.args[0])
        r = '(%s (%s) %s)' % (op, vs, smt(t.args[1]))
    else:
        r = '(%s %s)' % (op, ' '.join(smt(a) for a in t.args))
    if len(_memo_print) > 200000:
        _memo_print.clear()
    _memo_print[t] = r
    return r


def collect(t, vars_, apps, seen=None, bound=()):
    """collect free variables {name: sort} and applications {fname: (argsorts, sort)}"""
    if seen is None:
        seen = set()
    stack = [(t, frozenset(bound))]
    while stack:
        t, bnd = stack.pop()
        key = (t, bnd)
        if key in seen:
            continue
        seen.add(key)
        if t.op == 'var':
            if t.args[0] not in bnd:
                old = vars_.get(t.args[0])
                if old is not None and old != t.sort:
                    raise TypeError('variable %s used at sorts %s and %s' % (t.args[0], old, t.sort))
                vars_[t.args[0]] = t.sort
        elif t.op == 'const':
            pass
        elif t.op == 'app':
            sig = (tuple(a.sort for a in t.args[1:]), t.sort)
            old = apps.get(t.args[0])
            if old is not None and old != sig:
                raise TypeError('function %s used at signatures %s and %s' % (t.args[0], old, sig))
            apps[t.args[0]] = sig
            for a in t.args[1:]:
                stack.append((a, bnd))
        elif t.op in ('forall', 'exists'):
            b2 = bnd | frozenset(v.args[0] for v in t.args[0])
            stack.append((t.args[1], b2))
        else:
            for a in t.args:
                stack.append((a, bnd))


def subterms(t, pred, out=None, seen=None):
    """all subterms satisfying pred (not descending under quantifiers)"""
    if out is None:
        out = []
    if seen is None:
        seen = set()
    stack = [t]
    while stack:
        t = stack.pop()
        if t in seen:
            continue
        seen.add(t)
        if pred(t):
            out.append(t)
        if t.op in ('const', 'var'):
            continue
        if t.op == 'app':
            stack.extend(t.args[1:])
        elif t.op in ('forall', 'exists'):
            continue
        else:
            stack.extend(t.args)
    return out


def substitute(t, mapping, memo=None):
    """replace subterms (keys of mapping) by values"""
    if memo is None:
        memo = {}
    if t in mapping:
        return mapping[t]
    r = memo.get(t)
    if r is not None:
        return r
    if t.op in ('const', 'var'):
        r = t
    elif t.op == 'app':
        r = T('app', (t.args[0],) + tuple(substitute(a, mapping, memo) for a in t.args[1:]), t.sort)
    elif t.op in ('forall', 'exists'):
        inner = {k: v for k, v in mapping.items() if k not in t.args[0]}
        r = T(t.op, (t.args[0], substitute(t.args[1], inner)), t.sort)
    else:
        r = T(t.op, tuple(substitute(a, mapping, memo) for a in t.args), t.sort)
    memo[t] = r
    return r


def script(hyps, goal, logic='ALL', extra_decls=(), get_model=False, produce_unsat=False):
    """SMT-LIB text asserting hyps and (not goal)"""
    vars_, apps = {}, {}
    seen = set()
    for h in hyps:
        collect(h, vars_, apps, seen)
    if goal is not None:
        collect(goal, vars_, apps, seen)
    lines = []
    if get_model:
        lines.append('(set-option :produce-models true)')
    lines.append('(set-logic %s)' % logic)
    for n in sorted(vars_):
        lines.append('(declare-fun %s () %s)' % (n, sort_str(vars_[n])))
    for n in sorted(apps):
        a, s = apps[n]
        lines.append('(declare-fun %s (%s) %s)' % (n, ' '.join(sort_str(x) for x in a), sort_str(s)))
    lines.extend(extra_decls)
    for h in hyps:
        lines.append('(assert %s)' % smt(h))
    if goal is not None:
        lines.append('(assert (not %s))' % smt(goal))
    lines.append('(check-sat)')
    if get_model:
        lines.append('(get-model)')
    return '\n'.join(lines) + '\n', vars_, apps
