"""Axiom instantiation for the uninterpreted / recursive spec functions.

VCs are emitted quantifier-free w.r.t. these functions: the engine instantiates their defining equations at the
application terms that occur in the VC (and, up to a small depth, at the terms the instances introduce).  Every
axiom schema here is part of the trusted base and is listed in evidence (coverage.trusted_base).
"""
from fractions import Fraction

from . import terms as tm
from .terms import T, REAL, INT, BOOL

R0 = tm.mk_real(0)
R1 = tm.mk_real(1)
I0 = tm.mk_int(0)
I1 = tm.mk_int(1)

INSTANTIATORS = {}      # fname -> fn(term, ctx) -> [axiom terms]
PAIRWISE = {}           # fname -> fn(t1, t2) -> [axiom terms]
DESCRIPTIONS = {}


def register(fname, fn, description, pairwise=None):
    INSTANTIATORS[fname] = fn
    DESCRIPTIONS[fname] = description
    if pairwise is not None:
        PAIRWISE[fname] = pairwise


def _apps(terms_):
    out = []
    seen = set()
    for t in terms_:
        tm.subterms(t, lambda x: x.op == 'app', out, seen)
    return out


def instantiate(hyps, goal, depth=3, used=None):
    """returns the list of axiom instances relevant to hyps/goal"""
    axioms = []
    have = set()
    frontier = list(hyps) + ([goal] if goal is not None else [])
    seen_apps = set()
    all_apps = []
    for _ in range(depth):
        new_apps = [a for a in _apps(frontier) if a not in seen_apps]
        if not new_apps:
            break
        for a in new_apps:
            seen_apps.add(a)
        all_apps.extend(new_apps)
        fresh = []
        for a in new_apps:
            fn = INSTANTIATORS.get(a.args[0])
            if fn is None:
                continue
            if used is not None:
                used.add(a.args[0])
            for ax in fn(a, all_apps):
                if ax not in have and not (ax.is_const() and ax.value()):
                    have.add(ax)
                    fresh.append(ax)
        # pairwise schemas (monotonicity / injectivity) over all apps of the same symbol
        for fname, pf in PAIRWISE.items():
            same = [a for a in all_apps if a.args[0] == fname]
            if len(same) > 12:
                same = same[:12]
            for i in range(len(same)):
                for j in range(i + 1, len(same)):
                    if same[i] in new_apps or same[j] in new_apps:
                        for ax in pf(same[i], same[j]):
                            if ax not in have:
                                have.add(ax)
                                fresh.append(ax)
        axioms.extend(fresh)
        frontier = fresh
    return axioms


# ---------------------------------------------------------------------------------------------- exp / ln

def _exp(t, ctx):
    x = t.args[1]
    out = [tm.gt(t, R0)]
    if x.is_const() and x.value() == 0:
        out.append(tm.eq(t, R1))
    out.append(tm.eq(tm.app('ln', (t,), REAL), x))
    # exp(a+b) = exp a * exp b ; exp(a-b) = exp a / exp b  (two summands)
    if x.op == '+' and len(x.args) == 2:
        a, b = x.args
        out.append(tm.eq(t, tm.mul(tm.app('exp', (a,), REAL), tm.app('exp', (b,), REAL))))
    if x.op == '-' and len(x.args) == 2:
        a, b = x.args
        out.append(tm.eq(t, tm.rdiv(tm.app('exp', (a,), REAL), tm.app('exp', (b,), REAL))))
    if x.op == 'neg':
        out.append(tm.eq(tm.mul(t, tm.app('exp', (x.args[0],), REAL)), R1))
    return out


def _exp_pair(a, b):
    x, y = a.args[1], b.args[1]
    return [tm.implies(tm.lt(x, y), tm.lt(a, b)), tm.implies(tm.lt(y, x), tm.lt(b, a)), tm.implies(tm.eq(x, y), tm.eq(a, b))]


def _ln(t, ctx):
    u = t.args[1]
    out = []
    if u.is_const():
        if u.value() == 1:
            out.append(tm.eq(t, R0))
    if u.op == 'app' and u.args[0] == 'exp':
        out.append(tm.eq(t, u.args[1]))
    else:
        out.append(tm.implies(tm.gt(u, R0), tm.eq(tm.app('exp', (t,), REAL), u)))
    out.append(tm.implies(tm.gt(u, R1), tm.gt(t, R0)))
    out.append(tm.implies(tm.and_(tm.gt(u, R0), tm.lt(u, R1)), tm.lt(t, R0)))
    out.append(tm.implies(tm.eq(u, R1), tm.eq(t, R0)))
    if u.op == '*' and len(u.args) == 2:
        a, b = u.args
        out.append(tm.implies(tm.and_(tm.gt(a, R0), tm.gt(b, R0)),
                              tm.eq(t, tm.add(tm.app('ln', (a,), REAL), tm.app('ln', (b,), REAL)))))
    if u.op == '*' and len(u.args) > 2:
        a = u.args[0]
        b = T('*', u.args[1:], REAL)
        out.append(tm.implies(tm.and_(tm.gt(a, R0), tm.gt(b, R0)),
                              tm.eq(t, tm.add(tm.app('ln', (a,), REAL), tm.app('ln', (b,), REAL)))))
    if u.op == '/':
        a, b = u.args
        out.append(tm.implies(tm.and_(tm.gt(a, R0), tm.gt(b, R0)),
                              tm.eq(t, tm.sub(tm.app('ln', (a,), REAL), tm.app('ln', (b,), REAL)))))
    if u.op == 'app' and u.args[0] == 'rpow':
        x, y = u.args[1], u.args[2]
        out.append(tm.implies(tm.gt(x, R0), tm.eq(t, tm.mul(y, tm.app('ln', (x,), REAL)))))
    return out


def _ln_pair(a, b):
    x, y = a.args[1], b.args[1]
    pos = tm.and_(tm.gt(x, R0), tm.gt(y, R0))
    return [tm.implies(tm.and_(pos, tm.lt(x, y)), tm.lt(a, b)), tm.implies(tm.and_(pos, tm.lt(y, x)), tm.lt(b, a)),
            tm.implies(tm.eq(x, y), tm.eq(a, b))]


def _sqrt(t, ctx):
    x = t.args[1]
    return [tm.implies(tm.ge(x, R0), tm.and_(tm.ge(t, R0), tm.eq(tm.mul(t, t), x))),
            tm.implies(tm.gt(x, R0), tm.gt(t, R0))]


def _rpow(t, ctx):
    x, y = t.args[1], t.args[2]
    out = [tm.implies(tm.gt(x, R0), tm.gt(t, R0))]
    out.append(tm.implies(tm.eq(y, R1), tm.eq(t, x)))
    out.append(tm.implies(tm.eq(y, R0), tm.eq(t, R1)))
    out.append(tm.implies(tm.eq(x, R1), tm.eq(t, R1)))
    out.append(tm.implies(tm.and_(tm.eq(x, R0), tm.gt(y, R0)), tm.eq(t, R0)))
    # integer exponents 2..4 by unfolding
    p = x
    for k in range(2, 5):
        p = tm.mul(p, x)
        out.append(tm.implies(tm.eq(y, tm.mk_real(k)), tm.eq(t, p)))
    if x.op == '/':
        a, b = x.args
        out.append(tm.implies(tm.and_(tm.ge(a, R0), tm.gt(b, R0)),
                              tm.eq(t, tm.rdiv(tm.app('rpow', (a, y), REAL), tm.app('rpow', (b, y), REAL)))))
    if x.op == '*' and len(x.args) == 2:
        a, b = x.args
        out.append(tm.implies(tm.and_(tm.ge(a, R0), tm.ge(b, R0)),
                              tm.eq(t, tm.mul(tm.app('rpow', (a, y), REAL), tm.app('rpow', (b, y), REAL)))))
    return out


def _rpow_pair(a, b):
    return [tm.implies(tm.and_(tm.eq(a.args[1], b.args[1]), tm.eq(a.args[2], b.args[2])), tm.eq(a, b))]


def _gamma(t, ctx):
    return [tm.implies(tm.gt(t.args[1], R0), tm.gt(t, R0))]


def _beta(t, ctx):
    return [tm.implies(tm.and_(tm.gt(t.args[1], R0), tm.gt(t.args[2], R0)), tm.gt(t, R0))]


def _pi(t, ctx):
    return [tm.and_(tm.gt(t, tm.mk_real(Fraction(314159, 100000))), tm.lt(t, tm.mk_real(Fraction(314160, 100000))))]


def _U(t, ctx):
    return [tm.and_(tm.ge(t, R0), tm.le(t, R1))]


def _sum(t, ctx):
    a, n = t.args[1], t.args[2]
    prev = tm.app('sum', (a, tm.sub(n, I1)), REAL)
    out = [tm.implies(tm.le(n, I0), tm.eq(t, R0)),
           tm.implies(tm.gt(n, I0), tm.eq(t, tm.add(prev, tm.to_real(tm.select(a, tm.sub(n, I1))))))]
    return out


def _cos(t, ctx):
    return [tm.and_(tm.ge(t, tm.mk_real(-1)), tm.le(t, R1))]


register('exp', _exp, 'exp>0; exp 0=1; ln(exp x)=x; exp(a+b)=exp a*exp b; exp(-a)*exp a=1; strictly increasing', _exp_pair)
register('ln', _ln, 'u>0 => exp(ln u)=u; ln 1=0; sign of ln; ln(ab)=ln a+ln b; ln(a/b)=ln a-ln b; ln(x^y)=y ln x; strictly increasing on (0,inf)', _ln_pair)
register('sqrt', _sqrt, 'x>=0 => sqrt(x)>=0 and sqrt(x)^2=x')
register('rpow', _rpow, 'x>0 => x^y>0; x^1=x; x^0=1; 1^y=1; 0^y=0 (y>0); x^k=x*...*x (k=2..4); (a/b)^y=a^y/b^y; (ab)^y=a^y b^y', _rpow_pair)
register('Gamma', _gamma, 'Gamma(x)>0 for x>0')
register('Beta', _beta, 'Beta(a,b)>0 for a,b>0')
register('pi', _pi, '3.14159<pi<3.1416')
register('U', _U, 'random stream element U[k] in [0,1]')
register('sum', _sum, 'sum(a,0)=0; sum(a,n)=sum(a,n-1)+a[n-1]')
register('cos', _cos, '-1<=cos<=1')


def _band(t, ctx):
    a, b = t.args[1], t.args[2]
    out = []
    if b.is_const() and b.value() >= 0:
        out.append(tm.and_(tm.ge(t, I0), tm.le(t, b)))
    if a.is_const() and a.value() >= 0:
        out.append(tm.and_(tm.ge(t, I0), tm.le(t, a)))
    return out


register('band', _band, '0 <= (a & b) <= b for a non-negative constant mask b')


def _bitnonneg(t, ctx):
    a, b = t.args[1], t.args[2]
    return [tm.implies(tm.and_(tm.ge(a, I0), tm.ge(b, I0)), tm.ge(t, I0))]


for _nm in ('bor', 'bxor', 'shl', 'shr'):
    register(_nm, _bitnonneg, 'bit operation on non-negative integers is non-negative')


def _f32(t, ctx):
    x = t.args[1]
    whole = tm.eq(tm.to_real(tm.to_int_floor(x)), x)
    small = tm.and_(tm.le(x, tm.mk_real(1 << 24)), tm.ge(x, tm.mk_real(-(1 << 24))))
    return [tm.implies(tm.and_(whole, small), tm.eq(t, x))]


register('f32', _f32, 'f32(x) = x for whole numbers |x| <= 2^24 (rounding of other values to single precision is left uninterpreted)')
