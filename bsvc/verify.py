"""Driver: verify one function under contract (all paths), build SMT text for obligations, discharge."""
import copy
import time
import traceback
import concurrent.futures as cf
import os

from . import terms as tm
from .terms import T, REAL, INT, BOOL
from .values import *      # noqa
from .symexec import Exec, Obligation, Frame, assigned_names, loop_ordinals
from .eval_ import EvalMixin
from .stmts import StmtMixin
from .calls import CallMixin
from . import contracts as C
from . import axioms, solver, arrays


class Executor(Exec, EvalMixin, StmtMixin, CallMixin):
    def __init__(self, *a, **kw):
        Exec.__init__(self, *a, **kw)
        self.assumed_contracts = set()
        self.ext_attr_handlers = {}
        self.ext_index_handlers = {}
        self.ext_setitem_handlers = {}
        self.ext_iter_handlers = {}
        self.ext_len_handlers = {}
        self.ext_builtins = {}
        self.ext_numpy = {}
        self.ext_isinstance = {}
        self.cur_line = 0
        from . import extensions
        extensions.install(self)


class FucResult(object):
    def __init__(self, contract):
        self.contract = contract
        self.obligations = []       # unique Obligation objects
        self.paths = 0
        self.undecided = []         # reasons (outside-subset etc.)
        self.errors = []
        self.source_hash = None
        self.assumed = set()
        self.dropped = {'print': 0, 'warn': 0, 'log': 0}
        self.bounded_cuts = 0
        self.outcomes = {}
        self.seconds = 0.0


def default_lookup(current):
    def lookup(ex, func, obj, abstract_ok):
        mod = func.module.short
        qn = func.qualname
        cur = ex.current_contract
        if cur is not None and qn in cur.inline_:
            return None
        # class-specific variant first (contract written for self of a concrete subclass)
        if obj is not None and isinstance(obj, Obj) and obj.exact:
            c = C.lookup(mod, qn, obj.clsname)
            if c is not None and not c.opts.get('verify_only'):
                return c
        c = C.lookup(mod, qn)
        if c is None:
            return None
        if c.opts.get('verify_only'):
            return None
        if c.abstract and obj is not None and isinstance(obj, Obj) and obj.exact and not c.opts.get('also_exact'):
            # exact receiver: the body is known; prefer it unless the contract is also meant for exact receivers
            return None
        return c
    return lookup


def make_input(ex, c, name, ct, fr):
    hint = c.hints.get(name)
    if hint is not None:
        if 'value' in hint:
            v = hint['value']
            return v(ex) if callable(v) else v
        if 'sort' in hint:
            v = ex.fresh(name, hint['sort'])
            return v
        if 'cls' in hint:
            cls = ex.program.find_class(hint['cls'])
            return ex.symbolic_obj(cls, name, exact=hint.get('exact', False))
        if 'ndim' in hint and hint.get('ndim'):
            return ex.symbolic_array(name, hint['ndim'], hint.get('elem') or REAL, hint.get('kind', 'ndarray'))
    if ct is None or ct[0] == 'py':
        raise Unsupported('parameter %s of %s needs a type hint in the contract' % (name, c.fid))
    return ex.symbolic_of_ctype(ct, name, hint)


def run_path(program, c, prefix, lookup=None):
    """execute one path of the FUC; returns (executor, outcome)"""
    ex = Executor(program, prefix, c.fid)
    ex.contract_lookup = lookup or default_lookup(c)
    ex.current_contract = c
    func = resolve_func(program, c)
    if func is None or func.body is None:
        raise Unsupported('function %s::%s not found in the source' % (c.module, c.qualname))
    from . import speclib
    ex.spec_env = dict(speclib.SPEC_ENV)
    env = {}
    ctypes = {}
    params = list(func.params)
    self_obj = None
    fr0 = Frame(func, env, None)
    fr0.ctypes = ctypes
    ex.frames.append(fr0)
    if func.cls is not None and 'staticmethod' not in func.decorators:
        cls = func.cls
        if c.self_class:
            cls = program.find_class(c.self_class, prefer=c.module)
        if c.concrete_self is not None:
            self_obj = c.concrete_self(ex, cls)
        else:
            self_obj = ex.symbolic_obj(cls, 'self', exact=c.opts.get('self_exact', True))
        env[params[0][0]] = self_obj
        params = params[1:]
    fr0.self_obj = self_obj
    outcome = None
    try:
        for (name, ct, default) in params:
            v = make_input(ex, c, name, ct, fr0)
            if ct is not None and ct[0] in ('double', 'int', 'bint'):
                ctypes[name] = ct
            elif ct is not None and ct[0] != 'py':
                ctypes[name] = ct
            env[name] = v
        if func.star:
            env[func.star] = ()
        if func.starstar:
            hint = c.hints.get(func.starstar)
            env[func.starstar] = hint['value'](ex) if hint and callable(hint.get('value')) else {}
        fr0.local_names = set(env)
        for hook in c.setup_:
            hook(ex, fr0)
        ex.bind_lets(c, fr0)
        for (label, ir, txt) in c.requires_:
            ex.assume(ex.spec_truth(ir))
        for (label, ir, txt, reason) in c.assume_:
            ex.assume(ex.spec_truth(ir))
        # vacuity guard: the precondition must be satisfiable
        ex.obligations.append(Obligation('cover', c.fid, 'pre', func.line, ex.facts + ex.pc, None, (), must_be_sat=True))
        old_env = copy.deepcopy(dict(env))
        pre_objs = snapshot_heap(env)
        ex.frames.pop()
        ex.old_env = old_env
        ex.old_ghost = dict(ex.ghost.get('g', {}))
        ex.old_kappa = ex.kappa
        try:
            rv = ex.run_body(func, dict(env), dict(ctypes), self_obj, contract=c)
            outcome = ('return', rv)
        except RaiseSig as r:
            outcome = ('raise', r.exc)
        # postconditions
        frp = Frame(func, dict(env), self_obj)
        frp.ctypes = ctypes
        frp.local_names = set(env) | {'result'}
        frp.loop_entry = dict(getattr(ex, 'last_loop_entry', {}))      # entry(e, k) of a finished loop is usable in ensures
        frp.loop_head = {}
        ex.frames.append(frp)
        ex.old_env = old_env
        try:
            ex.bind_lets_post(c, frp) if hasattr(ex, 'bind_lets_post') else None
            if outcome[0] == 'return':
                frp.env['result'] = outcome[1]
                for hook in c.after_:
                    hook(ex, frp, outcome[1])
                for (label, ir, txt) in c.ensures_:
                    ex.oblige('post', ex.spec_truth(ir), label=label, line=func.line, note=txt)
                for exc, cond in c.raises_.items():
                    if cond is not None:
                        # the function returned normally: the raise condition must not have held
                        ex.oblige('raises', tm.not_(to_bool(ex.eval_old_spec(cond[0]))), label='no-' + exc, line=func.line,
                                  note='returns normally only if not (%s)' % cond[1])
                check_frame(ex, c, env, pre_objs, func)
            else:
                exc = outcome[1]
                if exc.clsname in c.raises_:
                    cond = c.raises_[exc.clsname]
                    if cond is not None:
                        ex.oblige('raises', to_bool(ex.eval_old_spec(cond[0])), label=exc.clsname, line=exc.line,
                                  note='%s raised only if (%s)' % (exc.clsname, cond[1]))
                    else:
                        ex.oblige('raises', tm.TRUE, label=exc.clsname, line=exc.line)
                else:
                    ex.oblige('raises', tm.FALSE, label=exc.clsname, line=exc.line,
                              note='%s escapes at line %s; the contract lists %s' % (exc.clsname, exc.line,
                                                                                    sorted(c.raises_) or 'no exception'))
        finally:
            ex.old_env = None
            ex.frames.pop()
        # path-end cover (at least one path of the FUC must be feasible to its end)
        ex.obligations.append(Obligation('cover', c.fid, 'path-end', func.line, ex.facts + ex.pc, None, ex.taken,
                                         must_be_sat=True, note=outcome[0]))
    except PathEnd:
        outcome = ('end', None)
    return ex, outcome


def to_bool(v):
    if isinstance(v, T):
        return v
    return tm.mk_bool(bool(v))


def resolve_func(program, c):
    if c.self_class and '.' in c.qualname:
        cls = program.find_class(c.self_class, prefer=c.module)
        mname = c.qualname.split('.', 1)[1]
        base_name = c.qualname.split('.', 1)[0]
        f = program.find_method(cls, mname)
        return f
    return program.func(c.module, c.qualname)


def snapshot_heap(env):
    """(object, field) -> value and array -> term for everything reachable from the inputs"""
    snap = {'F': {}, 'A': {}, 'objs': {}}
    seen = set()
    stack = list(env.values())
    while stack:
        v = stack.pop()
        if isinstance(v, Obj):
            if v.oid in seen:
                continue
            seen.add(v.oid)
            snap['objs'][v.oid] = v
            for k, x in v.fields.items():
                snap['F'][(v.oid, k)] = x
                stack.append(x)
        elif isinstance(v, Arr):
            r = arrays.root_of(v)
            if r.oid in seen:
                continue
            seen.add(r.oid)
            snap['objs'][r.oid] = r
            snap['A'][r.oid] = r.term
        elif isinstance(v, (list, tuple)):
            stack.extend(v)
        elif isinstance(v, dict):
            stack.extend(v.values())
    return snap


def check_frame(ex, c, env, pre, func):
    """nothing outside `modifies` changed (only when the contract declares a modifies clause)"""
    if c.modifies_ is None:
        return
    allowed_arr = set()
    allowed_fld = set()
    fr = ex.frame
    if 'kappa' not in c.modifies_ and ex.kappa != ex.kappa_entry:
        ex.oblige('frame', tm.eq(ex.kappa, ex.kappa_entry), label='kappa', line=func.line,
                  note='the function consumes random numbers; the random stream is not in the modifies clause')
    for path in c.modifies_:
        if path == 'kappa':
            continue
        p = path[:-3] if path.endswith('[*]') else path
        node = C.parse_expr(p)
        try:
            if node.k == 'Name':
                v = env.get(node.id)
                if isinstance(v, Arr):
                    allowed_arr.add(arrays.root_of(v).oid)
            elif node.k == 'Attr':
                o = ex.eval_quiet(node.obj)
                if isinstance(o, Obj):
                    allowed_fld.add((o.oid, node.attr))
                    v = o.fields.get(node.attr)
                    if isinstance(v, Arr):
                        allowed_arr.add(arrays.root_of(v).oid)
        except (Unsupported, RaiseSig, PathEnd):
            pass
    # lazily created fields of pre-existing symbolic objects: their initial values are in ex.lazy_init
    def visit_lazy():
        changed = True
        while changed:
            changed = False
            for oid, o in list(pre['objs'].items()):
                if not isinstance(o, Obj):
                    continue
                for fname, cur in list(o.fields.items()):
                    if (oid, fname) in pre['F']:
                        continue
                    init = ex.lazy_init.get((oid, fname))
                    if init is None:
                        continue
                    pre['F'][(oid, fname)] = init if not isinstance(init, (Arr, Obj)) else cur if _same_identity(cur, init) else init
                    if isinstance(init, Arr):
                        if init.oid not in pre['objs']:
                            live = cur if isinstance(cur, Arr) and cur.oid == init.oid else None
                            if live is not None:
                                pre['objs'][init.oid] = arrays.root_of(live)
                                pre['A'][init.oid] = init.term
                                changed = True
                    elif isinstance(init, Obj):
                        if init.oid not in pre['objs'] and isinstance(cur, Obj) and cur.oid == init.oid:
                            pre['objs'][init.oid] = cur
                            changed = True
    visit_lazy()
    for oid, old_term in pre['A'].items():
        a = pre['objs'][oid]
        if oid in allowed_arr:
            continue
        if a.term is not old_term and a.term != old_term:
            ex.oblige('frame', tm.eq(a.term, old_term), label=a.name, line=func.line,
                      note='array %s is not in the modifies clause' % a.name)
    for (oid, fname), old_v in pre['F'].items():
        if (oid, fname) in allowed_fld:
            continue
        o = pre['objs'][oid]
        new_v = o.fields.get(fname)
        if new_v is old_v:
            continue
        if isinstance(new_v, T) and isinstance(old_v, T):
            if new_v != old_v:
                ex.oblige('frame', tm.eq(new_v, old_v), label='%s.%s' % (o.name, fname), line=func.line,
                          note='field %s.%s is not in the modifies clause' % (o.name, fname))
        elif isinstance(new_v, (Arr, Obj)) or isinstance(old_v, (Arr, Obj)):
            if new_v is not old_v:
                ex.oblige('frame', tm.FALSE, label='%s.%s' % (o.name, fname), line=func.line,
                          note='field %s.%s rebound; not in the modifies clause' % (o.name, fname))
        elif new_v != old_v:
            ex.oblige('frame', tm.FALSE, label='%s.%s' % (o.name, fname), line=func.line,
                      note='field %s.%s changed; not in the modifies clause' % (o.name, fname))
    # fields added to input objects
    for oid, o in pre['objs'].items():
        if isinstance(o, Obj):
            for fname in o.fields:
                if (oid, fname) not in pre['F'] and (oid, fname) not in allowed_fld and not o.symbolic:
                    ex.oblige('frame', tm.FALSE, label='%s.%s' % (o.name, fname), line=func.line,
                              note='field %s.%s created; not in the modifies clause' % (o.name, fname))


def _same_identity(a, b):
    return isinstance(a, (Arr, Obj)) and isinstance(b, (Arr, Obj)) and a.oid == b.oid


def _eval_old_spec(self, ir):
    mark = len(self.obligations)
    was = self.in_spec
    self.in_spec = True
    try:
        return self.truth(self.eval_old(ir))
    finally:
        self.in_spec = was
        del self.obligations[mark:]


Executor.eval_old_spec = _eval_old_spec


def verify_contract(program, c, max_paths=None, lookup=None):
    res = FucResult(c)
    t0 = time.time()
    func = None
    try:
        func = resolve_func(program, c)
    except Exception as e:
        res.undecided.append('cannot resolve %s: %s' % (c.fid, e))
    if func is None or func.body is None:
        res.undecided.append('function %s not found (renamed or removed?)' % c.fid)
        return res
    res.source_hash = program.source_hash(func)
    res.func_line = func.line
    res.func_file = func.module.path
    if not c.verify_body:
        return res
    seen = {}
    prefixes = [[]]
    limit = max_paths or c.path_limit
    while prefixes:
        prefix = prefixes.pop()
        if res.paths >= limit:
            res.undecided.append('path limit %d reached in %s' % (limit, c.fid))
            break
        res.paths += 1
        try:
            ex, outcome = run_path(program, c, prefix, lookup)
        except Unsupported as e:
            res.undecided.append('outside-subset: %s' % e)
            continue
        except EngineError as e:
            res.errors.append('engine: %s' % e)
            continue
        except RecursionError:
            res.undecided.append('recursion limit in %s' % c.fid)
            continue
        except Exception as e:
            res.errors.append('engine crash in %s: %s\n%s' % (c.fid, e, traceback.format_exc(limit=6)))
            continue
        prefixes.extend(ex.pending)
        res.assumed |= ex.assumed_contracts
        for k in res.dropped:
            res.dropped[k] = max(res.dropped[k], ex.dropped[k])
        res.bounded_cuts += getattr(ex, 'bounded_cuts', 0)
        res.outcomes[outcome[0]] = res.outcomes.get(outcome[0], 0) + 1
        for ob in ex.obligations:
            key = (ob.kind, ob.label, ob.hyps, ob.goal, ob.must_be_sat)
            if key in seen:
                continue
            seen[key] = ob
            res.obligations.append(ob)
    res.seconds = time.time() - t0
    return res


# ---------------------------------------------------------------------------------------------- discharge

_sk_counter = [0]


def skolemise_goal(g):
    """replace positively occurring universal quantifiers of a goal by fresh constants (sound for validity)"""
    def sk(t, pos):
        if t.op == 'forall' and pos:
            m = {}
            for v in t.args[0]:
                _sk_counter[0] += 1
                m[v] = tm.var('sk%d_%s' % (_sk_counter[0], v.args[0].replace('!', '_')), v.sort)
            return sk(tm.substitute(t.args[1], m), pos)
        if t.op == 'exists' and not pos:
            m = {}
            for v in t.args[0]:
                _sk_counter[0] += 1
                m[v] = tm.var('sk%d_%s' % (_sk_counter[0], v.args[0].replace('!', '_')), v.sort)
            return sk(tm.substitute(t.args[1], m), pos)
        if t.op == 'and' or t.op == 'or':
            return tm.T(t.op, [sk(a, pos) for a in t.args], BOOL)
        if t.op == 'not':
            return tm.T('not', [sk(t.args[0], not pos)], BOOL)
        if t.op == '=>':
            return tm.T('=>', [sk(t.args[0], not pos), sk(t.args[1], pos)], BOOL)
        return t
    if g is None:
        return None
    _sk_counter[0] = 0
    return sk(g, True)


def obligation_text(ob, used_axioms=None, get_model=False):
    hyps = list(ob.hyps)
    goal = skolemise_goal(ob.goal)
    ax = axioms.instantiate(hyps, goal, used=used_axioms)
    text, vars_, apps = tm.script(hyps + ax, goal, get_model=get_model)
    return text


def instantiate_quantifiers(hyps, goal, limit=200):
    """quantifier-free approximation: Skolemise the goal, instantiate every universally quantified hypothesis at the
    ground index terms of the problem.  unsat of the result implies unsat of the original (hypotheses only weakened)."""
    sk = {}
    counter = [0]

    def skolemise(g):
        while g is not None and g.op == 'forall':
            m = {}
            for v in g.args[0]:
                counter[0] += 1
                m[v] = tm.var('sk%d_%s' % (counter[0], v.args[0]), v.sort)
            g = tm.substitute(g.args[1], m)
        return g
    goal2 = skolemise_goal(goal) if goal is not None else None

    def flatten(h, out):
        if h.op == 'and':
            for a in h.args:
                flatten(a, out)
        elif h.op == '=>' and h.args[1].op == 'forall':
            q = h.args[1]
            flatten(tm.forall(list(q.args[0]), tm.implies(h.args[0], q.args[1])), out)
        elif h.op == '=>' and h.args[1].op == 'and':
            for a in h.args[1].args:
                flatten(tm.implies(h.args[0], a), out)
        elif h.op == 'forall' and h.args[1].op == 'and':
            for a in h.args[1].args:
                flatten(tm.forall(list(h.args[0]), a), out)
        elif h.op == 'forall' and h.args[1].op == '=>' and h.args[1].args[1].op == 'and':
            for a in h.args[1].args[1].args:
                flatten(tm.forall(list(h.args[0]), tm.implies(h.args[1].args[0], a)), out)
        elif h.op == 'forall' and h.args[1].op == '=>' and h.args[1].args[1].op == 'forall':
            inner = h.args[1].args[1]
            flatten(tm.forall(list(h.args[0]) + list(inner.args[0]), tm.implies(h.args[1].args[0], inner.args[1])), out)
        else:
            out.append(h)
    flat = []
    for h in hyps:
        flatten(h, flat)
    hyps = flat
    ground = [h for h in hyps if h.op != 'forall']
    quants = [h for h in hyps if h.op == 'forall']
    # candidate index terms
    cands = []
    seen = set()

    def add(t):
        if t.sort == INT and t not in seen:
            seen.add(t)
            cands.append(t)
    pool = ground + ([goal2] if goal2 is not None else [])
    for t in pool:
        for s_ in tm.subterms(t, lambda x: x.op in ('select', 'store')):
            add(s_.args[1])
        for v_ in tm.subterms(t, lambda x: x.op == 'var' and x.sort == INT and x.args[0].startswith('sk')):
            add(v_)
    for q in quants:
        for s_ in tm.subterms(q.args[1], lambda x: x.op in ('select', 'store')):
            i = s_.args[1]
            if not tm.subterms(i, lambda x: x in q.args[0]):
                add(i)
    base = list(cands)
    for t in base[:12]:
        add(tm.add(t, tm.mk_int(1)))
        add(tm.sub(t, tm.mk_int(1)))
    import itertools
    out = list(ground)
    for q in quants:
        vs = q.args[0]
        ivs = [v for v in vs if v.sort == INT]
        if len(ivs) != len(vs):
            out.append(q)
            continue
        k = len(vs)
        cs = cands
        while len(cs) ** k > limit and len(cs) > 2:
            cs = cs[:len(cs) - 1]
        for tup in itertools.product(cs, repeat=k):
            out.append(tm.substitute(q.args[1], dict(zip(vs, tup))))
    return out, goal2


def obligation_text_qf(ob, used_axioms=None):
    hyps, goal = instantiate_quantifiers(list(ob.hyps), ob.goal)
    ax = axioms.instantiate(hyps, goal, used=used_axioms)
    text, _, _ = tm.script(hyps + ax, goal)
    return text


def _work(args):
    idx, text, must_be_sat, budget, backends, all_backends = args[:6]
    if must_be_sat:
        st, dt, model = solver.check_text_inproc(text, int(budget * 1000))
        return idx, dict(status=st, backend='z3-5.1-inproc', seconds=dt, tried=[('z3-5.1-inproc', st, round(dt, 3))], model=None)
    r = solver.discharge(text, budget, backends, all_backends)
    if r['status'] in ('unknown', 'sat') and len(args) > 6 and args[6]:
        # quantifier-free instantiation (sound for unsat; a sat answer is a candidate counterexample only)
        r2 = solver.discharge(args[6], budget, backends, False)
        r2['tried'] = r['tried'] + [('qf-instantiated',) + tuple(t[1:]) for t in r2['tried']]
        if r2['status'] == 'unsat':
            r2['backend'] = (r2['backend'] or '') + '+qf-inst'
            return idx, r2
        if r2['status'] == 'sat' and r['status'] != 'sat':
            r2['backend'] = (r2['backend'] or '') + '+qf-inst'
            r2['weakened'] = True
            return idx, r2
    return idx, r


def discharge_all(obligs, budget=10, backends=('z3-5.1-inproc', 'z3-4.8', 'cvc5'), all_backends=False, workers=None):
    """obligs: list of Obligation; returns list of result dicts aligned with obligs"""
    results = [None] * len(obligs)
    tasks = []
    used = set()
    for i, ob in enumerate(obligs):
        if ob.goal is not None and ob.goal.is_const() and not ob.must_be_sat:
            if ob.goal.value():
                results[i] = dict(status='unsat', backend='syntactic', seconds=0.0, tried=[], model=None)
                continue
            if not ob.hyps:
                results[i] = dict(status='sat', backend='syntactic', seconds=0.0, tried=[], model='')
                continue
        text = obligation_text(ob, used)
        ob.text = text
        qf = None
        if not ob.must_be_sat and any(h.op == 'forall' for h in ob.hyps):
            try:
                qf = obligation_text_qf(ob, used)
            except Exception:
                qf = None
        tasks.append((i, text, ob.must_be_sat, budget, tuple(backends), all_backends, qf))
    if tasks:
        nw = workers or min(16, max(1, os.cpu_count() or 4))
        if len(tasks) < 4 or nw == 1:
            for t in tasks:
                i, r = _work(t)
                results[i] = r
        else:
            with cf.ProcessPoolExecutor(max_workers=nw) as pool:
                for i, r in pool.map(_work, tasks, chunksize=4):
                    results[i] = r
    dump = os.environ.get('BSVC_DUMP')
    if dump:
        os.makedirs(dump, exist_ok=True)
        for t in tasks:
            r = results[t[0]]
            ob = obligs[t[0]]
            if r and r['status'] not in ('unsat',) and not ob.must_be_sat:
                base = os.path.join(dump, '%s-%s-%d' % (ob.kind, ''.join(ch if ch.isalnum() else '_' for ch in str(ob.label))[-60:], t[0]))
                open(base + '.smt2', 'w').write(t[1])
                if t[6]:
                    open(base + '.qf.smt2', 'w').write(t[6])
    return results, used
