"""Statement execution (mixin of the executor)."""
from . import terms as tm
from .terms import T, REAL, INT, BOOL
from .values import *      # noqa
from .ir import N, walk
from . import arrays

MAX_UNROLL = 64


def _exc_matches(program, clsname, pattern):
    """does exception class `clsname` match an except pattern name (builtin hierarchy, coarse)"""
    if pattern is None:
        return True
    if pattern in ('Exception', 'BaseException'):
        return True
    if pattern == clsname:
        return True
    hier = {'KeyError': 'LookupError', 'IndexError': 'LookupError', 'ZeroDivisionError': 'ArithmeticError',
            'FloatingPointError': 'ArithmeticError', 'OverflowError': 'ArithmeticError',
            'NotImplementedError': 'RuntimeError', 'UnboundLocalError': 'NameError'}
    c = clsname
    while c in hier:
        c = hier[c]
        if c == pattern:
            return True
    return False


class StmtMixin(object):

    def exec_block(self, body):
        for s in body:
            self.exec_stmt(s)

    def exec_stmt(self, s):
        m = getattr(self, 's_' + s.k, None)
        if m is None:
            raise Unsupported('statement kind %s (line %s)' % (s.k, s.line))
        self.cur_line = s.line
        return m(s)

    def s_Unsupported(self, s):
        raise Unsupported('%s (line %s)' % (s.what, s.line))

    def s_Pass(self, s):
        pass

    def s_Import(self, s):
        from . import builtins_ as bi
        for (mod, name, asname) in s.f.get('names', []):
            v = bi.imported_name(self, mod, name)
            if v is not None:
                self.frame.env[asname] = v

    def s_Global(self, s):
        self.frame.globals_declared.update(s.names)

    def s_Print(self, s):
        self.dropped['print'] += 1

    def s_Expr(self, s):
        e = s.e
        if e.k == 'Call' and self.is_dropped_call(e):
            self.eval_dropped_args(e)
            return
        self.eval(e)

    def eval_dropped_args(self, e):
        """the output of a print / logging / warning call is dropped, but building its arguments can still raise (a '%g' applied to an object,
        str + number): the argument expressions are evaluated for their modelled exceptions; whatever is outside the subset there is ignored"""
        state = (len(self.obligations), self.in_spec)
        for a in list(getattr(e, 'args', []) or []):
            if not any(n.k in ('BinOp', 'Call') for n in walk(a)):
                continue
            try:
                self.eval(a)
            except Unsupported:
                pass
            except (RaiseSig, PathEnd, ReturnSig, BreakSig, ContinueSig, EngineError):
                raise
            except Exception:
                pass

    def is_dropped_call(self, e):
        f = e.func
        if f.k == 'Name' and f.id == 'print':
            self.dropped['print'] += 1
            return True
        if f.k == 'Attr' and f.obj.k == 'Name':
            if f.obj.id == 'warnings' and f.attr == 'warn':
                self.dropped['warn'] += 1
                return True
            if f.obj.id == 'logging':
                self.dropped['log'] += 1
                return True
        if f.k == 'Name' and f.id == 'warn':
            self.dropped['warn'] += 1
            return True
        if f.k == 'Attr' and f.attr == 'write' and f.obj.k == 'Attr' and f.obj.attr in ('stderr', 'stdout'):
            self.dropped['print'] += 1
            return True
        return False

    def s_Return(self, s):
        v = self.eval(s.value) if s.value is not None else None
        raise ReturnSig(v)

    def s_Raise(self, s):
        if s.exc is None:
            cur = getattr(self, 'handling_exc', None)
            if cur is None:
                raise Unsupported('bare raise outside a handler')
            raise RaiseSig(cur)
        e = s.exc
        if e.k == 'Call':
            name = e.func.id if e.func.k == 'Name' else getattr(e.func, 'attr', '?')
            msg = None
        elif e.k == 'Name':
            name = e.id
            msg = None
            v = self.frame.env.get(name)
            if isinstance(v, ExcVal):
                raise RaiseSig(v)
        else:
            name = getattr(e, 'attr', '?')
            msg = None
        raise RaiseSig(ExcVal(name, msg, s.line))

    def s_Break(self, s):
        raise BreakSig()

    def s_Continue(self, s):
        raise ContinueSig()

    def s_Assert(self, s):
        c = self.truth(self.eval(s.cond))
        if self.branch(c):
            return
        self.raise_exc('AssertionError', None, s.line)

    def s_Del(self, s):
        for t in s.targets:
            if t.k == 'Name':
                self.frame.env[t.id] = UNBOUND
            elif t.k == 'Index':
                base = self.eval(t.base)
                k = self.hashable(self.eval(t.index))
                if isinstance(base, dict):
                    if k not in base:
                        self.raise_exc('KeyError', repr(k), s.line)
                    del base[k]
                elif isinstance(base, list):
                    del base[self.concrete_int(k)]
                else:
                    raise Unsupported('del on %r' % type(base).__name__)
            else:
                raise Unsupported('del target')

    def s_CDecl(self, s):
        fr = self.frame
        fr.ctypes[s.name] = s.ctype
        if s.init is not None:
            v = self.eval(s.init)
            self.assign_name(s.name, v, s.line)
        else:
            k = s.ctype[0]
            if k == 'vector':
                self.note_write(('L', s.name), s.name)
                fr.env[s.name] = []
            elif k == 'obj' or k == 'ndarray' or k == 'py':
                self.note_write(('L', s.name), s.name)
                fr.env[s.name] = None     # Cython initialises object locals to None
            elif s.name not in fr.env or True:
                if fr.env.get(s.name, UNBOUND) is UNBOUND:
                    fr.env[s.name] = UNBOUND

    def assign_name(self, name, v, line=0):
        fr = self.frame
        if name in fr.globals_declared:
            g = self.module_globals.setdefault(fr.func.module.short, {})
            ct = fr.func.module.globals_ctypes.get(name)
            g[name] = self.convert(v, ct, line, name)
            return
        ct = fr.ctypes.get(name)
        if ct is not None:
            v = self.convert(v, ct, line, name)
        self.note_write(('L', name), name)
        fr.env[name] = v

    def assign_target(self, t, v, line=0):
        k = t.k
        if k == 'Name':
            self.assign_name(t.id, v, line)
        elif k in ('Tuple', 'List'):
            if isinstance(v, Arr) and v.ndim == 1:
                n = len(t.elts)
                self.oblige('bounds', tm.eq(to_term(v.shape[0]), tm.mk_int(n)), label='unpack', line=line)
                v = [tm.select(v.term, tm.mk_int(i)) for i in range(n)]
            if not isinstance(v, (tuple, list)):
                raise Unsupported('unpacking of %r (line %s)' % (type(v).__name__, line))
            if len(v) != len(t.elts):
                self.raise_exc('ValueError', 'unpack', line)
            for te, ve in zip(t.elts, v):
                self.assign_target(te, ve, line)
        elif k == 'Attr':
            o = self.eval(t.obj)
            self.set_attr(o, t.attr, v, line)
        elif k == 'Index':
            base = self.eval(t.base)
            if isinstance(base, Arr):
                arrays.store(self, base, t.index, v, line)
            elif isinstance(base, dict):
                self.note_write(('D', id(base)), 'dict')
                kv = self.eval(t.index)
                k = self.dict_find(base, kv)
                base[k if k is not None else self.hashable(kv)] = v
            elif isinstance(base, list):
                if t.index.k == 'Slice':
                    raise Unsupported('list slice assignment')
                i = self.concrete_int(self.eval(t.index), 'list index')
                if not (-len(base) <= i < len(base)):
                    self.raise_exc('IndexError', 'list assignment index out of range', line)
                self.note_write(('D', id(base)), 'list')
                base[i] = v
            else:
                from . import builtins_ as bi
                bi.setitem_other(self, base, self.eval(t.index), v, line)
        else:
            raise Unsupported('assignment target %s' % k)

    def set_attr(self, o, attr, v, line=0):
        if isinstance(o, Obj):
            ct = None
            if o.cls is not None:
                ct = self.program.all_fields(o.cls).get(attr)
                if ct is None and getattr(o.cls.module, 'is_pyx', False) and o.cls.fields is not None \
                        and self.is_cdef_class(o.cls):
                    self.raise_exc('AttributeError', '%s.%s' % (o.clsname, attr), line)
            if o.symbolic and attr not in o.fields:
                try:
                    self.get_field(o, attr)     # materialise the initial value (old() and the frame check need it)
                except Unsupported:
                    pass
            self.note_write(('F', o.oid, attr), '%s.%s' % (o.name, attr))
            o.fields[attr] = self.convert(v, ct, line, attr) if ct is not None and ct[0] in ('double', 'int', 'bint') else v
            return
        from . import builtins_ as bi
        bi.setattr_other(self, o, attr, v, line)

    def is_cdef_class(self, cls):
        return getattr(cls.module, 'is_pyx', False)

    def s_Assign(self, s):
        v = self.eval(s.value)
        for t in s.targets:
            self.assign_target(t, v, s.line)

    def s_AugAssign(self, s):
        t = s.target
        if t.k == 'Name':
            cur = self.lookup(t.id, s.line)
            v = self.eval(s.value)
            if isinstance(cur, list) and s.op == '+':
                cur.extend(v)
                return
            fake = N('BinOp', s.line, op=s.op, l=t, r=s.value)
            if self._inplace_array_op(cur, s.op, v, fake, s.line):
                return
            self.assign_name(t.id, self.binop(s.op, cur, v, fake), s.line)
        elif t.k == 'Attr':
            o = self.eval(t.obj)
            cur = self.getattr_value(o, t.attr, s.line)
            v = self.eval(s.value)
            fake = N('BinOp', s.line, op=s.op, l=t, r=s.value)
            if self._inplace_array_op(cur, s.op, v, fake, s.line):
                return
            self.set_attr(o, t.attr, self.binop(s.op, cur, v, fake), s.line)
        elif t.k == 'Index':
            base = self.eval(t.base)
            if isinstance(base, Arr):
                # evaluate the index once
                items = arrays._index_list(self, t.index)
                if not all(k == 'i' for (k, *_) in items):
                    raise Unsupported('augmented slice assignment (line %s)' % s.line)
                idx_nodes = N('Tuple', s.line, elts=[_Lit(i) for (_, i) in items])
                cur = arrays.index(self, base, idx_nodes, s.line)
                v = self.eval(s.value)
                nv = self.binop(s.op, cur, v, None)
                mark = len(self.obligations)
                arrays.store(self, base, idx_nodes, nv, s.line)
                del self.obligations[mark:]      # bounds already emitted by the read
            else:
                i = self.eval(t.index)
                cur = self.index_value(base, i, s.line)
                v = self.eval(s.value)
                nv = self.binop(s.op, cur, v, None)
                if isinstance(base, dict):
                    base[self.hashable(i)] = nv
                elif isinstance(base, list):
                    base[self.concrete_int(i)] = nv
                else:
                    raise Unsupported('augmented assignment into %r' % type(base).__name__)
        else:
            raise Unsupported('augmented assignment target')

    def _inplace_array_op(self, cur, op, v, node, line):
        """numpy: `a op= b` on an ndarray updates the array object IN PLACE - every alias (the object a getter returned by reference) sees
        the new contents.  (Rebinding the name to a fresh array here hid seed C06-d: the model's own stoichiometry array was overwritten.)"""
        if not (isinstance(cur, Arr) and cur.kind == 'ndarray' and cur.objs is None):
            return False
        if isinstance(cur, arrays.ViewArr):
            raise Unsupported('augmented assignment to an array view (line %s)' % line)
        res = self.binop(op, cur, v, node)
        if not (isinstance(res, Arr) and res.ndim == cur.ndim):
            raise Unsupported('augmented assignment changes the rank of an array (line %s)' % line)
        for a, b in zip(cur.shape, res.shape):
            if a is not None and b is not None and a is not b and not (isinstance(a, int) and isinstance(b, int) and a == b):
                self.oblige('bounds', tm.eq(arrays.to_term(a), arrays.to_term(b)), label=cur.name, line=line, note='in-place array operation keeps the shape')
        self.note_write(('A', cur.oid), cur.name)
        cur.term = res.term if res.elem == cur.elem else arrays.map1(self, res, lambda x: arrays.coerce_elem(self, cur, x, line)).term
        if getattr(res, 'nan', None) is not None:
            cur.nan = res.nan
        return True

    def _simple_assign_block(self, body):
        """[(name, value_node)] if the block consists only of assignments of call-free expressions to local names"""
        out = []
        for st in body:
            if st.k == 'Assign' and len(st.targets) == 1 and st.targets[0].k == 'Name':
                out.append((st.targets[0].id, st.value))
            elif st.k == 'Pass':
                continue
            else:
                return None
            for n in walk(st.value):
                if n.k in ('Call', 'Comp', 'Lambda', 'Index'):
                    return None
        return out

    def _only_dropped_calls(self, body):
        if not body:
            return False
        for st in body:
            if st.k == 'Print':
                continue
            if st.k == 'Expr' and st.e.k == 'Call':
                f = st.e.func
                if (f.k == 'Name' and f.id in ('print', 'warn')) or (f.k == 'Attr' and f.obj.k == 'Name' and
                                                                      ((f.obj.id == 'warnings' and f.attr == 'warn') or f.obj.id == 'logging')):
                    continue
            return False
        return True

    def s_If(self, s):
        # `if <test>: warnings.warn(...)` (nothing else, no else branch): the whole statement is diagnostics; when the test itself is
        # outside the subset it is dropped together with the call (counted)
        if len(s.tests) == 1 and not s.orelse and self._only_dropped_calls(s.tests[0][1]):
            try:
                cv = self.truth(self.eval(s.tests[0][0]))
            except Unsupported:
                self.dropped['warn'] += 1
                return
            if self.branch(cv):
                self.exec_block(s.tests[0][1])
            return
        # small conditional updates of numeric locals (e.g. `if dif < 0: dif = -dif`) are merged into ite terms instead of
        # forking the path
        if len(s.tests) == 1:
            a = self._simple_assign_block(s.tests[0][1])
            b = self._simple_assign_block(s.orelse)
            if a and b is not None:
                names = set(n for n, _ in a) | set(n for n, _ in b)
                fr = self.frame
                if all(n not in fr.globals_declared and isinstance(fr.env.get(n), T) for n in names):
                    cv = self.truth(self.eval(s.tests[0][0]))
                    if isinstance(cv, T) and not cv.is_const():
                        saved = dict((n, fr.env[n]) for n in names)
                        try:
                            mark = len(self.pc)
                            self.pc.append(cv)
                            for n, vn in a:
                                self.assign_name(n, self.eval(vn), s.line)
                            self.close_guard(mark)
                            then_vals = dict((n, fr.env[n]) for n in names)
                            for n in names:
                                fr.env[n] = saved[n]
                            mark = len(self.pc)
                            self.pc.append(tm.not_(cv))
                            for n, vn in b:
                                self.assign_name(n, self.eval(vn), s.line)
                            self.close_guard(mark)
                            else_vals = dict((n, fr.env[n]) for n in names)
                            ok = all(isinstance(then_vals[n], T) and isinstance(else_vals[n], T) for n in names)
                        except (Unsupported, RaiseSig):
                            ok = False
                        if ok:
                            for n in names:
                                fr.env[n] = tm.ite(cv, then_vals[n], else_vals[n])
                            return
                        for n in names:
                            fr.env[n] = saved[n]
                    else:
                        # concrete condition: fall through to the ordinary execution (re-evaluating the test is harmless: call-free? no)
                        if self.branch(cv):
                            self.exec_block(s.tests[0][1])
                        else:
                            self.exec_block(s.orelse)
                        return
        for (c, body) in s.tests:
            cv = self.truth(self.eval(c))
            if self.branch(cv):
                self.exec_block(body)
                return
        self.exec_block(s.orelse)

    def s_Try(self, s):
        try:
            try:
                self.exec_block(s.body)
            except RaiseSig as r:
                for (te, name, hbody) in s.handlers:
                    pats = [None]
                    if te is not None:
                        if te.k == 'Tuple':
                            pats = [e.id if e.k == 'Name' else getattr(e, 'attr', '?') for e in te.elts]
                        else:
                            pats = [te.id if te.k == 'Name' else getattr(te, 'attr', '?')]
                    if any(_exc_matches(self.program, r.exc.clsname, p) for p in pats):
                        if name:
                            self.assign_name(name, r.exc, s.line)
                        old = getattr(self, 'handling_exc', None)
                        self.handling_exc = r.exc
                        try:
                            self.exec_block(hbody)
                        finally:
                            self.handling_exc = old
                        break
                else:
                    raise
            else:
                self.exec_block(s.orelse)
        finally:
            if s.final:
                # executed on every exit of this path
                import sys
                et = sys.exc_info()[0]
                if et is None or issubclass(et, (RaiseSig, ReturnSig, BreakSig, ContinueSig)):
                    self.exec_block(s.final)

    def s_With(self, s):
        raise Unsupported('with statement (line %s)' % s.line)

    def s_FuncDef(self, s):
        raise Unsupported('nested function definition (line %s)' % s.line)

    def s_ClassDef(self, s):
        raise Unsupported('nested class definition (line %s)' % s.line)

    # ------------------------------------------------------------------ loops
    def loop_spec(self, s):
        fr = self.frame
        cc = getattr(fr, 'contract', None)
        if cc is None:
            return None
        o = fr.loop_ord.get(id(s))
        return cc.loops.get(o)

    def s_While(self, s):
        spec = self.loop_spec(s)
        if spec is not None and spec.invariants:
            return self.loop_with_invariant(s, spec, None)
        count = 0
        while True:
            c = self.truth(self.eval(s.cond))
            if not isinstance(c, bool) and not c.is_const():
                limit = spec.unroll if spec is not None and spec.unroll else None
                if limit is None:
                    raise Unsupported('while loop with a symbolic condition needs an invariant (line %s)' % s.line)
                if count >= limit:
                    raise Unsupported('unroll limit reached (line %s)' % s.line)
            if not self.branch(c):
                break
            count += 1
            if spec is not None and getattr(spec, 'cut_at', None) is not None and count > spec.cut_at:
                self.bounded_cuts = getattr(self, 'bounded_cuts', 0) + 1
                raise PathEnd()
            if count > (spec.unroll if spec is not None and spec.unroll else MAX_UNROLL * 16):
                raise Unsupported('while loop does not terminate within the unroll limit (line %s)' % s.line)
            try:
                self.exec_block(s.body)
            except BreakSig:
                return
            except ContinueSig:
                continue
        self.exec_block(s.orelse)

    def s_For(self, s):
        spec = self.loop_spec(s)
        it = s.iter
        if it.k == 'Call' and it.func.k == 'Name' and it.func.id in ('range', 'xrange') and not it.kwargs:
            args = [self.eval(a) for a in it.args]
            if len(args) == 1:
                lo, hi, step = 0, args[0], 1
            elif len(args) == 2:
                lo, hi, step = args[0], args[1], 1
            else:
                lo, hi, step = args
            sym = any(isinstance(x, T) and not x.is_const() for x in (lo, hi, step))
            if not sym and spec is not None and spec.invariants and self.concrete_int(step) == 1 and not self.frame_is_concrete_only():
                return self.loop_with_invariant(s, spec, (to_term(lo), to_term(hi)))
            if not sym:
                lo, hi, step = [self.concrete_int(x, 'range bound') for x in (lo, hi, step)]
                rng = range(lo, hi, step)
                if spec is not None and spec.invariants and len(rng) > 0 and False:
                    pass
                if len(rng) > MAX_UNROLL * 4:
                    raise Unsupported('range too long to unroll (line %s)' % s.line)
                return self.for_concrete(s, list(rng))
            if spec is None or not spec.invariants:
                if spec is not None and spec.unroll:
                    return self.for_symbolic_unrolled(s, lo, hi, step, spec.unroll)
                raise Unsupported('for loop over a symbolic range needs an invariant (line %s)' % s.line)
            if not (isinstance(step, int) and step == 1):
                raise Unsupported('symbolic range with step != 1')
            return self.loop_with_invariant(s, spec, (to_term(lo), to_term(hi)))
        seq = self.eval(it)
        from . import builtins_ as bi
        items = bi.iterate(self, seq, s.line)
        return self.for_concrete(s, items)

    def frame_is_concrete_only(self):
        """inlined callee on a concrete-shaped receiver: loops over concrete ranges are unrolled there"""
        return bool(getattr(self.frame, 'prefer_unroll', False))

    def for_concrete(self, s, items):
        for x in items:
            self.assign_target(s.target, x, s.line)
            try:
                self.exec_block(s.body)
            except BreakSig:
                return
            except ContinueSig:
                continue
        self.exec_block(s.orelse)

    def for_symbolic_unrolled(self, s, lo, hi, step, limit):
        lo_t, hi_t = to_term(lo), to_term(hi)
        i = 0
        while True:
            cur = tm.add(lo_t, tm.mk_int(i))
            if not self.branch(tm.lt(cur, hi_t)):
                break
            if i >= limit:
                raise PathEnd()       # bounded: paths beyond the limit are not explored (labelled bounded)
            self.assign_target(s.target, cur, s.line)
            try:
                self.exec_block(s.body)
            except BreakSig:
                return
            except ContinueSig:
                pass
            i += 1
        self.exec_block(s.orelse)

    # -- invariant-cut loops
    def written_locations(self, body, extra_paths=()):
        """syntactic write set of a loop body: locals, array roots, fields"""
        locs = []       # list of ('L', name) | ('P', path_expr_node)
        names = set()

        def root_path(t):
            # the storage root of an index/attr target
            while t.k == 'Index':
                t = t.base
            return t

        def tgt(t):
            if t is None:
                return
            if t.k == 'Name':
                names.add(t.id)
            elif t.k in ('Tuple', 'List'):
                for e in t.elts:
                    tgt(e)
            elif t.k == 'Index':
                r = root_path(t)
                locs.append(('P', r))
            elif t.k == 'Attr':
                locs.append(('FA', t))
        for n in walk(body):
            if n.k == 'Assign':
                for t in n.targets:
                    tgt(t)
            elif n.k == 'AugAssign':
                tgt(n.target)
            elif n.k == 'CDecl':
                names.add(n.name)
            elif n.k == 'For':
                tgt(n.target)
        return names, locs

    def loop_with_invariant(self, s, spec, rng):
        fr = self.frame
        ordn = fr.loop_ord.get(id(s))
        lname = '%s/loop#%s' % (fr.func.qualname, ordn)
        is_for = rng is not None
        ivar = None
        ivar_attr = None
        if is_for:
            lo, hi = rng
            if s.target.k == 'Name':
                ivar = s.target.id
            elif s.target.k == 'Attr':
                ivar_attr = (self.eval_quiet(s.target.obj), s.target.attr)
            else:
                raise Unsupported('loop target')
            self.assign_target(s.target, lo, s.line)
        # snapshot of the state at loop entry: entry(e, k) in clauses
        import copy as _copy
        if not hasattr(fr, 'loop_entry'):
            fr.loop_entry = {}
            fr.loop_head = {}
        fr.loop_entry[ordn] = (_copy.deepcopy(dict(fr.env)), self.kappa, dict(self.ghost.get('g', {})))
        # 1. invariant holds on entry
        for (label, ir, txt) in spec.invariants:
            self.oblige('inv-init', self.spec_truth(ir), label='%s:%s' % (lname, label), line=s.line, note=txt)
        # 2. write set
        names, locs = self.written_locations(s.body)
        if is_for and ivar is not None:
            names.add(ivar)
        wset = set()
        havoc_list = []
        for nm in sorted(names):
            wset.add(('L', nm))
        arrs = []
        for (kind, node) in locs:
            if kind == 'P':
                try:
                    v = self.eval_quiet(node)
                except (Unsupported, PathEnd, RaiseSig):
                    continue
                if isinstance(v, Arr):
                    r = arrays.root_of(v)
                    wset.add(('A', r.oid))
                    arrs.append(r)
                elif isinstance(v, (dict, list)):
                    wset.add(('D', id(v)))
            else:
                try:
                    o = self.eval_quiet(node.obj)
                except (Unsupported, PathEnd, RaiseSig):
                    continue
                if isinstance(o, Obj):
                    wset.add(('F', o.oid, node.attr))
                    havoc_list.append((o, node.attr))
        if ivar_attr is not None:
            wset.add(('F', ivar_attr[0].oid, ivar_attr[1]))
            havoc_list.append(ivar_attr)
        for p in spec.modifies_extra:
            if p == 'kappa':
                continue
            if p.startswith('ghost:'):
                wset.add(('G', p[6:]))
                continue
            from .contracts import parse_expr
            node = parse_expr(p)
            if node.k == 'Attr':
                o = self.eval_quiet(node.obj)
                wset.add(('F', o.oid, node.attr))
                havoc_list.append((o, node.attr))
                v = o.fields.get(node.attr)
                if v is None and isinstance(o, Obj) and o.symbolic:
                    v = self.get_field(o, node.attr)          # materialise a lazily symbolic field named in also_modifies
                if isinstance(v, Arr):
                    wset.add(('A', arrays.root_of(v).oid))
                    arrs.append(arrays.root_of(v))
            else:
                v = self.eval_quiet(node)
                if isinstance(v, Arr):
                    wset.add(('A', arrays.root_of(v).oid))
                    arrs.append(arrays.root_of(v))
                elif node.k == 'Name':
                    wset.add(('L', node.id))
                    names.add(node.id)
        # ghost: random stream position may advance
        iterate = self.choice(lname)
        # 3. havoc
        for nm in sorted(names):
            if nm in fr.globals_declared:
                g = self.module_globals.setdefault(fr.func.module.short, {})
                curg = g.get(nm)
                if isinstance(curg, (T, int)) and not isinstance(curg, bool):
                    nv = self.fresh('%s@%s' % (nm, ordn), INT if not (isinstance(curg, T) and curg.sort == REAL) else REAL)
                    ctg = fr.func.module.globals_ctypes.get(nm)
                    if ctg is not None and ctg[0] == 'int' and not ctg[1]:
                        self.assume_fact(tm.ge(nv, tm.mk_int(0)))
                    g[nm] = nv
                continue
            cur = fr.env.get(nm, UNBOUND)
            if cur is UNBOUND:
                ct = fr.ctypes.get(nm)
                if ct is not None and ct[0] in ('double', 'int', 'bint'):
                    # declared but unassigned before the loop: value at the head is arbitrary *if assigned in an
                    # earlier iteration*; keep UNBOUND on exit-path soundness by making it arbitrary
                    fr.env[nm] = UNBOUND
                continue
            if isinstance(cur, Arr):
                continue     # rebinding of array locals inside loops is not supported silently
            if isinstance(cur, (T, int, float, bool)):
                nv = self.havoc_value(cur, '%s@%s' % (nm, ordn))
                ct = fr.ctypes.get(nm)
                if ct is not None and ct[0] == 'double' and nv.sort != REAL:
                    nv = self.fresh('%s@%s' % (nm, ordn), REAL)
                if ct is not None and ct[0] == 'int' and not ct[1]:
                    self.assume_fact(tm.ge(nv, tm.mk_int(0)))
                fr.env[nm] = nv
            elif cur is None or isinstance(cur, (Obj, str, list, dict, tuple)):
                if isinstance(cur, (list, dict)) and ('D', id(cur)) not in wset:
                    wset.add(('D', id(cur)))
                # object-valued locals reassigned in the loop: unsupported unless never read; mark unbound
                fr.env[nm] = cur
        seen = set()
        for a in arrs:
            if a.oid in seen:
                continue
            seen.add(a.oid)
            a.term = self.fresh('%s@%s' % (a.name, ordn), a.term.sort)
        for (o, attr) in havoc_list:
            cur = self.get_field(o, attr)
            if isinstance(cur, (T, int, float, bool)):
                ctf = self.program.all_fields(o.cls).get(attr) if o.cls is not None else None
                nv = self.havoc_value(cur, '%s.%s@%s' % (o.name, attr, ordn))
                if ctf is not None and ctf[0] == 'int' and not ctf[1]:
                    self.assume_fact(tm.ge(nv, tm.mk_int(0)))
                o.fields[attr] = nv
        for p in spec.modifies_extra:
            if p.startswith('ghost:'):
                g = self.ghost.setdefault('g', {})
                cur = g.get(p[6:])
                g[p[6:]] = self.fresh('ghost_%s@%s' % (p[6:], ordn), cur.sort if cur is not None else tm.ArraySort(INT, REAL))
        if 'kappa' in spec.modifies_extra:
            wset.add(('K',))
            self.kappa = self.fresh('kappa@%s' % ordn, INT)
        # 4. assume invariants (+ range)
        if is_for:
            i = self.eval_quiet(s.target)
            self.assume(tm.le(lo, i))
            self.assume(tm.ite(tm.le(lo, hi), tm.le(i, hi), tm.eq(i, lo)))
        for (label, ir, txt) in spec.invariants:
            self.assume(self.spec_truth(ir))
        fr.loop_head[ordn] = (_copy.deepcopy(dict(fr.env)), self.kappa, dict(self.ghost.get('g', {})))
        if iterate:
            if is_for:
                self.assume(tm.lt(self.eval_quiet(s.target), hi))
            else:
                c = self.truth(self.eval(s.cond))
                if isinstance(c, bool):
                    if not c:
                        raise PathEnd()
                else:
                    self.assume(c)
            self.loop_stack.append({'set': wset, 'name': lname, 'frame': fr, 'fresh': set(), 'oid_mark': peek_oid()})
            try:
                try:
                    self.exec_block(s.body)
                except ContinueSig:
                    pass
                except BreakSig:
                    self.loop_stack.pop()
                    for (label, ir, txt) in getattr(spec, 'breaks', []):
                        self.oblige('step', self.spec_truth(ir), label='%s:at-break:%s' % (lname, label), line=s.line, note=txt)
                    return       # continue after the loop with this state
            except (ReturnSig, RaiseSig):
                self.loop_stack.pop()
                raise
            self.loop_stack.pop()
            if is_for:
                self.assign_target(s.target, tm.add(self.eval_quiet(s.target), tm.mk_int(1)), s.line)
            for (label, ir, txt) in spec.invariants:
                self.oblige('inv-keep', self.spec_truth(ir), label='%s:%s' % (lname, label), line=s.line, note=txt)
            for (label, ir, txt) in spec.steps:
                self.oblige('step', self.spec_truth(ir), label='%s:%s' % (lname, label), line=s.line, note=txt)
            raise PathEnd()
        else:
            if is_for:
                self.assume(tm.ge(self.eval_quiet(s.target), hi))
            else:
                c = self.truth(self.eval(s.cond))
                if isinstance(c, bool):
                    if c:
                        raise PathEnd()
                else:
                    self.assume(tm.not_(c))
            self.exec_block(s.orelse)

    def eval_quiet(self, node):
        """evaluate without keeping obligations / decisions (used for write-set discovery)"""
        mark = len(self.obligations)
        try:
            return self.eval(node)
        finally:
            del self.obligations[mark:]

    def spec_truth(self, ir):
        v = self.eval_spec(ir)
        t = self.truth(v)
        return t if isinstance(t, T) else tm.mk_bool(t)


class _LitNode(N):
    pass


def _Lit(v):
    """IR node that evaluates to an already computed value"""
    return N('Lit', 0, v=v)


def peek_oid():
    from . import values
    return values._oid[0]
