"""Methods of Python containers, strings and arrays (assumed contracts on builtins: finite maps / sequences)."""
import copy as _copy

from . import terms as tm
from .terms import T, REAL, INT, BOOL
from .values import *      # noqa
from . import arrays


def copy_value(ex, v, deep=False):
    if isinstance(v, Arr):
        return arrays.fresh_like(ex, v)
    if isinstance(v, (list, dict, set, tuple)):
        return _copy.deepcopy(v) if deep else _copy.copy(v)
    if isinstance(v, Obj):
        if deep:
            return _copy.deepcopy(v)
        o = _copy.copy(v)
        o.fields = dict(v.fields)
        o.oid = next_oid()
        return o
    return v


def call_method(ex, o, name, args, kwargs, line):
    if isinstance(o, Arr):
        return arr_method(ex, o, name, args, kwargs, line)
    if isinstance(o, list):
        return list_method(ex, o, name, args, kwargs, line)
    if isinstance(o, dict):
        return dict_method(ex, o, name, args, kwargs, line)
    if isinstance(o, str):
        return str_method(ex, o, name, args, kwargs, line)
    if isinstance(o, tuple):
        if name == 'index':
            return o.index(args[0])
        if name == 'count':
            return o.count(args[0])
    if isinstance(o, set):
        if name == 'add':
            o.add(ex.hashable(args[0]))
            return None
        if name == 'update':
            o.update(args[0])
            return None
        if name in ('discard', 'remove'):
            k = ex.hashable(args[0])
            if isinstance(k, T) and k.is_const():
                k = k.value()
            if isinstance(k, T):
                raise Unsupported('set.%s of a symbolic element (line %s)' % (name, line))
            if name == 'remove' and k not in o:
                ex.raise_exc('KeyError', k, line)
            o.discard(k)
            return None
        if name in ('union', 'intersection', 'difference', 'issubset'):
            return getattr(o, name)(set(args[0]))
    from . import strings
    if isinstance(o, strings.SStr):
        return strings.method(ex, o, name, args, kwargs, line)
    if isinstance(o, T):
        if name == 'is_integer':
            return tm.eq(tm.to_real(tm.to_int_floor(o)), tm.to_real(o))
        if name == 'copy':
            return o
    raise Unsupported('method %s of %r (line %s)' % (name, type(o).__name__, line))


def arr_method(ex, a, name, args, kwargs, line):
    if name == 'copy':
        return arrays.fresh_like(ex, a)
    if name == 'fill':
        root = arrays.root_of(a)
        ex.note_write(('A', root.oid), root.name)
        v = arrays.coerce_elem(ex, a, args[0], line)
        t = v
        s = a.elem
        for _ in a.shape:
            s = tm.ArraySort(INT, s)
            t = tm.constarr(s, t)
        a.term = t
        return None
    if name == 'size_' or name == 'size':
        return a.shape[0]
    if name == 'push_back':
        raise Unsupported('push_back on a symbolic vector (line %s)' % line)
    if name == 'astype':
        return a
    if name == 'tolist':
        from . import builtins_ as bi
        return bi.iterate(ex, a, line)
    if name == 'reshape':
        from . import reshape
        return reshape.reshape(ex, a, args, kwargs, line)
    if name == 'flatten':
        if a.ndim == 1:
            return arrays.fresh_like(ex, a)
        from . import reshape as _rs
        items = _rs.flat_items(ex, a)
        return _rs.build(ex, items, [len(items)], a.elem, 'flat')
    if name == 'sum':
        if a.ndim == 1:
            return tm.app('sum', (a.term, to_term(a.shape[0])), REAL)
    raise Unsupported('array method %s (line %s)' % (name, line))


def list_method(ex, o, name, args, kwargs, line):
    if name in ('append', 'push_back'):
        ex.note_write(('D', id(o)), 'list')
        o.append(args[0])
        return None
    if name == 'extend':
        from . import builtins_ as bi
        ex.note_write(('D', id(o)), 'list')
        o.extend(bi.iterate(ex, args[0], line))
        return None
    if name == 'insert':
        o.insert(ex.concrete_int(args[0]), args[1])
        return None
    if name == 'pop':
        if not o:
            ex.raise_exc('IndexError', 'pop from empty list', line)
        return o.pop(*[ex.concrete_int(a) for a in args])
    if name == 'index':
        for i, x in enumerate(o):
            c = ex.compare('==', x, args[0])
            if ex.branch(c):
                return i
        ex.raise_exc('ValueError', 'not in list', line)
    if name == 'count':
        n = 0
        for x in o:
            c = ex.compare('==', x, args[0])
            if ex.branch(c):
                n += 1
        return n
    if name == 'remove':
        for i, x in enumerate(o):
            if ex.branch(ex.compare('==', x, args[0])):
                del o[i]
                return None
        ex.raise_exc('ValueError', 'list.remove(x): x not in list', line)
    if name == 'copy':
        return list(o)
    if name == 'clear':
        ex.note_write(('D', id(o)), 'list')
        del o[:]
        return None
    if name == 'size':
        return len(o)
    if name == 'sort':
        if any(isinstance(x, T) for x in o):
            raise Unsupported('sorting symbolic values')
        o.sort(reverse=bool(kwargs.get('reverse', False)))
        return None
    if name == 'reverse':
        o.reverse()
        return None
    raise Unsupported('list method %s (line %s)' % (name, line))


def dict_method(ex, o, name, args, kwargs, line):
    if name == 'keys':
        return list(o.keys())
    if name == 'values':
        return list(o.values())
    if name == 'items':
        return [(k, v) for k, v in o.items()]
    if name == 'get':
        k = ex.dict_find(o, args[0])
        return o[k] if k is not None else (args[1] if len(args) > 1 else None)
    if name == 'update':
        ex.note_write(('D', id(o)), 'dict')
        if args:
            o.update(args[0])
        o.update(kwargs)
        return None
    if name == 'copy':
        return dict(o)
    if name == 'pop':
        k = ex.dict_find(o, args[0])
        if k is not None:
            return o.pop(k)
        if len(args) > 1:
            return args[1]
        ex.raise_exc('KeyError', repr(k), line)
    if name == 'setdefault':
        k = ex.dict_find(o, args[0])
        if k is None:
            k = ex.hashable(args[0])
            o[k] = args[1] if len(args) > 1 else None
        return o[k]
    if name == 'clear':
        o.clear()
        return None
    if name == 'has_key':
        return ex.hashable(args[0]) in o
    raise Unsupported('dict method %s (line %s)' % (name, line))


def str_method(ex, o, name, args, kwargs, line):
    if any(isinstance(a, T) for a in args):
        raise Unsupported('string method %s with symbolic argument (line %s)' % (name, line))
    from . import strings
    if any(isinstance(a, strings.SStr) for a in args):
        return strings.method(ex, strings.SStr.of(o), name, args, kwargs, line)
    if name == 'join':
        items = list(args[0])
        if any(isinstance(x, strings.SStr) for x in items):
            return strings.join(ex, o, items)
        if not all(isinstance(x, str) for x in items):
            ex.raise_exc('TypeError', 'sequence item: expected str', line)
        return o.join(items)
    if name == 'format':
        return strings.format_(ex, o, args, kwargs, line)
    if name in ('split', 'strip', 'lstrip', 'rstrip', 'replace', 'find', 'rfind', 'startswith', 'endswith', 'lower',
                'upper', 'isdigit', 'isalpha', 'isalnum', 'count', 'index', 'partition', 'rpartition', 'title',
                'capitalize', 'splitlines', 'rsplit', 'isnumeric', 'zfill', 'encode', 'decode', 'isidentifier'):
        try:
            r = getattr(o, name)(*args, **kwargs)
        except ValueError:
            ex.raise_exc('ValueError', 'substring not found', line)
        if isinstance(r, tuple):
            return tuple(r)
        return r
    raise Unsupported('str method %s (line %s)' % (name, line))
