"""Expression evaluation (mixin of the executor)."""
import math
from fractions import Fraction

from . import terms as tm
from .terms import T, REAL, INT, BOOL
from .values import *      # noqa
from .ir import N

INF = float('inf')


def _is_nonfinite(v):
    return isinstance(v, float) and (v != v or v in (INF, -INF))


class EvalMixin(object):

    # ------------------------------------------------------------------ entry
    def eval(self, n):
        m = getattr(self, 'e_' + n.k, None)
        if m is None:
            raise Unsupported('expression kind %s (line %s)' % (n.k, n.line))
        return m(n)

    def e_Unsupported(self, n):
        raise Unsupported('%s (line %s)' % (n.what, n.line))

    def e_Num(self, n):
        if n.isfloat:
            # the double nearest to the literal (what the compiled code holds), as an exact rational
            return tm.mk_real(Fraction(repr(float(n.text.rstrip('fFlL')))))
        return n.v

    def e_Str(self, n):
        return n.s

    def e_Const(self, n):
        return n.v

    def e_Name(self, n):
        return self.lookup(n.id, n.line)

    def e_Tuple(self, n):
        return tuple(self.eval(e) for e in n.elts)

    def e_List(self, n):
        return [self.eval(e) for e in n.elts]

    def e_Set(self, n):
        return set(self.eval(e) for e in n.elts)

    def e_Dict(self, n):
        d = {}
        for k, v in zip(n.keys, n.vals):
            if k is None:
                d.update(self.eval(v))
            else:
                d[self.hashable(self.eval(k))] = self.eval(v)
        return d

    def hashable(self, k):
        if isinstance(k, T):
            if k.is_const():
                v = k.value()
                return int(v) if isinstance(v, Fraction) and v.denominator == 1 else v
            return k       # symbolic key: lookups go through dict_find (case split on equality)
        return k

    def dict_find(self, d, k):
        """the key of d equal to k (deciding symbolic equalities by branching), or None"""
        k = self.hashable(k)
        sym = isinstance(k, T)
        if not sym and not any(isinstance(x, T) for x in d):
            return k if k in d else None
        for k2 in list(d.keys()):
            if isinstance(k2, T) or sym:
                if not (is_num(k2) and is_num(k)):
                    continue
                c = self.compare('==', k2, k)
                if self.branch(c):
                    return k2
            elif k2 == k:
                return k2
        return None

    def e_Lambda(self, n):
        return Closure(n.params, n.body, dict(self.frame.env))

    def e_JoinedStr(self, n):
        out = []
        for p in n.parts:
            v = self.eval(p)
            out.append(v if isinstance(v, str) else self.to_str(v))
        return ''.join(out)

    def e_Format(self, n):
        return self.to_str(self.eval(n.e))

    def to_str(self, v):
        from . import strings
        return strings.to_str(self, v)

    def e_IfExp(self, n):
        c = self.truth(self.eval(n.c))
        if isinstance(c, bool):
            return self.eval(n.a if c else n.b)
        if self.branch(c):
            return self.eval(n.a)
        return self.eval(n.b)

    def e_BoolOp(self, n):
        # short circuit; symbolic operands: evaluate the right operand under the guard
        vals = n.operands
        acc = None
        for i, opn in enumerate(vals):
            v = self.eval(opn) if acc is None else None
            if acc is None:
                cur = v
            if i == 0:
                acc = cur
                continue
            t = self.truth(acc)
            if isinstance(t, bool):
                if n.op == 'and':
                    if not t:
                        return acc
                    acc = self.eval(opn)
                else:
                    if t:
                        return acc
                    acc = self.eval(opn)
                continue
            # symbolic left operand: guarded evaluation of the right one
            guard = t if n.op == 'and' else tm.not_(t)
            mark = len(self.pc)
            self.pc.append(guard)
            try:
                r = self.eval(opn)
            finally:
                self.close_guard(mark, getattr(self, 'quant_vars', ()))
            rt = self.truth(r)
            if isinstance(rt, bool):
                rt = tm.mk_bool(rt)
            acc = tm.and_(t, rt) if n.op == 'and' else tm.or_(t, rt)
        return acc

    def e_UnOp(self, n):
        v = self.eval(n.e)
        if n.op == 'not':
            t = self.truth(v)
            return (not t) if isinstance(t, bool) else tm.not_(t)
        if n.op == '-':
            if isinstance(v, T):
                return tm.neg(v)
            if isinstance(v, Arr):
                return self.arr_map1(v, tm.neg)
            return -v
        if n.op == '+':
            return v
        raise Unsupported('unary %s' % n.op)

    # ------------------------------------------------------------------ arithmetic
    def e_BinOp(self, n):
        a = self.eval(n.l)
        b = self.eval(n.r)
        return self.binop(n.op, a, b, n)

    def is_cint_expr(self, n):
        """static C-integer-ness of an expression in a .pyx function: True / False / 'lit'"""
        fr = self.frame
        if fr.func is None or not getattr(fr.func.module, 'is_pyx', False):
            return False
        k = n.k
        if k == 'Num':
            return False if n.isfloat else 'lit'
        if k == 'Name':
            ct = fr.ctypes.get(n.id)
            return bool(ct and ct[0] == 'int')
        if k == 'Attr':
            if n.obj.k == 'Name':
                try:
                    o = fr.env.get(n.obj.id)
                except Exception:
                    o = None
                if isinstance(o, Obj) and o.cls is not None:
                    ct = self.program.all_fields(o.cls).get(n.attr)
                    return bool(ct and ct[0] == 'int')
            return False
        if k == 'Cast':
            return n.ctype[0] == 'int'
        if k == 'BinOp':
            l, r = self.is_cint_expr(n.l), self.is_cint_expr(n.r)
            if l and r:
                return 'lit' if (l == 'lit' and r == 'lit') else True
            return False
        if k == 'UnOp':
            return self.is_cint_expr(n.e)
        if k == 'Index':
            b = n.base
            if b.k == 'Name':
                ct = fr.ctypes.get(b.id)
                if ct and ct[0] in ('ptr', 'vector') and ct[1][0] == 'int':
                    return True
            if b.k == 'Attr' and b.obj.k == 'Name':
                o = fr.env.get(b.obj.id)
                if isinstance(o, Obj) and o.cls is not None:
                    ct = self.program.all_fields(o.cls).get(b.attr)
                    if ct and ct[0] in ('ptr', 'vector') and ct[1][0] == 'int':
                        return True
            return False
        if k == 'Call' and n.func.k == 'Name' and n.func.id == 'len':
            return True
        return False

    def binop(self, op, a, b, n=None):
        line = n.line if n is not None else 0
        if type(a).__name__ == 'SymNode' or type(b).__name__ == 'SymNode':
            # sympy's operator overloading: an expression node with the meaning of the written operation (spec/sympy_stub.py)
            from spec import sympy_stub
            return sympy_stub.arith(self, op, a, b, line)
        if isinstance(a, Arr) or isinstance(b, Arr):
            return self.arr_binop(op, a, b, line)
        if isinstance(a, (list, tuple, str)) or isinstance(b, (list, tuple, str)):
            if op == '+' and ((isinstance(a, str) and isinstance(b, (T, int, float, bool)) and not isinstance(b, str)) or
                              (isinstance(b, str) and isinstance(a, (T, int, float, bool)) and not isinstance(a, str))):
                self.raise_exc('TypeError', 'can only concatenate str (not a number) to str', line)
            if isinstance(a, T) or isinstance(b, T):
                # list * symbolic int etc.
                raise Unsupported('sequence arithmetic with a symbolic operand (line %s)' % line)
            from . import strings
            if isinstance(a, strings.SStr) or isinstance(b, strings.SStr):
                return strings.binop(self, op, a, b)
            if op == '+':
                return a + b
            if op == '*':
                return a * b
            if op == '%' and isinstance(a, str):
                return strings.percent_format(self, a, b)
            raise Unsupported('sequence op %s' % op)
        if _is_nonfinite(a) or _is_nonfinite(b):
            return self.nonfinite_arith(op, a, b)
        if isinstance(a, (int, bool)) and isinstance(b, (int, bool)) and not isinstance(a, T) and not isinstance(b, T):
            a, b = int(a), int(b)
            if op == '+':
                return a + b
            if op == '-':
                return a - b
            if op == '*':
                return a * b
            if op == '**':
                if b >= 0:
                    return a ** b
                return tm.mk_real(Fraction(a) ** b)
            if op == '//':
                return a // b
            if op == '%':
                if b == 0:
                    self.oblige('div0', tm.FALSE, line=line)
                    raise PathEnd()
                return a % b
            if op == '/':
                if b == 0:
                    self.oblige('div0', tm.FALSE, line=line)
                    raise PathEnd()
                if n is not None and self.is_cint_expr(n.l) and self.is_cint_expr(n.r):
                    q = abs(a) // abs(b)
                    return q if (a >= 0) == (b > 0) else -q
                return tm.mk_real(Fraction(a, b))
            if op in ('|', '&', '^', '<<', '>>'):
                return {'|': a | b, '&': a & b, '^': a ^ b, '<<': a << b, '>>': a >> b}[op]
            raise Unsupported('int op %s' % op)
        if not (is_num(a) and is_num(b)) and not isinstance(a, Fraction) and not isinstance(b, Fraction):
            if isinstance(a, dict) and isinstance(b, dict) and op == '|':
                d = dict(a)
                d.update(b)
                return d
            if isinstance(a, set) and isinstance(b, set):
                return {'|': a | b, '&': a & b, '-': a - b}[op]
            raise Unsupported('operands of %s: %r, %r (line %s)' % (op, type(a).__name__, type(b).__name__, line))
        ta, tb = to_term(a), to_term(b)
        if op == '+':
            return tm.add(ta, tb)
        if op == '-':
            return tm.sub(ta, tb)
        if op == '*':
            return tm.mul(ta, tb)
        if op == '/':
            both_int = ta.sort in (INT, BOOL) and tb.sort in (INT, BOOL)
            fr = self.frame
            if not self.in_spec and fr.func is not None and not getattr(fr.func.module, 'is_pyx', False) and not tb.is_const():
                # numpy float64 semantics in .py modules: x/0 is +-inf or nan (RuntimeWarning), never an exception
                zero = tm.mk_int(0) if tb.sort == INT else tm.mk_real(0)
                if self.branch(tm.eq(tb, zero)):
                    return self.nonfinite_arith('/', INF if True else 0, 0.0) if False else self._div_by_zero(ta)
                return tm.rdiv(ta, tb)
            if not self.in_spec:
                self.div0_check(tb, line)
            if both_int and n is not None and self.is_cint_expr(n.l) and self.is_cint_expr(n.r):
                return self.cdiv(tm.bool_to_int(ta), tm.bool_to_int(tb))
            return tm.rdiv(ta, tb)
        if op == '//':
            if not self.in_spec:
                self.div0_check(tb, line)
            if ta.sort == INT and tb.sort == INT:
                if n is not None and self.is_cint_expr(n.l) and self.is_cint_expr(n.r):
                    return self.cdiv(ta, tb)
                # python floor division (divisor sign split)
                return tm.ite(tm.gt(tb, tm.mk_int(0)), tm.idiv_floor(ta, tb), tm.idiv_floor(tm.neg(ta), tm.neg(tb)))
            return tm.to_real(tm.to_int_floor(tm.rdiv(ta, tb)))
        if op == '%':
            if not self.in_spec:
                self.div0_check(tb, line)
            if ta.sort == INT and tb.sort == INT:
                if n is not None and self.is_cint_expr(n.l) and self.is_cint_expr(n.r):
                    return self.cmod(ta, tb)
                # python modulo: sign of the divisor
                return tm.ite(tm.gt(tb, tm.mk_int(0)), tm.imod(ta, tb), tm.neg(tm.imod(tm.neg(ta), tm.neg(tb))))
            q = tm.to_real(tm.to_int_floor(tm.rdiv(ta, tb)))
            return tm.sub(tm.to_real(ta), tm.mul(q, tm.to_real(tb)))
        if op == '**':
            return self.power(ta, tb, line)
        if op in ('|', '&', '^', '<<', '>>') and ta.sort in (INT, BOOL) and tb.sort in (INT, BOOL):
            ta, tb = tm.bool_to_int(ta), tm.bool_to_int(tb)
            nm = {'|': 'bor', '&': 'band', '^': 'bxor', '<<': 'shl', '>>': 'shr'}[op]
            if op == '>>' and tb.is_const() and 0 <= tb.value() < 64:
                return tm.idiv_floor(ta, tm.mk_int(1 << tb.value()))       # logical shift of a non-negative value
            return tm.app(nm, (ta, tb), INT)
        raise Unsupported('binary op %s on terms' % op)

    def _div_by_zero(self, ta):
        zero = tm.mk_int(0) if ta.sort == INT else tm.mk_real(0)
        if self.branch(tm.gt(ta, zero)):
            return INF
        if self.branch(tm.lt(ta, zero)):
            return -INF
        return float('nan')

    def cdiv(self, a, b):
        return tm.ite(tm.ge(a, tm.mk_int(0)), tm.idiv_floor(a, b), tm.neg(tm.idiv_floor(tm.neg(a), b)))

    def cmod(self, a, b):
        return tm.ite(tm.ge(a, tm.mk_int(0)), tm.imod(a, b), tm.neg(tm.imod(tm.neg(a), b)))

    def div0_check(self, tb, line):
        if tb.is_const():
            if tb.value() == 0:
                self.oblige('div0', tm.FALSE, line=line)
                raise PathEnd()
            return
        zero = tm.mk_int(0) if tb.sort == INT else tm.mk_real(0)
        self.oblige('div0', tm.ne(tb, zero), line=line, note='divisor non-zero')

    def power(self, base, ex, line=0):
        if ex.is_const():
            e = ex.value()
            if Fraction(e).denominator == 1 and 0 <= int(e) <= 8:
                r = tm.mk_int(1) if base.sort == INT else tm.mk_real(1)
                for _ in range(int(e)):
                    r = tm.mul(r, base)
                return r
            if Fraction(e).denominator == 1 and -8 <= int(e) < 0:
                r = tm.mk_real(1)
                for _ in range(-int(e)):
                    r = tm.mul(r, tm.to_real(base))
                self.div0_check(tm.to_real(base), line)
                return tm.rdiv(tm.mk_real(1), r)
        if base.is_const() and ex.is_const():
            try:
                return tm.mk_real(float(base.value()) ** float(ex.value()))
            except Exception:
                pass
        return tm.app('rpow', (tm.to_real(base), tm.to_real(ex)), REAL)

    def nonfinite_arith(self, op, a, b):
        def sign_of(x):
            if isinstance(x, T):
                zero = tm.mk_int(0) if x.sort == INT else tm.mk_real(0)
                if self.branch(tm.gt(x, zero)):
                    return 1
                if self.branch(tm.lt(x, zero)):
                    return -1
                return 0
            if isinstance(x, Fraction):
                return (x > 0) - (x < 0)
            return (x > 0) - (x < 0) if x == x else None
        fa = float('nan')
        if isinstance(a, float) and a != a or isinstance(b, float) and b != b:
            return fa
        if op in ('+', '-'):
            if _is_nonfinite(a) and _is_nonfinite(b):
                return a + b if op == '+' else a - b
            if _is_nonfinite(a):
                return a
            return b if op == '+' else -b
        if op == '*':
            sa, sb = sign_of(a), sign_of(b)
            if sa == 0 or sb == 0:
                return fa
            return INF if sa * sb > 0 else -INF
        if op == '/':
            if _is_nonfinite(a) and _is_nonfinite(b):
                return fa
            if _is_nonfinite(b):
                return tm.mk_real(0)
            sb = sign_of(b)
            sa = sign_of(a)
            if sb == 0:
                return a
            return INF if sa * sb > 0 else -INF
        if op == '**':
            if _is_nonfinite(a) and not _is_nonfinite(b):
                sb = sign_of(b)
                if sb == 0:
                    return tm.mk_real(1)
                if sb < 0:
                    return tm.mk_real(0)
                if a > 0:
                    return INF
                if isinstance(b, int) or (isinstance(b, T) and b.is_const() and Fraction(b.value()).denominator == 1):
                    bv = b if isinstance(b, int) else int(b.value())
                    return INF if bv % 2 == 0 else -INF
                raise Unsupported('(-inf) ** symbolic')
        raise Unsupported('non-finite arithmetic %s' % op)

    # ------------------------------------------------------------------ comparisons
    def e_Cmp(self, n):
        vals = [self.eval(n.operands[0])]
        acc = None
        for i, op in enumerate(n.ops):
            if acc is not None and isinstance(acc, T) and not acc.is_const():
                mark = len(self.pc)
                self.pc.append(acc)
                try:
                    r = self.eval(n.operands[i + 1])
                finally:
                    self.close_guard(mark, getattr(self, 'quant_vars', ()))
            else:
                if acc is False:
                    return False
                r = self.eval(n.operands[i + 1])
            vals.append(r)
            c = self.compare(op, vals[i], r, n.line)
            if acc is None:
                acc = c
            else:
                if isinstance(acc, bool) and isinstance(c, bool):
                    acc = acc and c
                else:
                    acc = tm.and_(acc if isinstance(acc, T) else tm.mk_bool(acc), c if isinstance(c, T) else tm.mk_bool(c))
        return acc

    def compare(self, op, a, b, line=0):
        for x, y in ((a, b), (b, a)):
            h = getattr(x, 'bsvc_compare', None)
            if h is not None and op in ('==', '!='):
                r = h(self, y)
                if r is not NotImplemented:
                    if op == '==':
                        return r
                    return (not r) if isinstance(r, bool) else tm.not_(r)
        if op in ('is', 'is_not'):
            if isinstance(a, T) or isinstance(b, T):
                if a is None or b is None:
                    r = False
                else:
                    return self.compare('==' if op == 'is' else '!=', a, b, line)
            elif a is None or b is None or isinstance(a, bool) or isinstance(b, bool):
                r = a is b
            elif isinstance(a, (Obj, Arr)) or isinstance(b, (Obj, Arr)):
                r = a is b
            else:
                r = a is b or (type(a) == type(b) and a == b and isinstance(a, (int, str, Builtin, ClassRef, FuncRef)))
            return r if op == 'is' else not r
        if op in ('in', 'not_in'):
            r = self.contains(b, a)
            if isinstance(r, bool):
                return r if op == 'in' else not r
            return r if op == 'in' else tm.not_(r)
        for x, y, flip in ((a, b, False), (b, a, True)):
            # numpy: comparing an ndarray with a number is ELEMENTWISE and gives a boolean array (it was answered as object identity)
            if isinstance(x, Arr) and x.kind == 'ndarray' and x.objs is None and is_num(y) and not isinstance(y, bool):
                if x.ndim != 1:
                    raise Unsupported('elementwise comparison of a rank>1 array (line %s)' % line)
                from . import arrays
                opx = {'<': '>', '<=': '>=', '>': '<', '>=': '<='}.get(op, op) if flip else op
                f = {'==': tm.eq, '!=': tm.ne, '<': tm.lt, '<=': tm.le, '>': tm.gt, '>=': tm.ge}[opx]
                yt = tm.to_real(to_term(y))
                return arrays.pointwise(self, x.shape[0], 'cmp', BOOL, lambda j: f(tm.to_real(arrays.elem1(x, j)), yt))
        if _is_nonfinite(a) or _is_nonfinite(b):
            return self.nonfinite_cmp(op, a, b)
        if isinstance(a, Fraction):
            a = tm.mk_real(a)
        if isinstance(b, Fraction):
            b = tm.mk_real(b)
        if isinstance(a, T) and isinstance(b, T) and isinstance(a.sort, tuple) and a.sort == b.sort and op in ('==', '!='):
            e = tm.eq(a, b)
            return e if op == '==' else tm.not_(e)
        if isinstance(a, T) or isinstance(b, T):
            if not (is_num(a) and is_num(b)):
                if op == '==':
                    return False
                if op == '!=':
                    return True
                raise Unsupported('comparison %s between %r and %r (line %s)' % (op, a, b, line))
            ta, tb = to_term(a), to_term(b)
            if ta.sort == BOOL and tb.sort == BOOL and op in ('==', '!='):
                e = tm.eq(ta, tb)
                return e if op == '==' else tm.not_(e)
            f = {'==': tm.eq, '!=': tm.ne, '<': tm.lt, '<=': tm.le, '>': tm.gt, '>=': tm.ge}[op]
            if ta.sort == BOOL:
                ta = tm.bool_to_int(ta)
            if tb.sort == BOOL:
                tb = tm.bool_to_int(tb)
            return f(ta, tb)
        from . import strings
        if isinstance(a, strings.SStr) or isinstance(b, strings.SStr):
            return strings.compare(self, op, a, b)
        if isinstance(a, (Obj, Arr)) or isinstance(b, (Obj, Arr)):
            if op == '==':
                return a is b
            if op == '!=':
                return a is not b
            raise Unsupported('ordering of objects')
        try:
            return {'==': lambda: a == b, '!=': lambda: a != b, '<': lambda: a < b, '<=': lambda: a <= b,
                    '>': lambda: a > b, '>=': lambda: a >= b}[op]()
        except TypeError:
            raise Unsupported('comparison %s of %r and %r' % (op, a, b))

    def nonfinite_cmp(self, op, a, b):
        if (isinstance(a, float) and a != a) or (isinstance(b, float) and b != b):
            return op == '!='
        fa = a if isinstance(a, float) and _is_nonfinite(a) else 0.0
        fb = b if isinstance(b, float) and _is_nonfinite(b) else 0.0
        if not _is_nonfinite(a) and not isinstance(a, T):
            fa = float(a)
        if not _is_nonfinite(b) and not isinstance(b, T):
            fb = float(b)
        if _is_nonfinite(a) and _is_nonfinite(b):
            pass
        return {'==': fa == fb, '!=': fa != fb, '<': fa < fb, '<=': fa <= fb, '>': fa > fb, '>=': fa >= fb}[op]

    def contains(self, container, x):
        if isinstance(container, dict):
            return self.dict_find(container, x) is not None
        if isinstance(container, (list, tuple, set)):
            acc = False
            for e in container:
                c = self.compare('==', e, x)
                if isinstance(c, bool):
                    if c:
                        return True
                else:
                    acc = c if acc is False else tm.or_(acc, c)
            return acc
        if isinstance(container, str):
            if isinstance(x, str):
                return x in container
        from . import strings
        if isinstance(container, strings.SStr):
            return strings.contains(self, container, x)
        raise Unsupported('membership test in %r' % type(container).__name__)

    # ------------------------------------------------------------------ attribute / index
    def e_Attr(self, n):
        o = self.eval(n.obj)
        return self.getattr_value(o, n.attr, n.line)

    def getattr_value(self, o, attr, line=0):
        if isinstance(o, Obj):
            v = self.get_field(o, attr, line)
            if v is not UNBOUND:
                return v
            if o.cls is not None:
                f = self.program.find_method(o.cls, attr, with_body=False)
                if f is not None:
                    return BoundMethod(o, f)
                for c in self.program.mro(o.cls):
                    for st in c.body:
                        if st.k == 'Assign' and any(t.k == 'Name' and t.id == attr for t in st.targets):
                            return self.eval_in_module(st.value, c.module)
            if attr == '__class__':
                return ClassRef(o.cls)
            if attr == '__dict__' and not o.symbolic:
                return o.fields
            if o.symbolic and not o.exact and o.cls is not None:
                # a def method that only subclasses define (dynamic attribute lookup on an object of unknown subclass)
                for sc in self.program.subclasses(o.cls.name):
                    f = sc.methods.get(attr)
                    if f is not None:
                        return BoundMethod(o, f)
            if o.symbolic:
                raise Unsupported('field %s.%s has no declared type (line %s)' % (o.clsname, attr, line))
            self.raise_exc('AttributeError', "%s has no attribute %s" % (o.clsname, attr), line)
        if isinstance(o, Arr):
            from . import builtins_ as bi
            return bi.array_attr(self, o, attr, line)
        if isinstance(o, ModRef):
            from . import builtins_ as bi
            return bi.module_attr(self, o, attr, line)
        if isinstance(o, ClassRef):
            f = self.program.find_method(o.cls, attr)
            if f is not None:
                if 'staticmethod' in f.decorators:
                    return FuncRef(f)
                return FuncRef(f)
            if attr == '__name__':
                return o.cls.name
            raise Unsupported('class attribute %s.%s' % (o.cls.name, attr))
        from . import builtins_ as bi
        return bi.value_attr(self, o, attr, line)

    def eval_in_module(self, node, module):
        return self.eval(node)

    def norm_index(self, arr, d, i, line):
        """bounds obligation + constant negative wrap for dimension d"""
        n = arr.shape[d]
        if isinstance(i, bool):
            i = int(i)
        if isinstance(i, int) and i < 0 and arr.kind != 'ptr' and n is not None:
            i = tm.add(to_term(n), tm.mk_int(i))
        it = to_term(i)
        if it.sort == REAL:
            raise Unsupported('real-valued index (line %s)' % line)
        if it.sort == BOOL:
            it = tm.bool_to_int(it)
        if n is None:
            self.oblige('bounds', tm.ge(it, tm.mk_int(0)), label=arr.name, line=line)
        else:
            self.oblige('bounds', tm.and_(tm.ge(it, tm.mk_int(0)), tm.lt(it, to_term(n))), label=arr.name, line=line,
                        note='index into %s' % arr.name)
        return it

    def e_Index(self, n):
        base = self.eval(n.base)
        if isinstance(base, ClassRef) or isinstance(base, Builtin):
            return base      # vector[int] style template instantiation in expressions
        idx = n.index
        if isinstance(base, Arr):
            from . import arrays
            return arrays.index(self, base, idx, n.line)
        if idx.k == 'Slice':
            lo = self.eval(idx.lo) if idx.lo is not None else None
            hi = self.eval(idx.hi) if idx.hi is not None else None
            st = self.eval(idx.step) if idx.step is not None else None
            from . import strings
            if isinstance(base, strings.SStr):
                return strings.slice_(self, base, lo, hi, st)
            lo, hi, st = [self.concrete_int(x, 'slice bound') if x is not None else None for x in (lo, hi, st)]
            return base[slice(lo, hi, st)]
        i = self.eval(idx)
        return self.index_value(base, i, n.line)

    def concrete_int(self, x, what=''):
        if isinstance(x, bool):
            return int(x)
        if isinstance(x, int):
            return x
        if isinstance(x, T) and x.is_const():
            v = x.value()
            if Fraction(v).denominator == 1:
                return int(v)
        raise Unsupported('%s must be concrete, got %r' % (what, x))

    def index_value(self, base, i, line=0):
        if isinstance(base, T) and isinstance(base.sort, tuple):
            if isinstance(i, tuple):
                t = base
                for x in i:
                    t = tm.select(t, to_term(x))
                return t
            return tm.select(base, to_term(i))
        if isinstance(base, PtrTo):
            if self.concrete_int(i, 'pointer dereference index') != 0:
                raise Unsupported('pointer arithmetic on a pointer to a single object')
            return base.target
        if isinstance(base, dict):
            k = self.dict_find(base, i)
            if k is None:
                self.raise_exc('KeyError', repr(i), line)
            return base[k]
        if isinstance(base, (list, tuple)):
            if isinstance(i, T) and not i.is_const():
                # symbolic index into a concrete sequence: case split
                for j in range(len(base)):
                    if self.branch(tm.eq(i, tm.mk_int(j))):
                        return base[j]
                self.raise_exc('IndexError', 'list index out of range', line)
            j = self.concrete_int(i, 'sequence index')
            if not (-len(base) <= j < len(base)):
                self.raise_exc('IndexError', 'index out of range', line)
            return base[j]
        if isinstance(base, str):
            return base[self.concrete_int(i)]
        from . import strings
        if isinstance(base, strings.SStr):
            return strings.index(self, base, i)
        from . import builtins_ as bi
        return bi.index_other(self, base, i, line)

    def raise_exc(self, clsname, msg=None, line=0):
        raise RaiseSig(ExcVal(clsname, msg, line))

    # ------------------------------------------------------------------ casts
    def e_Cast(self, n):
        v = self.eval(n.e)
        ct = n.ctype
        k = ct[0]
        if k in ('double', 'int', 'bint'):
            if k == 'int' and isinstance(v, T) and v.sort == REAL:
                return tm.trunc(v)
            return self.convert(v, ct, n.line, 'cast')
        if k == 'ptr':
            if isinstance(v, Arr):
                return v
            if ct[1][0] == 'void':
                return v
            if isinstance(v, list):
                return v
            raise Unsupported('pointer cast of %r (line %s)' % (v, n.line))
        if k == 'obj':
            cls = self.program.find_class(ct[1], prefer=self.frame.func.module.short if self.frame.func else None)
            if isinstance(v, Obj):
                return v
            if isinstance(v, T) and v.sort == INT:
                return self.obj_of_ref(v, cls)
            if v is None:
                return None
            if isinstance(v, Arr) and ct[1] in ('ndarray',):
                return v
            return v
        if k in ('ndarray', 'memview', 'py', 'vector', 'voidptr'):
            return v
        raise Unsupported('cast to %s' % (ct,))

    def obj_of_ref(self, ref, cls):
        key = (ref, cls.name if cls else None)
        memo = self.ghost.setdefault('ref_objs', {})
        o = memo.get(key)
        if o is None:
            o = Obj(cls, cls.name, symbolic=True, exact=False, ref=ref, name='%s_at' % cls.name)
            memo[key] = o
        return o

    def e_Addr(self, n):
        e = n.e
        if e.k == 'Index':
            base = self.eval(e.base)
            if isinstance(base, Arr):
                from . import arrays
                return arrays.address_of(self, base, e.index, n.line)
        v = self.eval(e)
        if isinstance(v, (list, Obj)):
            return PtrTo(v)
        return v

    def e_Starred(self, n):
        raise Unsupported('starred expression')

    def e_Comp(self, n):
        from . import builtins_ as bi
        return bi.comprehension(self, n)

    def e_Call(self, n):
        return self.call_expr(n)

    # ------------------------------------------------------------------ numpy-style vector arithmetic
    def arr_binop(self, op, a, b, line):
        from . import arrays
        return arrays.binop(self, op, a, b, line)

    def arr_map1(self, a, fn):
        from . import arrays
        return arrays.map1(self, a, fn)
