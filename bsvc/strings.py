"""Structured strings: sequences of literal text and opaque parts (symbolic numbers / atoms).

There is no SMT string theory in the loop.  An SStr is a list of parts: python str (literal text), T (a number
rendered as text: the text is opaque but float(text) == the number), or Atom.
"""
from . import terms as tm
from .terms import T, REAL, INT, BOOL
from .values import *      # noqa


class SStr(object):
    def __init__(self, parts):
        out = []
        for p in parts:
            if isinstance(p, SStr):
                out.extend(p.parts)
            elif isinstance(p, str):
                if p == '':
                    continue
                if out and isinstance(out[-1], str):
                    out[-1] += p
                else:
                    out.append(p)
            else:
                out.append(p)
        self.parts = out

    @staticmethod
    def of(v):
        if isinstance(v, SStr):
            return v
        return SStr([v])

    def __repr__(self):
        return 'SStr(%r)' % (self.parts,)

    def __eq__(self, o):
        return isinstance(o, SStr) and self.parts == o.parts

    def __hash__(self):
        return hash(tuple(repr(p) for p in self.parts))

    def is_plain(self):
        return all(isinstance(p, str) for p in self.parts)

    def plain(self):
        return ''.join(self.parts)


def simplify(s):
    if isinstance(s, SStr) and s.is_plain():
        return s.plain()
    return s


def to_str(ex, v):
    if isinstance(v, str):
        return v
    if isinstance(v, SStr):
        return v
    if isinstance(v, bool) or v is None:
        return str(v)
    if isinstance(v, int):
        return str(v)
    if isinstance(v, float):
        return repr(v)
    if isinstance(v, T):
        if v.is_const() and v.sort == INT:
            return str(v.value())
        return SStr([v])
    if isinstance(v, Atom):
        return SStr([v])
    if isinstance(v, (list, tuple, dict)):
        return repr(v)
    if isinstance(v, ExcVal):
        return str(v.msg)
    from .values import Arr, Obj
    if isinstance(v, (Arr, Obj)):
        return '<%s>' % getattr(v, 'name', type(v).__name__)      # text of messages / reprs only
    raise Unsupported('str() of %r' % type(v).__name__)


def binop(ex, op, a, b):
    if op == '+':
        return simplify(SStr([SStr.of(a), SStr.of(b)]))
    raise Unsupported('string op %s' % op)


def percent_format(ex, fmt, args):
    if not isinstance(args, tuple):
        args = (args,)
    # type discipline of the conversion specifiers first (it does not depend on the values): a numeric conversion applied to something that
    # is not a number, or a wrong number of arguments, raises TypeError
    import re
    from .terms import T as _T
    from .values import Obj as _Obj, Arr as _Arr
    if isinstance(fmt, str) and '%(' not in fmt:
        specs = [m for m in re.findall(r'%[-+ #0]*(?:\d+|\*)?(?:\.(?:\d+|\*))?[hlL]?([diouxXeEfFgGcrsa%])', fmt) if m != '%']
        if len(specs) != len(args):
            ex.raise_exc('TypeError', 'not all arguments converted during string formatting' if len(specs) < len(args) else 'not enough arguments for format string', 0)
        for c, a in zip(specs, args):
            if c in 'diouxXeEfFgG' and (a is None or isinstance(a, (str, list, dict, tuple, set, _Obj, _Arr, SStr))):
                ex.raise_exc('TypeError', 'must be real number, not %s' % (a.clsname if isinstance(a, _Obj) else type(a).__name__), 0)
    if all(isinstance(a, (str, int, float)) for a in args):
        return fmt % args
    raise Unsupported('%-format with symbolic values')


def format_(ex, fmt, args, kwargs, line):
    if all(isinstance(a, (str, int)) for a in args) and all(isinstance(a, (str, int)) for a in kwargs.values()):
        return fmt.format(*args, **kwargs)
    # split on {} / {name} fields
    import string
    out = []
    auto = 0
    for lit, field, spec, conv in string.Formatter().parse(fmt):
        out.append(lit)
        if field is None:
            continue
        if spec:
            raise Unsupported('format spec with symbolic value')
        if field == '':
            v = args[auto]
            auto += 1
        elif field.isdigit():
            v = args[int(field)]
        else:
            v = kwargs[field]
        out.append(to_str(ex, v))
    return simplify(SStr(out))


def join(ex, sep, items):
    out = []
    for i, x in enumerate(items):
        if i:
            out.append(sep)
        out.append(SStr.of(x))
    return simplify(SStr(out))


def _surely_different(a, b):
    """literal prefixes / suffixes that disagree (an opaque part renders as at least one character)"""
    pa = a.parts[0] if a.parts and isinstance(a.parts[0], str) else ''
    pb = b.parts[0] if b.parts and isinstance(b.parts[0], str) else ''
    n = min(len(pa), len(pb))
    if pa[:n] != pb[:n]:
        return True
    sa = a.parts[-1] if a.parts and isinstance(a.parts[-1], str) else ''
    sb = b.parts[-1] if b.parts and isinstance(b.parts[-1], str) else ''
    n = min(len(sa), len(sb))
    if n and sa[-n:] != sb[-n:]:
        return True
    # minimal lengths: a plain string shorter than the least length of the other
    def minlen(x):
        return sum(len(p) if isinstance(p, str) else 1 for p in x.parts)
    if a.is_plain() and len(a.plain()) < minlen(b):
        return True
    if b.is_plain() and len(b.plain()) < minlen(a):
        return True
    return False


def compare(ex, op, a, b):
    a, b = SStr.of(a) if isinstance(a, (str, SStr)) else a, SStr.of(b) if isinstance(b, (str, SStr)) else b
    if not isinstance(a, SStr) or not isinstance(b, SStr):
        return op == '!='
    if op == '==':
        if a.parts == b.parts:
            return True
        if a.is_plain() and b.is_plain():
            return False
        if _surely_different(a, b):
            return False
        raise Unsupported('equality of structured strings %r / %r' % (a, b))
    if op == '!=':
        r = compare(ex, '==', a, b)
        return not r
    raise Unsupported('ordering of structured strings')


def contains(ex, s, x):
    if isinstance(x, str) and all(isinstance(p, (str, T)) for p in s.parts):
        # numbers render as digits, sign, '.', 'e', 'inf', 'nan' only
        if any(isinstance(p, str) and x in p for p in s.parts):
            return True
        if not any(ch in '0123456789.e+-infa' for ch in x):
            return False
    raise Unsupported('substring test on a structured string')


def length(ex, s):
    raise Unsupported('len of a structured string')


def index(ex, s, i):
    raise Unsupported('indexing a structured string')


def slice_(ex, s, lo, hi, st):
    raise Unsupported('slicing a structured string')


def to_float(ex, s, line):
    s = SStr.of(s)
    parts = [p for p in s.parts if not (isinstance(p, str) and p.strip() == '')]
    if len(parts) == 1 and isinstance(parts[0], T):
        return tm.to_real(parts[0])
    if s.is_plain():
        from . import builtins_ as bi
        return bi.fn_float(ex, s.plain(), line)
    ex.raise_exc('ValueError', 'could not convert string to float', line)


def to_int(ex, s, line):
    s = SStr.of(s)
    if len(s.parts) == 1 and isinstance(s.parts[0], T) and s.parts[0].sort == INT:
        return s.parts[0]
    if s.is_plain():
        from . import builtins_ as bi
        return bi.fn_int(ex, s.plain(), line)
    raise Unsupported('int() of a structured string')


def method(ex, s, name, args, kwargs, line):
    raise Unsupported('method %s of a structured string (line %s)' % (name, line))
