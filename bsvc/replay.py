"""Counterexample handling: model extraction, scratch build of the current tree, native replay, replay files."""
import hashlib
import json
import os
import re
import shutil
import subprocess
import sys
import tempfile
import time
from fractions import Fraction

from . import solver
from .program import repo_root

ROOT = os.path.dirname(os.path.dirname(os.path.abspath(__file__)))
PY = '/venv/bin/python'


# ---------------------------------------------------------------------------------------------- models

def _num(z3, v):
    """z3 numeral -> python Fraction/int/bool (or None)"""
    try:
        if z3.is_true(v):
            return True
        if z3.is_false(v):
            return False
        if z3.is_int_value(v):
            return v.as_long()
        if z3.is_rational_value(v):
            return Fraction(v.numerator_as_long(), v.denominator_as_long())
        if z3.is_algebraic_value(v):
            return Fraction(v.approx(20).numerator_as_long(), v.approx(20).denominator_as_long())
    except Exception:
        return None
    return None


def extract_model(text, timeout_ms=20000, nidx=6):
    """solve `text` again with models on; returns {name: value} for scalars and {name: {index: value}} for arrays"""
    z3 = solver.z3mod()
    s = z3.Solver()
    s.set('timeout', timeout_ms)
    s.from_string(text)
    if str(s.check()) != 'sat':
        return None
    m = s.model()
    out = {}
    decls = re.findall(r'\(declare-fun (\S+) \(\) (.+)\)\s*$', text, re.M)
    for name, sort in decls:
        sort = sort.strip()
        try:
            if sort in ('Real', 'Int', 'Bool'):
                c = {'Real': z3.Real, 'Int': z3.Int, 'Bool': z3.Bool}[sort](name)
                out[name] = _num(z3, m.eval(c, model_completion=True))
            elif sort == '(Array Int Real)' or sort == '(Array Int Int)':
                a = z3.Array(name, z3.IntSort(), z3.RealSort() if sort.endswith('Real)') else z3.IntSort())
                out[name] = {i: _num(z3, m.eval(z3.Select(a, i), model_completion=True)) for i in range(nidx)}
            elif sort == '(Array Int (Array Int Real))':
                a = z3.Array(name, z3.IntSort(), z3.ArraySort(z3.IntSort(), z3.RealSort()))
                out[name] = {i: {j: _num(z3, m.eval(z3.Select(z3.Select(a, i), j), model_completion=True))
                                 for j in range(nidx)} for i in range(nidx)}
        except Exception:
            continue
    return out


def jsonable(x):
    if isinstance(x, Fraction):
        return float(x) if x.denominator != 1 else int(x)
    if isinstance(x, dict):
        return {str(k): jsonable(v) for k, v in x.items()}
    if isinstance(x, (list, tuple)):
        return [jsonable(v) for v in x]
    return x


# ---------------------------------------------------------------------------------------------- scratch build

_scratch = [None]


def tree_sha():
    h = hashlib.sha1()
    root = repo_root()
    for rel in ('bioscrape', 'lineage'):
        d = os.path.join(root, rel)
        for fn in sorted(os.listdir(d)):
            if fn.endswith(('.pyx', '.pxd', '.py')):
                with open(os.path.join(d, fn), 'rb') as fh:
                    h.update(fn.encode())
                    h.update(fh.read())
    return h.hexdigest()[:16]


def scratch_build(log=None):
    """build the current tree in a temp dir (outside /repo and /verif); returns its path or None"""
    if _scratch[0] is not None:
        return _scratch[0]
    base = os.path.join(os.environ.get('TMPDIR', '/tmp'), 'bsverif-build')
    os.makedirs(base, exist_ok=True)
    d = os.path.join(base, tree_sha())
    marker = os.path.join(d, '.built')
    if not os.path.exists(marker):
        # one slot: remove older builds
        for other in os.listdir(base):
            if other != os.path.basename(d):
                shutil.rmtree(os.path.join(base, other), ignore_errors=True)
        shutil.rmtree(d, ignore_errors=True)
        os.makedirs(d)
        root = repo_root()
        subprocess.run(['rsync', '-a', '--exclude', '.git', '--exclude', '*.so', '--exclude', '*.cpp', '--exclude', 'examples',
                        '--exclude', 'build', '--exclude', '*.egg-info', '--exclude', 'inference examples',
                        '--exclude', 'lineage examples', '--exclude', 'tests', root + '/', d + '/'], check=True)
        env = dict(os.environ)
        env.pop('BIOSCRAPE_VERIF', None)
        p = subprocess.run([PY, 'setup.py', 'build_ext', '--inplace', '-j', '8'], cwd=d, env=env, stdout=subprocess.PIPE,
                           stderr=subprocess.STDOUT)
        if p.returncode != 0:
            if log is not None:
                log.append(p.stdout.decode(errors='replace')[-3000:])
            return None
        open(marker, 'w').close()
    _scratch[0] = d
    return d


def cleanup_scratch():
    base = os.path.join(os.environ.get('TMPDIR', '/tmp'), 'bsverif-build')
    shutil.rmtree(base, ignore_errors=True)
    _scratch[0] = None


def run_native(code, timeout=120):
    """run python `code` against the scratch build; the code prints one JSON object on its last line.
    returns dict(ok, result | error, signal)"""
    d = scratch_build()
    if d is None:
        return dict(ok=False, error='scratch build failed')
    env = dict(os.environ)
    env['PYTHONPATH'] = d
    env['BIOSCRAPE_VERIF'] = '1'
    env['PYTHONWARNINGS'] = 'ignore'
    with tempfile.NamedTemporaryFile('w', suffix='.py', delete=False, dir=os.environ.get('TMPDIR', '/tmp')) as fh:
        fh.write(code)
        path = fh.name
    try:
        try:
            p = subprocess.run([PY, path], env=env, cwd=d, stdout=subprocess.PIPE, stderr=subprocess.PIPE, timeout=timeout)
        except subprocess.TimeoutExpired:
            return dict(ok=True, result=dict(reproduced=True, observed='timeout after %ss (hang)' % timeout, expected='termination'))
        if p.returncode < 0:
            return dict(ok=True, signal=-p.returncode,
                        result=dict(reproduced=True, observed='process killed by signal %d' % (-p.returncode), expected='no crash'))
        out = p.stdout.decode(errors='replace').strip().split('\n')
        try:
            return dict(ok=True, result=json.loads(out[-1]))
        except Exception:
            return dict(ok=False, error='no JSON from native run: rc=%s stdout=%r stderr=%r'
                                        % (p.returncode, out[-3:], p.stderr.decode(errors='replace')[-1500:]))
    finally:
        os.unlink(path)


# ---------------------------------------------------------------------------------------------- refuted obligations

def handle_refuted(pid, pm, refuted, seed, lock):
    lines = []
    outdir = os.path.join(ROOT, 'out', 'replay')
    os.makedirs(outdir, exist_ok=True)
    for old in os.listdir(outdir):
        if old.startswith(pid + '-'):
            os.unlink(os.path.join(outdir, old))
    hooks = getattr(pm, 'REPLAY', {})
    sweeps = getattr(pm, 'NATIVE_SWEEPS', {})
    done_fucs = {}
    for n, rec in enumerate(refuted):
        key = '%s|%s|%s' % (rec['fuc'], rec['kind'], rec['label'])
        model = None
        if rec.get('text'):
            try:
                model = extract_model(rec['text'])
            except Exception as e:
                model = None
        native = None
        hook = hooks.get(rec['fuc']) or hooks.get(rec['fuc'].split('@')[0])
        if os.environ.get('BSVC_NO_NATIVE'):       # engine self-test: obligations only, no scratch build
            hook = None
            sweeps = {}
        if hook is not None:
            try:
                code = hook(model or {}, rec, seed)
                if code:
                    native = run_native(code)
            except Exception as e:
                native = dict(ok=False, error='replay hook failed: %s' % e)
        reproduced = bool(native and native.get('ok') and native['result'].get('reproduced'))
        if not reproduced:
            sw = sweeps.get(rec['fuc']) or sweeps.get(rec['fuc'].split('@')[0]) or sweeps.get('*')
            if sw is not None:
                if rec['fuc'] not in done_fucs:
                    try:
                        code = sw(seed, rec)
                        ck = hashlib.sha1(code.encode()).hexdigest()      # the same sweep text is run once, whatever FUC asked for it
                        if ck not in done_fucs:
                            done_fucs[ck] = run_native(code)
                        done_fucs[rec['fuc']] = done_fucs[ck]
                    except Exception as e:
                        done_fucs[rec['fuc']] = dict(ok=False, error='sweep failed: %s' % e)
                s = done_fucs[rec['fuc']]
                if s.get('ok') and s['result'].get('reproduced'):
                    native = s
                    reproduced = True
                elif native is None:
                    native = dict(sweep=s)
        fn = os.path.join(outdir, '%s-%02d-%s.json' % (pid, n, re.sub(r'[^A-Za-z0-9_.-]+', '_', key)[:120]))
        with open(fn, 'w') as fh:
            json.dump(dict(property=pid, obligation=key, function=rec['fuc'], line=rec['line'], contract_clause=rec['note'],
                           path=rec.get('path'), solver=rec['backend'], solver_answer=rec['status'], solver_tried=rec.get('tried'),
                           was_discharged_on_reference_tree=key in set(lock.get('discharged', [])) if lock else None,
                           model=jsonable(model), native=native, tree_sha=tree_sha(), repo=repo_root(),
                           smtlib=rec.get('text')), fh, indent=1, default=str)
        if reproduced:
            lines.append('VIOLATION property=%s replay=%s obligation=%s' % (pid, fn, key))
        else:
            lines.append('VIOLATION property=%s replay=%s obligation=%s no-failing-input-found' % (pid, fn, key))
    if os.environ.get('BSVC_KEEP_SCRATCH') != '1':
        cleanup_scratch()
    return lines


def replay_file(pid, path):
    with open(path) as fh:
        d = json.load(fh)
    nat = d.get('native')
    print(json.dumps(dict(obligation=d.get('obligation'), native=nat), indent=1)[:4000])
    return 1 if nat and nat.get('ok') and nat['result'].get('reproduced') else 0
