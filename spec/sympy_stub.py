"""Record model of the sympy expression trees that bioscrape's translator (types.pyx::sympy_recursion) consumes.

Assumed contract on the dependency (DESIGN 4.4): sympify(s, _clash1) returns a tree over {Add, Mul, Pow, exp, log, Heaviside,
Abs, Max, Min, Symbol, numbers}; a node exposes .func, .args, str(node) (the symbol name) and .evalf() (a float for numbers,
a non-number otherwise).  The value of a tree, sem(node), is the mathematical meaning of the written formula.
"""
from bsvc import extensions, speclib, terms as tm
from bsvc.terms import REAL, INT
from bsvc.values import Builtin, RaiseSig, ExcVal, Unsupported, StubMethod, Stub, to_term


class SymNode(object):
    def __init__(self, kind, args=(), name=None, value=None, ref=None):
        self.kind = kind
        self.args = tuple(args)
        self.name = name
        self.value = value
        self.ref = ref

    def __deepcopy__(self, memo):
        return self

    def __repr__(self):
        return 'SymNode(%s%s)' % (self.kind, (':' + str(self.name)) if self.name else '')


def _attr(ex, o, attr, line):
    if attr == 'func':
        return Builtin('sympy.' + o.kind)
    if attr == 'args':
        return tuple(o.args)
    if attr == 'name' and o.kind == 'Symbol':
        return o.name
    if attr == 'evalf':
        def evalf(ex_):
            if o.kind == 'Number':
                return o.value
            return Stub('sympy-expression')       # float(...) of it raises TypeError
        return StubMethod(Stub('node', methods={'evalf': evalf}), 'evalf')
    raise Unsupported('sympy node attribute %s' % attr)


def arith(ex, op, a, b, line):
    """a <op> b on sympy expressions (assumed contract on the dependency: the resulting node means the written operation)"""
    def node(x):
        if isinstance(x, SymNode):
            return x
        if isinstance(x, (int, float)) or hasattr(x, 'sort'):
            return SymNode('Number', value=x)
        raise Unsupported('sympy arithmetic with a %s operand (line %s)' % (type(x).__name__, line))
    a, b = node(a), node(b)
    if op == '+':
        return SymNode('Add', [a, b])
    if op == '-':
        return SymNode('Add', [a, SymNode('Mul', [SymNode('Number', value=-1), b])])
    if op == '*':
        return SymNode('Mul', [a, b])
    if op == '/':
        return SymNode('Mul', [a, SymNode('Pow', [b, SymNode('Number', value=-1)])])
    if op == '**':
        return SymNode('Pow', [a, b])
    raise Unsupported('sympy operator %s (line %s)' % (op, line))


def install(ex):
    ex.ext_attr_handlers['SymNode'] = _attr
    old_type = ex.ext_builtins.get('type')

    def type_(ex_, args, kwargs, line):
        a0 = args[0]
        if isinstance(a0, SymNode):
            if a0.kind == 'Opaque':
                # the structural induction treats children as opaque subtrees: code that inspects the KIND of a child is outside what the
                # one-level shapes decide (the two-level shapes of contracts/types_terms.py decide it)
                raise Unsupported('type() of an opaque sympy subtree (line %s)' % line)
            return Builtin('sympy.' + a0.kind)
        from bsvc.values import Obj, ClassRef
        if isinstance(a0, Obj):
            return ClassRef(a0.cls)
        if isinstance(a0, (list, dict, tuple, str, set)):
            return Builtin(type(a0).__name__)
        if type(a0).__name__ == 'DataFrameVal':
            return Builtin('pandas.DataFrame')
        return Builtin('type:' + type(a0).__name__)
    ex.ext_builtins['type'] = type_

    def str_(ex_, args, kwargs, line):
        a0 = args[0] if args else ''
        if isinstance(a0, SymNode):
            if a0.kind == 'Symbol':
                return a0.name
            return '<sympy %s>' % a0.kind
        return ex_.to_str(a0)
    ex.ext_builtins['str'] = str_

    def float_(ex_, args, kwargs, line):
        a0 = args[0] if args else 0
        if isinstance(a0, Stub):
            ex_.raise_exc('TypeError', 'cannot convert expression to float', line)
        from bsvc import builtins_ as bi
        return bi.fn_float(ex_, a0, line)
    ex.ext_builtins['float'] = float_


    def sympify(ex_, args, kwargs, line):
        from spec import sbml_formula as sf
        from bsvc import strings
        text = args[0]
        text = strings.simplify(text) if isinstance(text, strings.SStr) else text
        if isinstance(text, SymNode):
            return text
        if not isinstance(text, str):
            raise Unsupported('sympify of non-literal text %r' % (text,))
        try:
            return from_formula(sf.parse(text, 'python'))
        except (sf.ParseError, KeyError) as e:
            ex_.raise_exc('SympifyError', 'could not parse %r' % text, line)
    ex.ext_builtins['sympy.sympify'] = sympify


FUNCS = {'exp': 'exp', 'log': 'log', 'ln': 'log', 'Abs': 'Abs', 'abs': 'Abs', 'Heaviside': 'Heaviside', 'Max': 'Max', 'Min': 'Min'}


def from_formula(n):
    """sympy's tree for a parsed formula: a-b is Add(a, Mul(-1, b)), a/b is Mul(a, Pow(b, -1)), -a is Mul(-1, a); Add and Mul
    are n-ary (flattened).  Meaning-preserving rewriting done by sympify beyond this is part of the assumed contract."""
    from spec import sbml_formula as sf
    k = n.kind
    if k == 'num':
        return SymNode('Number', value=tm.mk_real(sf.number(n.value)))
    if k == 'name':
        return SymNode('Symbol', name=n.value)
    if k == 'call':
        if n.value not in FUNCS:
            raise KeyError(n.value)
        return SymNode(FUNCS[n.value], [from_formula(a) for a in n.args])
    if k == 'neg':
        return nary('Mul', [SymNode('Number', value=tm.mk_real(-1)), from_formula(n.args[0])])
    a, b = (from_formula(x) for x in n.args)
    if k == '+':
        return nary('Add', [a, b])
    if k == '-':
        return nary('Add', [a, nary('Mul', [SymNode('Number', value=tm.mk_real(-1)), b])])
    if k == '*':
        return nary('Mul', [a, b])
    if k == '/':
        return nary('Mul', [a, SymNode('Pow', [b, SymNode('Number', value=tm.mk_real(-1))])])
    if k == '^':
        return SymNode('Pow', [a, b])
    raise KeyError(k)


def nary(kind, args):
    flat = []
    for a in args:
        if a.kind == kind:
            flat.extend(a.args)
        else:
            flat.append(a)
    return SymNode(kind, flat)


extensions.INSTALLERS.append(install)


# evaluation point (arbitrary but fixed): free constants shared by assumption and goal
def point():
    from bsvc.values import Arr
    sp = Arr(tm.var('SP', tm.ArraySort(INT, REAL)), [tm.var('SP_len', INT)], REAL, 'ptr', 'SP')
    pa = Arr(tm.var('PA', tm.ArraySort(INT, REAL)), [tm.var('PA_len', INT)], REAL, 'ptr', 'PA')
    return sp, pa, tm.var('T0', REAL), tm.var('V0', REAL)


def sem(ex, node, with_volume, env):
    """mathematical meaning of a stub tree at the evaluation point; env: dict(species2index, params2index)"""
    sp, pa, t0, v0 = point()
    k = node.kind
    if k == 'Opaque':
        return tm.app('semv' if with_volume else 'sem', (node.ref,), REAL)
    if k == 'Number':
        return tm.to_real(to_term(node.value))
    if k == 'Symbol':
        name = node.name[1:] if node.name.startswith('_') else node.name
        if name in env['species2index']:
            return tm.select(sp.term, to_term(env['species2index'][name]))
        if name in env['params2index']:
            return tm.select(pa.term, to_term(env['params2index'][name]))
        if name == 'volume':
            return v0 if with_volume else tm.mk_real(1)
        if name == 't':
            return t0
        raise KeyError(name)
    vals = [sem(ex, a, with_volume, env) for a in node.args]
    if k == 'Add':
        r = vals[0]
        for v in vals[1:]:
            r = tm.add(r, v)
        return r
    if k == 'Mul':
        r = vals[0]
        for v in vals[1:]:
            r = tm.mul(r, v)
        return r
    if k == 'Pow':
        return tm.app('rpow', (vals[0], vals[1]), REAL)
    if k == 'exp':
        return tm.app('exp', (vals[0],), REAL)
    if k == 'log':
        return tm.app('ln', (vals[0],), REAL)
    if k == 'Abs':
        return tm.ite(tm.ge(vals[0], tm.mk_real(0)), vals[0], tm.neg(vals[0]))
    if k == 'Heaviside':
        return tm.ite(tm.gt(vals[0], tm.mk_real(0)), tm.mk_real(1), tm.mk_real(0))
    if k == 'Max':
        r = vals[0]
        for v in vals[1:]:
            r = tm.ite(tm.gt(v, r), v, r)
        return r
    if k == 'Min':
        r = vals[0]
        for v in vals[1:]:
            r = tm.ite(tm.lt(v, r), v, r)
        return r
    raise KeyError(k)
