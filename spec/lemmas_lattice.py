"""Lemmas over the step relations (C06, C10): lattice membership, conservation laws, non-negativity of mass-action counts.

lin(c, N, s, n) = sum_{r<n} c[r]*N[s][r].  A firing of reaction j maps x to x + N[:, j] and the ghost count vector c to c + e_j."""
from bsvc.lemmas import lemma
from contracts import simulator_delay as _sd      # registers `lin`

A1 = ('Array', 'Int', 'Real')
A2 = ('Array', 'Int', ('Array', 'Int', 'Real'))
P = ['C06', 'C10']

# lin-update: raising c[j] by one raises lin(c, N, s, m) by N[s][j] once the prefix passes j  (induction on the prefix length)
lemma('lin-update/base', P, vars={'c': A1, 'c2': A1, 'N': A2, 's': 'Int'}, hyps=[], goal='lin(c2, N, s, 0) == lin(c, N, s, 0)')
lemma('lin-update/below', P, vars={'c': A1, 'c2': A1, 'N': A2, 's': 'Int', 'j': 'Int', 'm': 'Int'},
      hyps=['forall(lambda r: c2[r] == c[r] + ite(r == j, 1.0, 0.0))', '0 <= m and m < j', 'lin(c2, N, s, m) == lin(c, N, s, m)'],
      goal='lin(c2, N, s, m + 1) == lin(c, N, s, m + 1)')
lemma('lin-update/at', P, vars={'c': A1, 'c2': A1, 'N': A2, 's': 'Int', 'j': 'Int'},
      hyps=['forall(lambda r: c2[r] == c[r] + ite(r == j, 1.0, 0.0))', '0 <= j', 'lin(c2, N, s, j) == lin(c, N, s, j)'],
      goal='lin(c2, N, s, j + 1) == lin(c, N, s, j + 1) + N[s][j]')
lemma('lin-update/above', P, vars={'c': A1, 'c2': A1, 'N': A2, 's': 'Int', 'j': 'Int', 'm': 'Int'},
      hyps=['forall(lambda r: c2[r] == c[r] + ite(r == j, 1.0, 0.0))', '0 <= j and j < m', 'lin(c2, N, s, m) == lin(c, N, s, m) + N[s][j]'],
      goal='lin(c2, N, s, m + 1) == lin(c, N, s, m + 1) + N[s][j]')
lemma('lattice-step', P, vars={'x': A1, 'x2': A1, 'x0': A1, 'c': A1, 'c2': A1, 'N': A2, 's': 'Int', 'j': 'Int', 'R': 'Int'},
      hyps=['x[s] == x0[s] + lin(c, N, s, R)', 'x2[s] == x[s] + N[s][j]', '0 <= j and j < R',
            'lin(c2, N, s, R) == lin(c, N, s, R) + N[s][j]'],
      goal='x2[s] == x0[s] + lin(c2, N, s, R)',
      note='I_lat is preserved by a firing (state-update-by-net-stoichiometry clause of the step relations) with c2 = c + e_j; '
           'non-firing steps leave x and c unchanged; hence every reported row is x0 + N c with c a non-negative integer vector, monotone along the run')
lemma('ff-positive-integer', P, vars={'x': 'Real', 'm': 'Int', 'xi': 'Int'},
      hyps=['x == real(xi)', 'm >= 1', 'ff(x, m) > 0'], goal='x - m >= 0',
      note='mass action: a selected reaction has positive propensity (pick-positive-weight), so each reactant has at least its multiplicity '
           'copies; a reaction that removes at most its multiplicity leaves the count non-negative')
# conservation: w.N[:, j] = 0  =>  w.x is unchanged by a firing  (dot(w, x, n) = sum_{s<n} w[s]*x[s], induction on n)
lemma('conservation/step', P, vars={'w': A1, 'x': A1, 'x2': A1, 'col': A1, 'n': 'Int', 'a': 'Real', 'b': 'Real', 'cc': 'Real'},
      hyps=['n >= 0', 'forall(lambda s: x2[s] == x[s] + col[s])', 'a == b + cc',
            'w[n] * x2[n] == w[n] * x[n] + w[n] * col[n]'],
      goal='a + w[n] * x2[n] == (b + w[n] * x[n]) + (cc + w[n] * col[n])',
      note='induction step of dot(w, x2, n+1) == dot(w, x, n+1) + dot(w, col, n+1); with dot(w, col, S) == 0 the weighted sum is conserved')
