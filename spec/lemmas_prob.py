"""Probability-side lemmas (pure SMT) that turn the deterministic step contracts over the explicit random stream into the
per-step laws of the statement (C05, C10, C11).  What is cited rather than proved: Lebesgue measure of an interval under the
uniform law, i.i.d.-uniformity of the generator, Gillespie's theorem."""
from bsvc.lemmas import lemma

A = ('Array', 'Int', 'Real')
P = ['C05', 'C10', 'C11']

lemma('exp-preimage', P, vars={'u': 'Real', 'L': 'Real', 's': 'Real'},
      hyps=['L > 0 and 0 < u and u <= 1 and s >= 0'],
      goal='(-ln(u) / L > s) == (u < exp_(-L * s))',
      note='the waiting time -ln(U)/Lambda exceeds s exactly on the set U < e^(-Lambda s), of measure e^(-Lambda s): Exponential(Lambda)')
lemma('memoryless', P, vars={'L': 'Real', 'a': 'Real', 'b': 'Real', 'z': 'Real'},
      hyps=['L > 0 and a >= 0 and b >= 0',
            'z == ln(exp_(-L * a) * exp_(-L * b))'],      # names the term the ln-of-a-product schema matches
      goal='exp_(-L * (a + b)) == exp_(-L * a) * exp_(-L * b)',
      note='restarting the clock at a grid point does not change the law of the next event time')
lemma('pick-interval-length', P, vars={'a': A, 'L': 'Real', 'j': 'Int'},
      hyps=['L > 0', 'j >= 0'],
      goal='sum_(a, j + 1) / L - sum_(a, j) / L == a[j] / L',
      note='sample_discrete returns j exactly for U in (c_j/Lambda, c_(j+1)/Lambda], an interval of length a_j/Lambda')
lemma('pick-interval-preimage', P, vars={'a': A, 'L': 'Real', 'j': 'Int', 'u': 'Real'},
      hyps=['L > 0', 'j >= 0'],
      goal='(sum_(a, j) < u * L and u * L <= sum_(a, j + 1)) == (sum_(a, j) / L < u and u <= sum_(a, j + 1) / L)')
lemma('pick-positive-weight', P, vars={'a': A, 'L': 'Real', 'j': 'Int', 'u': 'Real'},
      hyps=['j >= 0', 'sum_(a, j) < u * L and u * L <= sum_(a, j + 1)'],
      goal='a[j] > 0',
      note='a reaction with zero propensity is never selected')
