"""Shared spec functions (DESIGN 4.1): integer powers, clamped falling factorial, prefix products, integer sums.

Each is an uninterpreted SMT function whose defining equations are instantiated by bsvc.axioms at the application
terms that occur in a VC (quantifier-free VCs)."""
from bsvc import axioms, speclib, terms as tm
from bsvc.terms import REAL, INT
from bsvc.values import to_term, Arr

R0, R1, I0, I1 = tm.mk_real(0), tm.mk_real(1), tm.mk_int(0), tm.mk_int(1)


def _t(x):
    return x.term if isinstance(x, Arr) else to_term(x)


def _rmax0(x):
    return tm.ite(tm.gt(x, R0), x, R0)


# ---- ipow(x, m) = x^m for integer m >= 0
def _ipow_ax(t, ctx):
    x, m = t.args[1], t.args[2]
    prev = tm.app('ipow', (x, tm.sub(m, I1)), REAL)
    out = [tm.implies(tm.le(m, I0), tm.eq(t, R1)),
           tm.implies(tm.gt(m, I0), tm.eq(t, tm.mul(x, prev))),
           tm.implies(tm.and_(tm.ge(x, R0), tm.ge(m, I0)), tm.ge(t, R0)),
           tm.implies(tm.and_(tm.gt(x, R0), tm.ge(m, I0)), tm.gt(t, R0))]
    return out


axioms.register('ipow', _ipow_ax, 'ipow(x,0)=1; ipow(x,m)=x*ipow(x,m-1) (m>0); sign for x>=0')


@speclib.spec('ipow')
def ipow(ex, x, m):
    m = to_term(m)
    x = tm.to_real(to_term(x))
    if m.is_const() and 0 <= m.value() <= 6:
        r = R1
        for _ in range(m.value()):
            r = tm.mul(r, x)
        return r
    return tm.app('ipow', (x, m), REAL)


# ---- ff(x, m) = prod_{j<m} max(x-j, 0)   (clamped falling factorial)
def _ff_ax(t, ctx):
    x, m = t.args[1], t.args[2]
    prev = tm.app('ff', (x, tm.sub(m, I1)), REAL)
    fac = _rmax0(tm.sub(x, tm.to_real(tm.sub(m, I1))))
    return [tm.implies(tm.le(m, I0), tm.eq(t, R1)),
            tm.implies(tm.gt(m, I0), tm.eq(t, tm.mul(prev, fac))),
            tm.ge(t, R0),
            # ff-pos: ff(x,m)>0 => x > m-1
            tm.implies(tm.and_(tm.gt(m, I0), tm.gt(t, R0)), tm.gt(x, tm.to_real(tm.sub(m, I1))))]


axioms.register('ff', _ff_ax, 'ff(x,0)=1; ff(x,m)=ff(x,m-1)*max(x-(m-1),0); ff>=0; ff(x,m)>0 => x>m-1')


@speclib.spec('ff')
def ff(ex, x, m):
    m = to_term(m)
    x = tm.to_real(to_term(x))
    if m.is_const() and 0 <= m.value() <= 6:
        r = R1
        for j in range(m.value()):
            r = tm.mul(r, _rmax0(tm.sub(x, tm.mk_real(j))))
        return r
    return tm.app('ff', (x, m), REAL)


# ---- prodpow(st, inds, cnts, n) = prod_{i<n} ipow(st[inds[i]], cnts[i]);  prodff likewise with ff
def _prod_ax(kind):
    inner = 'ipow' if kind == 'prodpow' else 'ff'

    def ax(t, ctx):
        st, inds, cnts, n = t.args[1:5]
        prev = tm.app(kind, (st, inds, cnts, tm.sub(n, I1)), REAL)
        last = tm.app(inner, (tm.select(st, tm.select(inds, tm.sub(n, I1))), tm.select(cnts, tm.sub(n, I1))), REAL)
        return [tm.implies(tm.le(n, I0), tm.eq(t, R1)),
                tm.implies(tm.gt(n, I0), tm.eq(t, tm.mul(prev, last)))]
    return ax


axioms.register('prodpow', _prod_ax('prodpow'), 'prodpow(st,inds,cnts,0)=1; prodpow(..,n)=prodpow(..,n-1)*ipow(st[inds[n-1]],cnts[n-1])')
axioms.register('prodff', _prod_ax('prodff'), 'prodff(st,inds,cnts,0)=1; prodff(..,n)=prodff(..,n-1)*ff(st[inds[n-1]],cnts[n-1])')


@speclib.spec('prodpow')
def prodpow(ex, st, inds, cnts, n):
    return tm.app('prodpow', (_t(st), _t(inds), _t(cnts), to_term(n)), REAL)


@speclib.spec('prodff')
def prodff(ex, st, inds, cnts, n):
    return tm.app('prodff', (_t(st), _t(inds), _t(cnts), to_term(n)), REAL)


# ---- isum(a, n) = a[0]+...+a[n-1] over an integer array
def _isum_ax(t, ctx):
    a, n = t.args[1], t.args[2]
    prev = tm.app('isum', (a, tm.sub(n, I1)), INT)
    return [tm.implies(tm.le(n, I0), tm.eq(t, I0)),
            tm.implies(tm.gt(n, I0), tm.eq(t, tm.add(prev, tm.select(a, tm.sub(n, I1)))))]


axioms.register('isum', _isum_ax, 'isum(a,0)=0; isum(a,n)=isum(a,n-1)+a[n-1]')


@speclib.spec('isum')
def isum(ex, a, n):
    return tm.app('isum', (_t(a), to_term(n)), INT)


@speclib.spec('max0')
def max0(ex, x):
    return _rmax0(tm.to_real(to_term(x)))
