"""SBML infix formulas (libsbml parseL3Formula / formulaToL3String) and Python-syntax formulas (sympy.sympify): parser,
printer and mathematical meaning.  This module is the ORACLE side: it is written from the SBML Level-3 infix grammar, not
from bioscrape.

Assumed contract on libsbml (listed in evidence as trusted): parseL3Formula(text) yields the tree of the L3 infix grammar
(precedence: function call / grouping > ^ (right-associative in the installed parser) > unary minus > * / > + -), or None
when the text is not in the grammar (e.g. contains '**'); formulaToL3String(tree) prints a text that parses back to the same
tree (power-of-power is excluded from the shape classes: the installed printer drops the parentheses of (a^b)^c).
"""
import re
from fractions import Fraction

from bsvc import terms as tm
from bsvc.terms import REAL

TOKEN = re.compile(r'\s*(?:(\d+\.\d*(?:[eE][-+]?\d+)?|\.\d+(?:[eE][-+]?\d+)?|\d+(?:[eE][-+]?\d+)?)|([A-Za-z_][A-Za-z_0-9]*)|(\*\*|[-+*/^(),]))')


class FNode(object):
    """formula tree: kind in num/name/+/-/*///^/neg/call"""

    def __init__(self, kind, args=(), value=None):
        self.kind = kind
        self.args = tuple(args)
        self.value = value

    def __deepcopy__(self, memo):
        return self

    def __repr__(self):
        return 'F(%s)' % to_text(self)

    def __eq__(self, o):
        return isinstance(o, FNode) and (self.kind, self.args, self.value) == (o.kind, o.args, o.value)

    def __hash__(self):
        return hash((self.kind, self.args, self.value))


class ParseError(Exception):
    pass


def tokenize(text):
    out = []
    pos = 0
    text = text.rstrip()
    while pos < len(text):
        m = TOKEN.match(text, pos)
        if not m:
            raise ParseError('bad character at %d in %r' % (pos, text))
        if m.group(1) is not None:
            out.append(('num', m.group(1)))
        elif m.group(2) is not None:
            out.append(('name', m.group(2)))
        else:
            out.append(('op', m.group(3)))
        pos = m.end()
    return out


class Parser(object):
    """grammar switch: dialect 'sbml' ('^' power, '**' rejected) or 'python' ('**' power, '^' rejected)"""

    def __init__(self, text, dialect):
        self.toks = tokenize(text)
        self.i = 0
        self.dialect = dialect
        self.pow = '^' if dialect in ('sbml', 'sbml-l1') else '**'

    def peek(self):
        return self.toks[self.i] if self.i < len(self.toks) else (None, None)

    def take(self):
        t = self.peek()
        self.i += 1
        return t

    def parse(self):
        if not self.toks:
            raise ParseError('empty formula')
        e = self.additive()
        if self.i != len(self.toks):
            raise ParseError('trailing input %r' % (self.peek(),))
        return e

    def additive(self):
        e = self.multiplicative()
        while self.peek() in (('op', '+'), ('op', '-')):
            op = self.take()[1]
            r = self.multiplicative()
            e = FNode(op, (e, r))
        return e

    def multiplicative(self):
        nxt = self.power_l1 if self.dialect == 'sbml-l1' else self.unary
        e = nxt()
        while self.peek() in (('op', '*'), ('op', '/')):
            op = self.take()[1]
            r = nxt()
            e = FNode(op, (e, r))
        return e

    # legacy Level-1 infix grammar (libsbml SBML_parseFormula, used by setFormula): unary minus binds tighter than ^, and ^ is
    # left-associative
    def power_l1(self):
        e = self.unary_l1()
        while self.peek() == ('op', '^'):
            self.take()
            r = self.unary_l1()
            e = FNode('^', (e, r))
        return e

    def unary_l1(self):
        if self.peek() == ('op', '-'):
            self.take()
            return FNode('neg', (self.unary_l1(),))
        if self.peek() == ('op', '+'):
            self.take()
            return self.unary_l1()
        return self.atom()

    def unary(self):
        if self.peek() == ('op', '-'):
            self.take()
            return FNode('neg', (self.unary(),))
        if self.peek() == ('op', '+'):
            self.take()
            return self.unary()
        return self.power()

    def power(self):
        b = self.atom()
        if self.peek() == ('op', self.pow) or (self.dialect == 'python' and self.peek() == ('op', '^')):      # sympify converts ^ to ** (convert_xor)
            self.take()
            # right-associative; the exponent may carry its own unary minus (a^-1)
            if self.peek() == ('op', '-'):
                self.take()
                e = FNode('neg', (self.unary_in_exponent(),))
            else:
                e = self.unary_in_exponent()
            return FNode('^', (b, e))
        if self.peek()[0] == 'op' and self.peek()[1] in ('^', '**'):
            raise ParseError('operator %s is not in the %s grammar' % (self.peek()[1], self.dialect))
        return b

    def unary_in_exponent(self):
        return self.power()

    def atom(self):
        k, v = self.take()
        if k == 'num':
            return FNode('num', value=v)
        if k == 'name':
            if self.peek() == ('op', '('):
                self.take()
                args = []
                if self.peek() != ('op', ')'):
                    args.append(self.additive())
                    while self.peek() == ('op', ','):
                        self.take()
                        args.append(self.additive())
                if self.take() != ('op', ')'):
                    raise ParseError('expected )')
                return FNode('call', args, value=v)
            return FNode('name', value=v)
        if (k, v) == ('op', '('):
            e = self.additive()
            if self.take() != ('op', ')'):
                raise ParseError('expected )')
            return e
        raise ParseError('unexpected token %r' % ((k, v),))


def parse(text, dialect='sbml'):
    return Parser(text, dialect).parse()


PREC = {'+': 4, '-': 4, '*': 5, '/': 5, 'neg': 6, '^': 7, 'num': 8, 'name': 8, 'call': 8}


def to_text(n, dialect='sbml'):
    """printer with the grouping of the grammar above (binary + - * / spaced, ^ tight)"""
    k = n.kind
    if k == 'num':
        return n.value
    if k == 'name':
        return n.value
    if k == 'call':
        return '%s(%s)' % (n.value, ', '.join(to_text(a, dialect) for a in n.args))

    def grp(c, need):
        s = to_text(c, dialect)
        return '(%s)' % s if need else s
    if k == 'neg':
        c = n.args[0]
        return '-' + grp(c, PREC[c.kind] < PREC['neg'])
    a, b = n.args
    if k == '^':
        op = '^' if dialect == 'sbml' else '**'
        return grp(a, PREC[a.kind] < PREC['^']) + op + grp(b, PREC[b.kind] < PREC['neg'] or b.kind == '^')      # as the installed libsbml prints: (a^b)^c comes out as a^b^c
    return '%s %s %s' % (grp(a, PREC[a.kind] < PREC[k]), k, grp(b, PREC[b.kind] <= PREC[k]))


def number(text):
    return Fraction(text) if 'e' not in text.lower() else Fraction(text.lower().replace('e', 'E'))


def names(n, out=None):
    out = [] if out is None else out
    if n.kind == 'name':
        if n.value not in out:
            out.append(n.value)
    for a in n.args:
        names(a, out)
    return out


def rename(n, old, new):
    if n.kind == 'name':
        return FNode('name', value=new) if n.value == old else n
    return FNode(n.kind, [rename(a, old, new) for a in n.args], n.value)


class Undefined(Exception):
    pass


def ipow(base, k):
    r = tm.mk_real(1)
    for _ in range(k):
        r = tm.mul(r, base)
    return r


def sem(n, env):
    """mathematical meaning over an environment {identifier: Real term}; Undefined if an identifier has no definition"""
    k = n.kind
    if k == 'num':
        return tm.mk_real(number(n.value))
    if k == 'name':
        if n.value not in env:
            raise Undefined(n.value)
        return env[n.value]
    vals = [sem(a, env) for a in n.args]
    if k == '+':
        return tm.add(vals[0], vals[1])
    if k == '-':
        return tm.sub(vals[0], vals[1])
    if k == '*':
        return tm.mul(vals[0], vals[1])
    if k == '/':
        return tm.rdiv(vals[0], vals[1])
    if k == 'neg':
        return tm.neg(vals[0])
    if k == '^':
        e = n.args[1]
        if e.kind == 'num' and re.fullmatch(r'\d+', e.value) and int(e.value) <= 6:
            return ipow(vals[0], int(e.value))
        return tm.app('rpow', (vals[0], vals[1]), REAL)
    if k == 'call':
        f = n.value
        if f == 'exp' and len(vals) == 1:
            return tm.app('exp', (vals[0],), REAL)
        if f in ('ln',) and len(vals) == 1:
            return tm.app('ln', (vals[0],), REAL)
        if f == 'abs' and len(vals) == 1:
            return tm.ite(tm.ge(vals[0], tm.mk_real(0)), vals[0], tm.neg(vals[0]))
        if f == 'pow' and len(vals) == 2:
            return tm.app('rpow', (vals[0], vals[1]), REAL)
        raise Undefined('function ' + f)
    raise Undefined(k)
