"""Assumed contracts on dependencies used by the entry points (DESIGN 4.4): pandas.DataFrame, scipy.integrate.odeint,
numpy.allclose.  Everything here is listed in evidence as trusted."""
from bsvc import extensions, terms as tm
from bsvc.terms import REAL, INT, BOOL
from bsvc.values import Arr, Unsupported, Obj, to_term


class DataFrameVal(object):
    """column-name -> column map with row order preserved"""

    def __init__(self, data, columns):
        self.data = data
        self.columns = list(columns) if columns is not None else None
        self.extra = {}            # columns added by df[name] = value
        self.order = list(self.columns) if self.columns is not None else []

    def __deepcopy__(self, memo):
        n = DataFrameVal(self.data, self.columns)
        n.extra = dict(self.extra)
        n.order = list(self.order)
        return n


class OdeMessage(object):
    """full_output['message'] of odeint: equal to 'Integration successful.' iff the symbolic flag holds"""

    def __init__(self, ok):
        self.ok = ok

    def __deepcopy__(self, memo):
        return self

    def bsvc_compare(self, ex, other):
        if other == 'Integration successful.':
            return self.ok
        return NotImplemented


def install(ex):
    def dataframe(ex_, args, kwargs, line):
        data = kwargs.get('data', args[0] if args else None)
        cols = kwargs.get('columns')
        if cols is not None and isinstance(data, Arr) and data.ndim == 2:
            n = data.shape[1]
            if isinstance(n, int) or (hasattr(n, 'is_const') and n.is_const()):
                if ex_.concrete_int(n) != len(cols):
                    ex_.raise_exc('ValueError', 'Shape of passed values does not match the columns', line)
            else:
                ex_.oblige('raises', tm.eq(to_term(n), tm.mk_int(len(cols))), label='pandas.DataFrame', line=line,
                           note='number of data columns equals the number of column labels (else pandas raises ValueError)')
        return DataFrameVal(data, cols)
    ex.ext_builtins['pandas.DataFrame'] = dataframe

    def df_setitem(ex_, df, key, v, line):
        ex_.note_write(('D', id(df)), 'DataFrame')
        df.extra[key] = v
        if key not in df.order:
            df.order.append(key)
    ex.ext_setitem_handlers['DataFrameVal'] = df_setitem

    def df_index(ex_, df, key, line):
        if key in df.extra:
            return df.extra[key]
        raise Unsupported('DataFrame column read %r' % (key,))
    ex.ext_index_handlers['DataFrameVal'] = df_index

    def df_attr(ex_, df, attr, line):
        from bsvc.values import StubMethod, Stub
        if attr == 'get':
            def get(ex__, key, default=None):
                if key in df.extra:
                    return df.extra[key]
                return default
            return StubMethod(Stub('df', methods={'get': get}), 'get')
        if attr == 'columns':
            return list(df.order)
        raise Unsupported('DataFrame attribute %s' % attr)
    ex.ext_attr_handlers['DataFrameVal'] = df_attr

    def allclose(ex_, args, kwargs, line):
        # abstract: whether the two operands are element-wise close is an arbitrary boolean here
        return ex_.fresh('np_allclose', BOOL)
    ex.ext_numpy['allclose'] = allclose

    def odeint(ex_, args, kwargs, line):
        rhs, x0, tp = args[0], args[1], args[2]
        calls = ex_.ghost.setdefault('odeint_calls', [])
        n = len(calls)
        ok = ex_.fresh('odeint_ok%d' % n, BOOL)
        if not isinstance(x0, Arr) or not isinstance(tp, Arr):
            raise Unsupported('odeint arguments')
        res = ex_.symbolic_array('odeint_y%d' % n, 2, REAL, 'ndarray')
        ex_.assume_fact(tm.eq(to_term(res.shape[0]), to_term(tp.shape[0])))
        ex_.assume_fact(tm.eq(to_term(res.shape[1]), to_term(x0.shape[0])))
        calls.append(dict(rhs=rhs, x0=x0, x0_term=x0.term, timepoints=tp, kwargs=dict(kwargs), ok=ok, result=res, result_term=res.term))
        if kwargs.get('full_output'):
            return (res, {'message': OdeMessage(ok)})
        return res
    ex.ext_builtins['scipy.integrate.odeint'] = odeint


extensions.INSTALLERS.append(install)
