"""Record model of the part of python-libsbml that bioscrape/sbmlutil.py and Model.generate_sbml_model use.

Assumed contract on the dependency (listed in evidence as trusted): an SBML document is a tree of elements with attributes;
setX(v) stores attribute X and returns LIBSBML_OPERATION_SUCCESS, getX() returns it (unset numbers read NaN, unset strings
''), isSetX() tells whether it was stored; createY() appends a new child to the parent's list of Ys; getListOfYs() is that
list in creation order; getListOfAllElements() of a document or element lists all descendants; getTypeCode() /
getElementName() identify the element class; setAnnotation(text) stores the text and getAnnotationString() returns it
inside <annotation>...</annotation>; math is handled as in spec/sbml_formula.py; writing a document to a file and reading
that file gives an equal document (the record is passed through as it is).
"""
import copy

from bsvc import extensions, terms as tm
from bsvc.terms import REAL, INT, BOOL
from bsvc.values import Builtin, Unsupported, StubMethod, Stub, Arr, Obj, to_term
NAN = float('nan')
from bsvc import strings
from spec import sbml_formula as sf

SUCCESS = Builtin('libsbml.LIBSBML_OPERATION_SUCCESS')

# child list name -> (create method suffix, element class)
CHILDREN = {
    'Document': {'Models': 'Model'},
    'Model': {'Species': 'Species', 'Parameters': 'Parameter', 'Reactions': 'Reaction', 'Rules': 'Rule',
              'Compartments': 'Compartment', 'UnitDefinitions': 'UnitDefinition', 'Events': 'Event',
              'FunctionDefinitions': 'FunctionDefinition', 'InitialAssignments': 'InitialAssignment'},
    'Reaction': {'Reactants': 'SpeciesReference', 'Products': 'SpeciesReference', 'Modifiers': 'ModifierSpeciesReference',
                 'KineticLaws': 'KineticLaw'},
    'KineticLaw': {'Parameters': 'LocalParameter', 'LocalParameters': 'LocalParameter'},
    'UnitDefinition': {'Units': 'Unit'},
}
CREATE = {'Model': ('Models', 'Model'), 'Species': ('Species', 'Species'), 'Parameter': ('Parameters', None),
          'LocalParameter': ('Parameters', 'LocalParameter'),
          'Reaction': ('Reactions', 'Reaction'), 'AssignmentRule': ('Rules', 'AssignmentRule'),
          'RateRule': ('Rules', 'RateRule'), 'AlgebraicRule': ('Rules', 'AlgebraicRule'),
          'Compartment': ('Compartments', 'Compartment'), 'UnitDefinition': ('UnitDefinitions', 'UnitDefinition'),
          'Unit': ('Units', 'Unit'), 'Reactant': ('Reactants', 'SpeciesReference'), 'Product': ('Products', 'SpeciesReference'),
          'Modifier': ('Modifiers', 'ModifierSpeciesReference'), 'KineticLaw': ('KineticLaws', 'KineticLaw'),
          'Event': ('Events', 'Event')}
NUMERIC = {'Value', 'InitialAmount', 'InitialConcentration', 'Stoichiometry', 'Volume', 'Size', 'Multiplier'}
TYPECODE = {'LocalParameter': 'SBML_LOCAL_PARAMETER', 'Parameter': 'SBML_PARAMETER', 'Species': 'SBML_SPECIES',
            'Reaction': 'SBML_REACTION', 'Compartment': 'SBML_COMPARTMENT', 'Model': 'SBML_MODEL',
            'SpeciesReference': 'SBML_SPECIES_REFERENCE', 'ModifierSpeciesReference': 'SBML_MODIFIER_SPECIES_REFERENCE',
            'KineticLaw': 'SBML_KINETIC_LAW', 'AssignmentRule': 'SBML_ASSIGNMENT_RULE', 'RateRule': 'SBML_RATE_RULE',
            'AlgebraicRule': 'SBML_ALGEBRAIC_RULE', 'UnitDefinition': 'SBML_UNIT_DEFINITION', 'Unit': 'SBML_UNIT',
            'Document': 'SBML_DOCUMENT', 'Event': 'SBML_EVENT'}
ELEMENT_NAME = {'AssignmentRule': 'assignmentRule', 'RateRule': 'rateRule', 'AlgebraicRule': 'algebraicRule',
                'Species': 'species', 'Parameter': 'parameter', 'LocalParameter': 'localParameter', 'Reaction': 'reaction'}


class SbmlNode(object):
    def __init__(self, kind, parent=None):
        self.kind = kind
        self.parent = parent
        self.attrs = {}
        self.lists = {}
        self.math = None
        self.annotation = None

    def doc(self):
        n = self
        while n.parent is not None:
            n = n.parent
        return n

    def descendants(self, out=None):
        out = [] if out is None else out
        for ln in self.lists:
            for c in self.lists[ln]:
                out.append(c)
                c.descendants(out)
        return out

    def child_list(self, name):
        return self.lists.setdefault(name, [])

    def __repr__(self):
        return '<Sbml %s %s>' % (self.kind, self.attrs.get('Id', ''))


class SbmlList(object):
    def __init__(self, items):
        self.items = list(items)

    def __deepcopy__(self, memo):
        return SbmlList([copy.deepcopy(i, memo) for i in self.items])


def method(fn, name='m'):
    return StubMethod(Stub('sbml', methods={name: fn}), name)


def text_of(ex, v):
    v = strings.simplify(v) if isinstance(v, strings.SStr) else v
    if not isinstance(v, str):
        raise Unsupported('libsbml record: non-literal text %r' % (v,))
    return v


def rename_refs(node, old, new):
    if node.math is not None:
        node.math = sf.rename(node.math, old, new)
    for k in ('Species', 'Variable'):
        if node.attrs.get(k) == old:
            node.attrs[k] = new


def node_attr(ex, o, attr, line):
    kind = o.kind
    if attr.startswith('create'):
        what = attr[len('create'):]
        if what not in CREATE:
            raise Unsupported('libsbml record: %s' % attr)
        lname, ckind = CREATE[what]
        if what == 'Parameter':
            ckind = 'LocalParameter' if kind == 'KineticLaw' else 'Parameter'

        def create(ex_):
            c = SbmlNode(ckind, o)
            o.child_list(lname).append(c)
            ex_.note_write(('X', id(o.doc())), 'sbml-document')
            return c
        return method(create)
    if attr.startswith('getListOf'):
        what = attr[len('getListOf'):]
        if what == 'AllElements':
            return method(lambda ex_: SbmlList(o.descendants()))
        if what == 'LocalParameters':
            what = 'Parameters'
        return method(lambda ex_: SbmlList(o.child_list(what)))
    if attr.startswith('getNum'):
        what = attr[len('getNum'):]
        if what == 'Errors':
            return method(lambda ex_: 0)
        return method(lambda ex_: len(o.child_list(what)))
    if attr == 'getSBMLDocument':
        return method(lambda ex_: o.doc())
    if attr == 'getModel':
        return method(lambda ex_: (o.child_list('Models') or [None])[0])
    if attr == 'getKineticLaw':
        return method(lambda ex_: (o.child_list('KineticLaws') or [None])[0])
    if attr == 'getTypeCode':
        return method(lambda ex_: Builtin('libsbml.' + TYPECODE[kind]))
    if attr == 'getElementName':
        return method(lambda ex_: ELEMENT_NAME.get(kind, kind[0].lower() + kind[1:]))
    if attr in ('getCompartment', 'getSpecies', 'getParameter', 'getReaction', 'getRule') and kind in ('Model', 'KineticLaw'):
        lname = {'getCompartment': 'Compartments', 'getSpecies': 'Species', 'getParameter': 'Parameters',
                 'getReaction': 'Reactions', 'getRule': 'Rules'}[attr]

        def get(ex_, key):
            items = o.child_list(lname)
            if isinstance(key, str):
                for c in items:
                    if c.attrs.get('Id') == key:
                        return c
                return None
            k = ex_.concrete_int(key)
            return items[k] if 0 <= k < len(items) else None
        return method(get)
    if attr == 'getElementBySId':
        def by_sid(ex_, key):
            for c in o.descendants():
                if c.attrs.get('Id') == key and c.kind != 'LocalParameter':
                    return c
            return None
        return method(by_sid)
    if attr == 'setMath':
        def set_math(ex_, ast):
            if ast is None:
                return Builtin('libsbml.LIBSBML_INVALID_OBJECT')
            o.math = ast
            ex_.note_write(('X', id(o.doc())), 'sbml-document')
            return SUCCESS
        return method(set_math)
    if attr == 'getMath':
        return method(lambda ex_: o.math)
    if attr == 'isSetMath':
        return method(lambda ex_: o.math is not None)
    if attr == 'setFormula':
        def set_formula(ex_, text):
            try:
                o.math = sf.parse(text_of(ex_, text), 'sbml-l1')      # setFormula uses the legacy Level-1 infix grammar
            except sf.ParseError:
                return Builtin('libsbml.LIBSBML_INVALID_OBJECT')
            return SUCCESS
        return method(set_formula)
    if attr == 'getFormula':
        return method(lambda ex_: sf.to_text(o.math) if o.math is not None else '')
    if attr == 'setAnnotation':
        def set_ann(ex_, text):
            o.annotation = text
            ex_.note_write(('X', id(o.doc())), 'sbml-document')
            return SUCCESS
        return method(set_ann)
    if attr == 'getAnnotationString':
        def get_ann(ex_):
            if o.annotation is None:
                return ''
            return strings.simplify(strings.SStr(['<annotation>\n', o.annotation, '\n</annotation>']))
        return method(get_ann)
    if attr == 'renameSIdRefs':
        def ren(ex_, old, new):
            rename_refs(o, old, new)
            return None
        return method(ren)
    if attr == 'getErrorLog':
        return method(lambda ex_: Stub('errorlog', methods={'toString': lambda ex__: ''}))
    if attr.startswith('isSet'):
        what = attr[len('isSet'):]
        return method(lambda ex_: what in o.attrs)
    if attr.startswith('set'):
        what = attr[len('set'):]

        def setter(ex_, v):
            if what in NUMERIC:
                if isinstance(v, (str, strings.SStr)):
                    ex_.raise_exc('TypeError', 'libsbml: in method set%s, argument of type double expected' % what, line)
                if isinstance(v, bool):
                    v = int(v)
            o.attrs[what] = v
            ex_.note_write(('X', id(o.doc())), 'sbml-document')
            return SUCCESS
        return method(setter)
    if attr.startswith('get'):
        what = attr[len('get'):]

        def getter(ex_):
            if what in o.attrs:
                return o.attrs[what]
            if what in NUMERIC:
                return NAN
            if what in ('Reversible', 'Constant', 'BoundaryCondition', 'HasOnlySubstanceUnits'):
                return False
            return ''
        return method(getter)
    raise Unsupported('libsbml record: attribute %s of %s (line %s)' % (attr, kind, line))


def list_attr(ex, o, attr, line):
    if attr == 'getSize' or attr == 'size':
        return method(lambda ex_: len(o.items))
    if attr == 'get':
        return method(lambda ex_, i: o.items[ex_.concrete_int(i)])
    raise Unsupported('libsbml list attribute %s' % attr)


def install(ex):
    ex.ext_attr_handlers['SbmlNode'] = node_attr
    ex.ext_attr_handlers['SbmlList'] = list_attr
    ex.ext_iter_handlers['SbmlList'] = lambda ex_, seq, line: list(seq.items)
    ex.ext_len_handlers['SbmlList'] = lambda ex_, seq, line: len(seq.items)
    ex.ext_index_handlers['SbmlList'] = lambda ex_, seq, i, line: seq.items[ex_.concrete_int(i)]

    def document(ex_, args, kwargs, line):
        d = SbmlNode('Document')
        d.attrs['Level'], d.attrs['Version'] = (args + [3, 2])[:2] if isinstance(args, list) else (3, 2)
        return d
    ex.ext_builtins['libsbml.SBMLDocument'] = document

    def parse_l3(ex_, args, kwargs, line):
        try:
            return sf.parse(text_of(ex_, args[0]), 'sbml')
        except sf.ParseError:
            return None
    ex.ext_builtins['libsbml.parseL3Formula'] = parse_l3

    def to_l3(ex_, args, kwargs, line):
        if args[0] is None:
            return ''
        return sf.to_text(args[0])
    ex.ext_builtins['libsbml.formulaToL3String'] = to_l3
    ex.ext_builtins['libsbml.formulaToString'] = to_l3

    def write_string(ex_, args, kwargs, line):
        return args[0]           # the 'file content' is the record itself
    ex.ext_builtins['libsbml.writeSBMLToString'] = write_string

    def reader(ex_, args, kwargs, line):
        def read(ex__, f):
            if not isinstance(f, SbmlNode):
                raise Unsupported('SBMLReader.readSBML of a non-record file')
            return f
        return Stub('SBMLReader', methods={'readSBML': read, 'readSBMLFromString': read, 'readSBMLFromFile': read})
    ex.ext_builtins['libsbml.SBMLReader'] = reader
    ex.ext_builtins['libsbml.IdentifierTransformer.__init__'] = lambda ex_, args, kwargs, line: None

    def randint(ex_, args, kwargs, line):
        n = ex_.ghost.setdefault('np_randint_calls', [])
        v = ex_.fresh('np_randint%d' % len(n), INT)
        n.append(v)
        ex_.assume_fact(tm.ge(v, tm.mk_int(0)))
        return v
    ex.ext_builtins['np.random.randint'] = randint
    ex.ext_builtins['numpy.random.randint'] = randint

    def fromkeys(ex_, args, kwargs, line):
        out = {}
        for k in args[0]:
            out[ex_.hashable(k)] = None
        return out
    ex.ext_builtins['collections.OrderedDict.fromkeys'] = fromkeys


extensions.INSTALLERS.append(install)


# ------------------------------------------------------------------------------------------------ helpers for contracts

def new_document():
    d = SbmlNode('Document')
    m = SbmlNode('Model', d)
    d.child_list('Models').append(m)
    return d, m


def add(parent, what, **attrs):
    lname, ckind = CREATE[what]
    if what == 'Parameter':
        ckind = 'LocalParameter' if parent.kind == 'KineticLaw' else 'Parameter'
    c = SbmlNode(ckind, parent)
    parent.child_list(lname).append(c)
    math = attrs.pop('math', None)
    ann = attrs.pop('annotation', None)
    c.attrs.update(attrs)
    if math is not None:
        c.math = sf.parse(math, 'sbml') if isinstance(math, str) else math
    c.annotation = ann
    return c
