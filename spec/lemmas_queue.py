"""History-level lemmas over the abstract view of the delay queue (C20, C10).

P is the pending row of one reaction: P[k] = pend(q, r, k), k = 0..n-1.  The operation contracts (contracts/
simulator_queue.py, each verified against the real method body) say:
  add(t, r, a):      P2[k] = P[k] + (a if k == slot else 0),  0 <= slot < n
  read-and-advance:  delivered += P[0];  P2[k] = P[k+1] (k < n-1);  P2[n-1] = 0;  t0' = t0 + dt
Accounting identity  added == delivered + sum(P, n)  is preserved by both; proved by induction on the prefix length
(lemma-base / lemma-step obligations; `sum` is unfolded by the engine at the indices that occur).
"""
from bsvc.lemmas import lemma

A = ('Array', 'Int', 'Real')
PROPS = ['C20', 'C10']

# ---- add: changing one summand changes the sum by the difference (sum-update)
lemma('sum-update/below', PROPS, vars={'P': A, 'P2': A, 'm': 'Int', 's': 'Int', 'a': 'Real'},
      hyps=['forall(lambda k: P2[k] == P[k] + ite(k == s, a, 0.0))', '0 <= m and m <= s',
            'm >= 1', 'sum_(P2, m - 1) == sum_(P, m - 1)'],
      goal='sum_(P2, m) == sum_(P, m)',
      note='induction step for prefixes that do not reach the updated slot (base m=0 is sum(.,0)=0 on both sides)')
lemma('sum-update/base', PROPS, vars={'P': A, 'P2': A},
      hyps=[], goal='sum_(P2, 0) == sum_(P, 0)')
lemma('sum-update/at', PROPS, vars={'P': A, 'P2': A, 's': 'Int', 'a': 'Real'},
      hyps=['forall(lambda k: P2[k] == P[k] + ite(k == s, a, 0.0))', '0 <= s', 'sum_(P2, s) == sum_(P, s)'],
      goal='sum_(P2, s + 1) == sum_(P, s + 1) + a')
lemma('sum-update/above', PROPS, vars={'P': A, 'P2': A, 'm': 'Int', 's': 'Int', 'a': 'Real'},
      hyps=['forall(lambda k: P2[k] == P[k] + ite(k == s, a, 0.0))', '0 <= s and s < m',
            'sum_(P2, m) == sum_(P, m) + a'],
      goal='sum_(P2, m + 1) == sum_(P, m + 1) + a',
      note='hence: an insertion of amount a into slot s < n raises the pending total sum(P, n) by exactly a')

# ---- read-and-advance: the total drops by exactly the delivered head
lemma('advance-accounting/base', PROPS, vars={'P': A, 'P2': A},
      hyps=[], goal='sum_(P2, 0) == sum_(P, 1) - P[0]')
lemma('advance-accounting/step', PROPS, vars={'P': A, 'P2': A, 'm': 'Int', 'n': 'Int'},
      hyps=['forall(lambda k: implies(0 <= k and k < n - 1, P2[k] == P[k + 1]))', '0 <= m and m < n - 1',
            'sum_(P2, m) == sum_(P, m + 1) - P[0]'],
      goal='sum_(P2, m + 1) == sum_(P, m + 2) - P[0]')
lemma('advance-accounting/close', PROPS, vars={'P': A, 'P2': A, 'n': 'Int'},
      hyps=['n >= 1', 'P2[n - 1] == 0.0', 'sum_(P2, n - 1) == sum_(P, n) - P[0]'],
      goal='sum_(P2, n) == sum_(P, n) - P[0]',
      note='so delivered + pending is unchanged by read-and-advance: every unit is delivered exactly once')

# ---- an entry placed in relative slot s is at the head after exactly s advances (position decreases by one per advance)
lemma('slot-countdown', PROPS, vars={'P': A, 'P2': A, 'n': 'Int', 's': 'Int'},
      hyps=['forall(lambda k: implies(0 <= k and k < n - 1, P2[k] == P[k + 1]))', '1 <= s and s < n'],
      goal='P2[s - 1] == P[s]',
      note='with the clock post t0\' = t0 + dt: the entry of slot s is delivered at t0 + s*dt, slots in increasing time order')

# ---- the slot chosen by add is the grid time nearest to the request (clamped)
lemma('nearest-slot', ['C20'], vars={'t': 'Real', 't0': 'Real', 'dt': 'Real', 'n': 'Int', 's': 'Int'},
      hyps=['dt > 0 and n >= 1',
            's == ite(floor((t - t0) / dt + 0.5) < 0, 0, ite(floor((t - t0) / dt + 0.5) >= n, n - 1, floor((t - t0) / dt + 0.5)))'],
      goal='0 <= s and s < n and (s == 0 or t >= t0 + (s - 0.5) * dt) and (s == n - 1 or t < t0 + (s + 0.5) * dt)',
      note='slot s has time t0 + s*dt: the request lies within dt/2 of it, except when clamped to the first/last slot')
lemma('past-goes-first', ['C20'], vars={'t': 'Real', 't0': 'Real', 'dt': 'Real', 'n': 'Int'},
      hyps=['dt > 0 and n >= 1', 't <= t0'],
      goal='ite(floor((t - t0) / dt + 0.5) < 0, 0, ite(floor((t - t0) / dt + 0.5) >= n, n - 1, floor((t - t0) / dt + 0.5))) == 0')
lemma('beyond-goes-last', ['C20'], vars={'t': 'Real', 't0': 'Real', 'dt': 'Real', 'n': 'Int'},
      hyps=['dt > 0 and n >= 1', 't >= t0 + (n - 1) * dt'],
      goal='ite(floor((t - t0) / dt + 0.5) < 0, 0, ite(floor((t - t0) / dt + 0.5) >= n, n - 1, floor((t - t0) / dt + 0.5))) == n - 1')
